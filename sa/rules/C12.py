"""C12 Concurrent writers are detected, never silently clobbered.

Decided: every remote mutable write carries a non-empty test vector that pins
the version the publisher saw, a rejected or surprising answer always ends in
UncoordinatedWriteError, and modify() retries only on that error after a
fresh survey; the test vector reaches the share comparison unweakened through
every protocol hop (DESIGN.md section 5, C12)."""
import builtins

from sa.h import *

EXPLANATION = (
    "Decided (structural, all paths): (1) both write proxies in mutable/layout.py put self._testvs into the "
    "test-and-write vector of their own share number, and on every path to the remote call self._testvs is non-empty "
    "(known truthy, or the 'share must not exist' fallback (0, n>=1, b'') was appended); (2) set_checkstring stores the "
    "vector (0, len(cs), cs) where cs is the caller's packed checkstring or struct.pack(<prefix format>, version, "
    "seqnum, root_hash[, salt]) of its own parameters, and the prefix format is a prefix of the header the proxy "
    "writes; (3) Publish.publish/update give every writer whose (server, shnum) is in the servermap's known shares "
    "the (seqnum, root_hash, salt) of exactly that entry, and bad shares their recorded checkstring; (4) in "
    "_got_write_answer a false 'wrote' and a surprise share whose checkstring differs from ours both always end with "
    "self.surprised = True, and nothing but publish()/update() ever stores a value other than True there; (5) on "
    "every writer Deferred the server's answer reaches _got_write_answer(writer) unchanged (layout.py and "
    "finish_publishing add only pass-through callbacks before it); (6) _done is called only from _push and only "
    "after observing not self.surprised; (7) _failure delivers UncoordinatedWriteError to done_deferred whenever "
    "self.surprised; (8) MutableFileVersion._modify_and_retry retries only after f.trap(UncoordinatedWriteError), "
    "with first_time=False, always re-surveys (_update_servermap) before _modify_once, and the modifier is applied "
    "to the freshly downloaded contents; (9) the storage server applies write vectors only under the truth of "
    "_evaluate_test_vectors over the same vectors and shares, which returns False on the first failing vector, and "
    "returns that verdict, and a test vector is evaluated against anything but the stored share (EmptyShare) only after "
    "observing that the share is absent; (10) in _got_write_answer no local (or never-bound name) is read before it is "
    "bound on a path from which self.surprised = True is still ahead - the NameError would end the handler and be swallowed "
    "by finish_publishing's DeferredList, and the publish would report success; (11) the value compared with "
    "self._checkstring is answer[1][shnum][i] for the loop variable over a surprise set that starts from every share in "
    "the answer, from which only this writer's own share number and share numbers obtained under an equality with the "
    "answering server (writer.server) are removed; both write proxies send a read vector list with an entry i; "
    "publish()/update() set writer.server to the server whose storage server the writer wraps; (12) "
    "Publish.finish_publishing appends every writer Deferred to the list it returns a DeferredList of (never "
    "fireOnOneCallback, list never reset), and push_everything_else runs _push only as a callback of it; (13) in _push every "
    "path after observing self.surprised calls self._failure(); (14) _apply returns the Deferred of self._upload, "
    "_modify_once returns the Deferred _apply is chained on, the callbacks registered in _modify_and_retry/_retry return "
    "the _modify_once/_modify_and_retry calls they make, and both functions return their Deferred on every path; (15) "
    "set_checkstring stores (0, len(cs), cs) only after cs is known non-empty (tested against b'' / truth / len, or "
    "freshly struct.pack'ed), because (0, 0, b'') is satisfied by any share contents; (16) both IStorageServer adapters of "
    "storage_client.py (Foolscap _StorageServer, HTTP _HTTPStorageServer) send, in the one call that names the storage "
    "index, a mapping with exactly one unconditional entry per share number of tw_vectors, filed under that number, whose "
    "test vector has exactly one unconditional element per element the writer gave, and that element carries the writer's "
    "own offset, length and specimen (elements 0, 1, 2) in the places the far side reads them from - decided by evaluating "
    "the method body (comprehensions, loops with append / item stores, locals, package-local helpers) to the shape of "
    "the value it builds, so a length recomputed from the specimen, a filter, a slice or a constant is a violation and a "
    "rewritten loop is not; (17) on the HTTP path the request body carries asdict() of every share's vectors under its "
    "number, TestWriteVectors.asdict only renames fields, the handler mutable_read_test_write rebuilds for every share "
    "of that body field one tuple per element of the share's test field, taking offset / size / specimen from that "
    "element's own fields and putting them where check_testv reads them, and (16) matches the adapter's TestVector fields "
    "against exactly those keys; FoolscapStorageServer.remote_slot_testv_and_readv_and_writev hands the vectors it received "
    "to the storage server untouched; (18) MutableShareFile.check_testv walks over the whole test vector, compares "
    "_read_share_data(f, offset, length) of the element's own offset / length with the element's specimen "
    "(EmptyShare.check_testv: b''), testv_compare returns a == b on every path, after a failing comparison every "
    "return gives False and a possibly-true value is returned only after the loop ran to its end. "
    "Undecided: the (writers+1)*k <= N recoverability arithmetic over interleavings, what _read_share_data returns for a "
    "given offset / length (container arithmetic), wire conversion of write vectors, read vectors, secrets and results and "
    "CBOR / schema value-level behaviour (C31); exceptions other than unbound names raised inside "
    "_got_write_answer before the marking (they are swallowed by the DeferredList as well); which servermap mode the "
    "first/later attempts of modify() use and the new sequence number (value-level); that self._checkstring holds the "
    "checkstring the writers expect (a wrong value only produces spurious surprises); placement bookkeeping "
    "(goal/placed/bad_servers), leases and timing/status code.")
TECHNIQUE = ("static analysis: CFG path rules over normalised edge facts, reaching definitions, Deferred chain model, who-may-write "
             "sweeps, abstract evaluation of the protocol hops to the shape of the vectors they build")

PUB = "mutable.publish:Publish"
SDMFW = "mutable.layout:SDMFSlotWriteProxy"
MDMFW = "mutable.layout:MDMFSlotWriteProxy"
MFV = "mutable.filenode:MutableFileVersion"
SRV = "storage.server:StorageServer"
REMOTE = "slot_testv_and_readv_and_writev"
KS = "self._servermap.get_known_shares()"


# ------------------------------------------------------------------ helpers
def _fact_gate(fnorm, pred):
    def gate(n, lab):
        f = fnorm.edge_fact(n, lab)
        return bool(f) and bool(pred(*f))
    return gate


def _class_funcs(ci):
    out, stack = [], list(ci.methods.values())
    while stack:
        f = stack.pop()
        out.append(f)
        stack.extend(v for k, v in f.nested.items() if not k.startswith("<lambda"))
    return out


def _sweep(idx, name):
    """Every call ``X.name(..)`` and every other load of an attribute ``X.name`` in the package, *including
    lambda bodies* (the engine's call-graph sweeps do not enter lambdas): (fn, node, receiver expr, 'call'|'ref')."""
    cache = idx.__dict__.setdefault("_lambda_sweep_cache", {})
    out = []
    for fn in idx.funcs.values():
        if name not in fn.module.source:
            continue
        ent = cache.get(fn.qual)
        if ent is None:
            nodes = [n for n in func_own_nodes(fn, into_lambda=True) if isinstance(n, (ast.Call, ast.Attribute))]
            callfuncs = {id(n.func) for n in nodes if isinstance(n, ast.Call)}
            ent = cache[fn.qual] = (nodes, callfuncs)
        nodes, callfuncs = ent
        for n in nodes:
            if isinstance(n, ast.Call):
                if isinstance(n.func, ast.Attribute) and n.func.attr == name:
                    out.append((fn, n, n.func.value, "call"))
            elif n.attr == name and isinstance(n.ctx, ast.Load) and id(n) not in callfuncs:
                out.append((fn, n, n.value, "ref"))
    return out


def _method_uses(idx, cg, tail, owner, foreign_prefix="allmydata.mutable"):
    """Calls and bare attribute references ``X.tail`` that can denote `owner`'s method: receiver ``self``
    inside the owner class (or a subclass), or any non-self receiver inside `foreign_prefix`."""
    out = []
    for (fn, node, recv, kind) in _sweep(idx, tail):
        if isinstance(recv, ast.Name) and recv.id == "self":
            if fn.cls is not None and owner in fn.cls.mro():
                out.append((fn, node, kind))
        elif fn.module.name.startswith(foreign_prefix):
            out.append((fn, node, kind))
    return out


def _callable_info(idx, fn, target):
    if isinstance(target, ast.Lambda):
        lf = idx.lambda_func(fn, target)
        ps = first_positional_params(lf)
        return (lf, ps[0] if ps else None)
    if isinstance(target, ast.Name):
        p = fn
        while p is not None:
            if target.id in p.nested:
                g = p.nested[target.id]
                ps = first_positional_params(g)
                return (g, ps[0] if ps else None)
            p = p.parent
        return None
    if isinstance(target, ast.Attribute) and isinstance(target.value, ast.Name) and target.value.id == "self" \
            and fn.cls is not None:
        g = fn.cls.lookup(target.attr)
        if g is not None:
            ps = first_positional_params(g)
            return (g, ps[0] if ps else None)
    return None


def _copy_root(fnorm, n, e):
    """Follow plain local copies (`tmp = x; .. tmp`) of a name back to the name copied."""
    for _ in range(8):
        d = fnorm.env_at(n).defs.get(e.id) if isinstance(e, ast.Name) else None
        if not isinstance(d, ast.Name):
            break
        e = d
    return e


def _is_pass_through(idx, fn, target):
    """The callable returns its first argument on every normal path."""
    info = _callable_info(idx, fn, target)
    if info is None or info[1] is None:
        return False
    g, p = info
    gnorm = FlowNorm(g)

    def ret_param(n):
        if not is_return(n) or n.ast.value is None:
            return False
        v = _copy_root(gnorm, n, n.ast.value)
        return isinstance(v, ast.Name) and v.id == p
    return not find_path_avoiding(g.cfg(), lambda n: n.kind == "exit", gate_node=ret_param, kill=stores(p))


def _reg_args(reg, side):
    if reg.kind != "pair":
        return list(reg.args)
    kw = kwarg(reg.call, "callbackArgs" if side == "ok" else "errbackArgs")
    if kw is None and side == "ok" and len(reg.call.args) > 2:
        kw = reg.call.args[2]
    if isinstance(kw, (ast.Tuple, ast.List)):
        return list(kw.elts)
    return []


def _literal(e):
    """Constant value of a small literal expression (tuple([..]) unwrapped), or NotImplemented."""
    if isinstance(e, ast.Call) and isinstance(e.func, ast.Name) and e.func.id in ("tuple", "list") and len(e.args) == 1 \
            and not e.keywords:
        e = e.args[0]
    try:
        v = ast.literal_eval(e)
    except Exception:
        return NotImplemented
    return tuple(v) if isinstance(v, list) else v


def _must_not_exist_vector(e):
    v = _literal(e)
    return isinstance(v, tuple) and len(v) == 3 and isinstance(v[0], int) and isinstance(v[1], int) \
        and v[0] >= 0 and v[1] >= 1 and v[2] == b""


def _mne_vector(e, fn, folder):
    """`e` denotes a (offset, length >= 1, b'') vector: literally, or as a constant of fn's module / class."""
    if _must_not_exist_vector(e):
        return True
    try:
        v = folder.fold(e, fn.module, fn.cls)
    except Exception:
        return False
    if isinstance(v, list):
        v = tuple(v)
    return isinstance(v, tuple) and len(v) == 3 and isinstance(v[0], int) and isinstance(v[1], int) \
        and not isinstance(v[0], bool) and v[0] >= 0 and v[1] >= 1 and v[2] == b""


def _bind_call(g, call, skip_self):
    """Parameter binding of `call` to helper g: {param name: caller expression | default expression | None}, plus
    the set of parameters bound from the call site (not from a default).  None (whole result) if it cannot be decided
    (star args, unknown keywords, vararg helper)."""
    a = g.node.args
    if a.vararg or a.kwarg or a.kwonlyargs or any(isinstance(x, ast.Starred) for x in call.args) \
            or any(k.arg is None for k in call.keywords):
        return None
    names = [x.arg for x in list(getattr(a, "posonlyargs", [])) + list(a.args)]
    if skip_self and names:
        names = names[1:]
    if len(call.args) > len(names):
        return None
    bound, given = {}, set()
    for nm, e in zip(names, call.args):
        bound[nm] = e
        given.add(nm)
    for k in call.keywords:
        if k.arg not in names or k.arg in bound:
            return None
        bound[k.arg] = k.value
        given.add(k.arg)
    defaults = list(a.defaults)
    dnames = names[len(names) - len(defaults):] if defaults else []
    for nm, d in zip(dnames, defaults[-len(dnames):] if dnames else []):
        bound.setdefault(nm, d)
    if any(nm not in bound for nm in names):
        return None
    return bound, given


def _helper_of(cg, fn, e):
    """(helper FuncInfo, binding, given) when `e` is a call of exactly one package function / own method whose
    parameters can be bound; else None."""
    if not isinstance(e, ast.Call):
        return None
    try:
        cands = cg.resolve(fn, e)
    except Exception:
        return None
    if len(cands) != 1:
        return None
    g = cands[0]
    if g.nested and any(not k.startswith("<lambda") for k in g.nested):
        return None
    is_method = g.cls is not None and not any(
        isinstance(d, ast.Name) and d.id == "staticmethod" for d in g.node.decorator_list)
    b = _bind_call(g, e, skip_self=is_method)
    if b is None:
        return None
    return g, b[0], b[1]


def _helper_list_returns(g):
    """[(cfg node, element)] for the list displays helper g returns (an empty display contributes nothing);
    AnalysisError when some return is not a list display."""
    out = []
    gnorm = FlowNorm(g)
    rets = [n for n in g.cfg().nodes if is_return(n)]
    if not rets:
        raise AnalysisError("%s returns nothing" % short(g))
    for n in rets:
        v = gnorm.resolve(n, n.ast.value) if n.ast.value is not None else None
        if not isinstance(v, ast.List):
            raise AnalysisError("cannot read the test vectors %s returns (%s)" % (
                short(g), src(g, n.ast.value) if n.ast.value is not None else "None"))
        out += [(n, e) for e in v.elts]
    return out


def _helper_tw_entries(r, fn, fnorm, tnode, cs, g, bound, given, folder):
    """The test-and-write dict is built by helper g (`tw = g(shnum, datavs, testvs)`): decide from g's body what is
    filed under which key and whether g itself guarantees a non-empty test vector.  Returns True when g guarantees
    it (the fallback to the must-not-exist vector is inside g), False when the caller still has to."""
    gcfg = g.cfg()
    gnorm = FlowNorm(g)
    rets = [n for n in gcfg.nodes if is_return(n)]
    if not rets:
        raise AnchorVanished("%s returns nothing" % short(g))

    def caller_norm(name):
        e = bound.get(name)
        return fnorm.norm(tnode, e) if e is not None else None
    tv_locals = set()
    for n in rets:
        v = gnorm.resolve(n, n.ast.value) if n.ast.value is not None else None
        if not isinstance(v, ast.Dict) or not v.keys or any(k is None for k in v.keys):
            raise AnalysisError("%s: cannot read the test-and-write vectors %s returns (%s)" % (
                short(fn), short(g), src(g, n.ast.value) if n.ast.value is not None else "None"))
        for k, val in zip(v.keys, v.values):
            kk = gnorm.resolve(n, k)
            kn = caller_norm(kk.id) if isinstance(kk, ast.Name) and kk.id in given and kk.id not in all_defs(g) else None
            r.require(kn == "self.shnum", fn, cs.loc, "vectors are filed under share %s (helper %s), not self.shnum" % (
                src(g, k), short(g)))
            vv = gnorm.resolve(n, val)
            ok = isinstance(vv, ast.Tuple) and len(vv.elts) == 3 and isinstance(vv.elts[0], ast.Name) \
                and vv.elts[0].id in bound
            r.require(ok, fn, cs.loc, "the test vector sent to the server (helper %s) is %s, not self._testvs" % (
                short(g), src(g, vv.elts[0]) if isinstance(vv, ast.Tuple) and vv.elts else src(g, vv)))
            if ok:
                tv_locals.add(vv.elts[0].id)
    guaranteed = True
    gdefs = all_defs(g)
    for t in sorted(tv_locals):
        r.require(t in given and caller_norm(t) == "self._testvs", fn, cs.loc,
                  "the test vector handed to %s is %s, not self._testvs" % (
                      short(g), src(fn, bound[t]) if t in given else "its default"))
        # every rebinding of the helper's local: the must-not-exist fallback, or nothing

        def fills_g(n, _t=t):
            v = assign_value(n, _t)
            if isinstance(v, ast.List) and len(v.elts) == 1 and _mne_vector(v.elts[0], g, folder):
                return True
            for c in calls_at(n, "append"):
                if call_name(c) == _t + ".append" and len(c.args) == 1 and _mne_vector(c.args[0], g, folder):
                    return True
            return False
        for n in gcfg.nodes:
            bad = None
            v = assign_value(n, t)
            if v is not None and not fills_g(n) and not (isinstance(v, ast.List) and not v.elts):
                bad = v
            for c in calls_at(n, "append") + calls_at(n, "extend") + calls_at(n, "insert"):
                if call_name(c).startswith(t + ".") and not fills_g(n):
                    bad = c
            if bad is not None:
                r.violation(g, g.loc(bad), "fallback test vector %s does not mean 'share must not exist' "
                            "(expected (offset, length >= 1, b''))" % src(g, bad))
        for d in gdefs.get(t, []):
            if d is None:
                raise AnalysisError("%s rebinds %s opaquely" % (short(g), t))
        truthy = _fact_gate(gnorm, lambda op, l, rr, _t=t: (op == "truth" and l == _t) or
                            (op in ("<", "!=") and {l, rr} == {"0", "len(%s)" % _t}))
        r.count(len(gcfg.nodes))
        if find_path_avoiding(gcfg, is_return, gate_edge=truthy, gate_node=fills_g, kill=stores(t)):
            guaranteed = False
    return guaranteed


def run(ctx: Context):
    idx = ctx.idx
    cg = get_callgraph(idx)
    pub = idx.cls(PUB)
    folder = get_folder(idx)

    # -- 1. non-empty test vectors on every remote write --------------------
    with ctx.rule("C12.1", "R1", "mutable/layout.py: every slot_testv_and_readv_and_writev call sends self._testvs for "
                  "its own share number, and self._testvs is non-empty on every path to the call", expected=2) as r:
        lay = idx.module("allmydata.mutable.layout")
        sites = [CallSite(f, nd) for (f, nd, _recv, kind) in _sweep(idx, REMOTE) if kind == "call" and f.module is lay]
        for (f, nd, _recv, kind) in _sweep(idx, REMOTE):
            if kind == "ref" and f.module is lay:
                r.violation(f, f.loc(nd), "%s passes %s around as a value: its test vectors cannot be checked" % (short(f), REMOTE))
        for cs in sites:
            fn = cs.fn
            r.site(fn, cs.call)
            cfg = fn.cfg()
            fnorm = FlowNorm(fn)
            tgt = lambda n, _c=cs.call: any(c is _c for c in node_calls(n))
            tnodes = cfg.find(tgt)
            if not tnodes:
                r.violation(fn, cs.loc, "%s issues the remote write from inside a lambda: the state of self._testvs when it "
                            "runs cannot be established" % short(fn))
                continue
            tw = arg(cs.call, 2, "tw_vectors")
            r.require(tw is not None, fn, cs.loc, "no test-and-write vector argument")
            # the entries of the tw_vectors dict
            entries = []
            twr = fnorm.resolve(tnodes[0], tw) if tw is not None else None
            if isinstance(twr, ast.Dict):
                entries += [(tnodes[0], k, v) for k, v in zip(twr.keys, twr.values)]
            if isinstance(tw, ast.Name):
                for n in cfg.nodes:
                    if n.kind == "stmt" and isinstance(n.ast, ast.Assign) and (tw.id + "[]") in node_stores(n):
                        for t in n.ast.targets:
                            if isinstance(t, ast.Subscript) and attr_path(t.value) == tw.id:
                                entries.append((n, t.slice, n.ast.value))
            helper_guarantees = False
            if not entries:
                # the dict is assembled by a helper: follow it with the call's parameter binding
                h = _helper_of(cg, fn, twr)
                if h is not None:
                    helper_guarantees = _helper_tw_entries(r, fn, fnorm, tnodes[0], cs, h[0], h[1], h[2], folder)
                    entries = None
                elif isinstance(twr, ast.Call):
                    raise AnalysisError("%s: the test-and-write vectors come from %s, which cannot be followed" % (
                        short(fn), src(fn, twr)))
            if entries is not None:
                r.require(bool(entries), fn, cs.loc, "cannot find what %s puts into the test-and-write vectors" % short(fn))
            entries = entries or []
            for (n, k, v) in entries:
                vv = fnorm.resolve(n, v)
                ok = isinstance(vv, ast.Tuple) and len(vv.elts) == 3 and fnorm.norm(n, vv.elts[0]) == "self._testvs"
                r.require(ok, fn, fn.loc(n.ast), "the test vector sent to the server is %s, not self._testvs" % (
                    src(fn, vv.elts[0]) if isinstance(vv, ast.Tuple) and vv.elts else src(fn, vv)))
                r.require(fnorm.norm(n, k) == "self.shnum", fn, fn.loc(n.ast),
                          "vectors are filed under share %s, not self.shnum" % src(fn, k))

            def fills(n):
                for c in calls_at(n, "append"):
                    if call_name(c) == "self._testvs.append" and len(c.args) == 1 and _must_not_exist_vector(c.args[0]):
                        return True
                v = assign_value(n, "self._testvs")
                if isinstance(v, ast.List) and len(v.elts) == 1 and _must_not_exist_vector(v.elts[0]):
                    return True
                return False

            def weak_fill(n):
                """stores / appends to self._testvs that are neither empty-reset nor the must-not-exist vector"""
                for c in calls_at(n, "append"):
                    if call_name(c) == "self._testvs.append" and not fills(n):
                        return c
                return None
            for n in cfg.nodes:
                c = weak_fill(n)
                if c is not None:
                    r.violation(fn, fn.loc(c), "fallback test vector %s does not mean 'share must not exist' "
                                "(expected (offset, length >= 1, b''))" % src(fn, c.args[0]))
            truthy_tv = _fact_gate(fnorm, lambda op, l, rr: (op == "truth" and l == "self._testvs") or
                                   (op in ("<", "!=") and {l, rr} == {"0", "len(self._testvs)"}))
            r.count(len(cfg.nodes))
            for (n, w) in ([] if helper_guarantees else
                           find_path_avoiding(cfg, tgt, gate_edge=truthy_tv, gate_node=fills, kill=stores("self._testvs"))):
                r.violation(fn, fn.loc(n.ast), "%s can send an empty test vector: the write would succeed whatever the "
                            "share holds (path: %s)" % (short(fn), w.brief()), w)
        if len(sites) < 2:
            raise AnchorVanished("expected the SDMF and MDMF write proxies to call %s" % REMOTE)

    # -- 2. set_checkstring pins the whole checkstring -----------------------
    with ctx.rule("C12.2", "R5", "set_checkstring stores the test vector (0, len(cs), cs); cs is the packed prefix "
                  "(version, seqnum, root_hash[, salt]) of its own parameters in the proxy's header format", expected=2) as r:
        for (q, fmt_name, header_name, nfields) in ((SDMFW, "PREFIX", "SIGNED_PREFIX", 4),
                                                   (MDMFW, "MDMFCHECKSTRING", "MDMFHEADER", 3)):
            fn = idx.func(q + ".set_checkstring")
            r.site(fn, None)
            cfg = fn.cfg()
            fnorm = FlowNorm(fn)
            ps = first_positional_params(fn)
            vecs = []
            for n in cfg.nodes:
                v = assign_value(n, "self._testvs")
                if isinstance(v, ast.List):
                    vecs += [(n, e, None) for e in v.elts]
                elif v is not None:
                    h = _helper_of(cg, fn, v)
                    if h is None:
                        r.violation(fn, fn.loc(n.ast), "self._testvs is set to %s" % src(fn, v))
                    else:
                        vecs += [(n, e, h) for (_gn, e) in _helper_list_returns(h[0])]
                for c in calls_at(n, "append"):
                    if call_name(c) == "self._testvs.append" and c.args:
                        vecs.append((n, c.args[0], None))
            if not vecs:
                raise AnchorVanished("%s stores no test vector" % short(fn))
            cs_names = set()
            for (n, e, h) in vecs:
                e2 = e.args[0] if isinstance(e, ast.Call) and call_name(e) == "tuple" and e.args else e
                if h is not None:
                    # the vector is built by helper h[0] from one of its parameters: read it in the caller's terms
                    g, bound, given = h
                    ok = isinstance(e2, (ast.Tuple, ast.List)) and len(e2.elts) == 3 \
                        and isinstance(e2.elts[0], ast.Constant) and e2.elts[0].value == 0 \
                        and norm_plain(e2.elts[1]) == "len(%s)" % norm_plain(e2.elts[2])
                    r.require(ok, g, g.loc(e), "test vector %s does not compare the whole checkstring at offset 0 "
                              "(expected (0, len(cs), cs))" % src(g, e))
                    if ok:
                        p3 = e2.elts[2]
                        a3 = bound.get(p3.id) if isinstance(p3, ast.Name) and p3.id in given and p3.id not in all_defs(g) else None
                        if isinstance(a3, ast.Name):
                            cs_names.add(a3.id)
                        else:
                            r.require(False, fn, fn.loc(n.ast), "checkstring expression %s (helper %s) is not a plain local "
                                      "of %s" % (src(g, p3), short(g), short(fn)))
                    continue
                ok = isinstance(e2, (ast.Tuple, ast.List)) and len(e2.elts) == 3 \
                    and isinstance(e2.elts[0], ast.Constant) and e2.elts[0].value == 0 \
                    and norm_plain(e2.elts[1]) == "len(%s)" % norm_plain(e2.elts[2])
                r.require(ok, fn, fn.loc(n.ast), "test vector %s does not compare the whole checkstring at offset 0 "
                          "(expected (0, len(cs), cs))" % src(fn, e))
                if ok and isinstance(e2.elts[2], ast.Name):
                    cs_names.add(e2.elts[2].id)
                elif ok:
                    r.require(False, fn, fn.loc(n.ast), "checkstring expression %s is not a plain local" % src(fn, e2.elts[2]))
            # every definition of the checkstring local: the caller's packed string or pack(fmt, ver, params..)
            try:
                fmt = folder.module_const("mutable.layout", fmt_name)
                header = folder.module_const("mutable.layout", header_name)
            except NotConstant as e:
                raise AnalysisError("cannot fold %s / %s: %s" % (fmt_name, header_name, e))
            r.require(isinstance(fmt, str) and isinstance(header, str) and header.replace(" ", "").startswith(fmt.replace(" ", "")),
                      fn, fn.loc(), "%s=%r is not a prefix of the share header format %s=%r" % (fmt_name, fmt, header_name, header))
            r.require(struct_value_count(fmt) == nfields, fn, fn.loc(), "%s has %s fields" % (fmt_name, struct_value_count(fmt)))
            n_pack = 0
            for nm in cs_names:
                for d in all_defs(fn).get(nm, []):
                    if isinstance(d, ast.Name) and d.id == ps[0]:
                        continue
                    if isinstance(d, ast.Call) and call_name(d) == "struct.pack":
                        n_pack += 1
                        a = d.args
                        want = ps[:nfields - 1]
                        ok = len(a) == nfields + 1 and isinstance(a[0], ast.Name) and a[0].id == fmt_name \
                            and [x.id if isinstance(x, ast.Name) else None for x in a[2:]] == want
                        r.require(ok, fn, fn.loc(d), "checkstring is packed as %s (expected struct.pack(%s, <version>, %s))" % (
                            src(fn, d), fmt_name, ", ".join(want)))
                        # version byte agrees with the one the proxy writes into its own header
                        ver = a[1].value if len(a) > 1 and isinstance(a[1], ast.Constant) else None
                        own = _own_header_version(idx, q)
                        r.require(ver is not None and ver == own, fn, fn.loc(d), "checkstring version byte %r differs from the "
                                  "version %r the proxy writes" % (ver, own))
                        continue
                    r.violation(fn, fn.loc(d) if d is not None else fn.loc(), "checkstring is taken from %s" % (
                        src(fn, d) if d is not None else "an opaque binding"))
            r.require(n_pack >= 1, fn, fn.loc(), "%s no longer packs a checkstring from (seqnum, root_hash..)" % short(fn))

    # -- 3. the publisher pins each share to the version it saw --------------
    with ctx.rule("C12.3", "R1/R2", "Publish.publish/update: a writer for (server, shnum) in the servermap's known shares "
                  "always gets set_checkstring(seqnum, root_hash, salt) of exactly that entry; bad shares get their "
                  "recorded checkstring", expected=3) as r:
        for mname in ("publish", "update"):
            _publisher_checkstrings(r, idx.func(PUB + "." + mname), need_bad=(mname == "publish"))

    # -- 4. surprise detection -------------------------------------------------
    with ctx.rule("C12.4", "R2/R4", "_got_write_answer: wrote false => self.surprised = True; a surprise share with a "
                  "different checkstring => self.surprised = True; only publish()/update() store anything but True",
                  expected=6) as r:
        ga = idx.func(PUB + "._got_write_answer")
        _not_wrote_surprised(r, ga)
        _mismatch_surprised(r, ga, cg)
        _surprised_discipline(r, idx, cg, pub)

    # -- 5. the answer reaches _got_write_answer ------------------------------
    with ctx.rule("C12.5", "E7", "every writer Deferred hands the server's (wrote, read_data) unchanged to "
                  "_got_write_answer for that writer; the proxies return the remote call's own Deferred", expected=3) as r:
        fp = idx.func(PUB + ".finish_publishing")
        _answer_chain(r, idx, fp)
        for q in (SDMFW, MDMFW):
            _returns_remote(r, idx, idx.func(q + ".finish_publishing"), 0)

    # -- 6. success only when not surprised -----------------------------------
    with ctx.rule("C12.6", "R4/R1", "Publish._done is called only from _push and only after observing not self.surprised",
                  expected=2) as r:
        push = idx.func(PUB + "._push")
        idx.func(PUB + "._done")
        uses = _method_uses(idx, cg, "_done", pub)
        if not uses:
            raise AnchorVanished("no caller of Publish._done")
        r.site("callers/references of Publish._done: %d" % len(uses))
        for (f, nd, kind) in uses:
            if kind == "call" and f is push:
                continue
            r.violation(f, f.loc(nd), "%s %s _done: success can be reported although a surprise was seen" % (
                short(f), "calls" if kind == "call" else "passes around"))
        cfg = push.cfg()
        fnorm = FlowNorm(push)
        tgt = has_call("_done")
        tn = cfg.find(tgt)
        if not tn:
            raise AnchorVanished("_push no longer calls _done")
        r.site(push, tn[0].ast, "gate not surprised")
        r.count(len(cfg.nodes))
        gate = _fact_gate(fnorm, lambda op, l, rr: op == "false" and l == "self.surprised")
        for (n, w) in find_path_avoiding(cfg, tgt, gate_edge=gate, kill=stores("self.surprised")):
            r.violation(push, push.loc(n.ast), "_done() is reachable without having observed not self.surprised "
                        "(path: %s)" % w.brief(), w)

    # -- 7. surprised => UncoordinatedWriteError ---------------------------------
    with ctx.rule("C12.7", "R3", "_failure delivers UncoordinatedWriteError to done_deferred when self.surprised "
                  "(NotEnoughServersError otherwise)", expected=1) as r:
        _failure_mapping(r, idx.func(PUB + "._failure"))

    # -- 8. modify() retry discipline ---------------------------------------------
    with ctx.rule("C12.8", "R1/E7", "_modify_and_retry: _retry traps UncoordinatedWriteError before backing off, re-runs "
                  "with first_time=False, every attempt re-surveys before _modify_once, the modifier sees the fresh download",
                  expected=4) as r:
        _retry_discipline(r, idx)

    # -- 9. server side: writes only under passing tests --------------------------
    with ctx.rule("C12.9", "R3", "StorageServer.slot_testv_and_readv_and_writev applies write vectors only when "
                  "_evaluate_test_vectors over the same vectors/shares is true and returns that verdict; "
                  "_evaluate_test_vectors returns False on the first failing vector", expected=3) as r:
        _server_side(r, idx)

    # -- 10. the answer handler cannot die before it marks the surprise ----------
    with ctx.rule("C12.10", "R1", "_got_write_answer: no local is read before it is bound on a path that can still reach "
                  "self.surprised = True (the NameError would be swallowed by finish_publishing's DeferredList)",
                  expected=1) as r:
        _bound_before_marking(r, idx.func(PUB + "._got_write_answer"))

    # -- 11. what is compared, and what is withheld from the comparison -----------
    with ctx.rule("C12.11", "R1/E6", "_got_write_answer compares self._checkstring with answer[1][shnum][i] for every shnum "
                  "of a surprise set that starts from all shares in the answer; only this writer's share and shares tied "
                  "to the answering server are withheld; both proxies send a read vector with index i; publish()/update() give "
                  "every writer the .server the handler reads", expected=6) as r:
        _surprise_set(r, idx, idx.func(PUB + "._got_write_answer"))
        for mname in ("publish", "update"):
            _writer_server_attr(r, idx.func(PUB + "." + mname), idx.func(PUB + "._got_write_answer"))

    # -- 12. every answer is awaited before success can be reported ---------------
    with ctx.rule("C12.12", "E7", "Publish.finish_publishing returns a DeferredList over a list that received every writer "
                  "Deferred; push_everything_else runs _push only as a callback of it", expected=3) as r:
        _answers_awaited(r, idx)

    # -- 13. a surprise is reported, not dropped -----------------------------------
    with ctx.rule("C12.13", "R1", "_push: after observing self.surprised every path calls self._failure()", expected=1) as r:
        _surprised_fails(r, idx.func(PUB + "._push"))

    # -- 14. the publish result travels back through modify() ----------------------
    with ctx.rule("C12.14", "E7", "modify(): _apply returns the upload's Deferred, _modify_once returns the Deferred _apply is "
                  "chained on, the callbacks in _modify_and_retry/_retry return the calls they make, and both return their "
                  "Deferred - an UncoordinatedWriteError reaches _retry and the caller", expected=5) as r:
        _modify_chain_returns(r, idx)

    # -- 15. no zero-length test vector ----------------------------------------------
    with ctx.rule("C12.15", "R1", "set_checkstring stores (0, len(cs), cs) only where cs is known to be non-empty "
                  "((0, 0, b'') is satisfied by any share contents)", expected=2) as r:
        for q in (SDMFW, MDMFW):
            _nonempty_vector(r, idx.func(q + ".set_checkstring"), cg)

    # -- 16. the protocol adapters forward the test vectors as given --------------------
    with ctx.rule("C12.16", "R5", "every IStorageServer adapter (Foolscap, HTTP) sends, for every share number of tw_vectors and "
                  "under that number, one test vector element per element the writer gave, carrying the writer's own offset, "
                  "length and specimen in the places the server reads them from", expected=2) as r:
        _adapters_rule(r, idx)

    # -- 17. the wire hops between adapter and storage server ---------------------------
    with ctx.rule("C12.17", "R5", "HTTP: the request body carries asdict() of every share's vectors under its share number, the "
                  "handler rebuilds one (offset, size, op, specimen) element per element sent, from that element's own fields, "
                  "in the places check_testv reads; the Foolscap server object hands its vectors through untouched", expected=3) as r:
        _wire_rule(r, idx)

    # -- 18. what the server compares ----------------------------------------------------
    with ctx.rule("C12.18", "R3", "check_testv compares, for every element of the test vector, `length` bytes read at `offset` "
                  "(b'' for an absent share) with the element's specimen by whole equality, and returns False once one fails",
                  expected=3) as r:
        _consumer(idx, r)


# --------------------------------------------------------------- rule bodies
def _own_header_version(idx, q):
    """Version byte the proxy itself packs at offset 0 (get_signable for SDMF, get_checkstring for MDMF)."""
    fn = idx.func(q + (".get_signable" if q == SDMFW else ".get_checkstring"))
    for c in calls_in_func(fn, "pack"):
        if len(c.args) > 1 and isinstance(c.args[1], ast.Constant):
            return c.args[1].value
    raise AnchorVanished("%s no longer packs a header" % short(fn))


def _publisher_checkstrings(r, fn, need_bad):
    cfg = fn.cfg()
    fnorm = FlowNorm(fn)
    calls = [(n, c) for n in cfg.nodes for c in calls_at(n, "set_checkstring")]
    three = [(n, c) for (n, c) in calls if len(c.args) == 3]
    one = [(n, c) for (n, c) in calls if len(c.args) == 1]
    # writers are built as writer_class(shnum, server.get_storage_server(), ...)
    creators = [n for n in cfg.nodes if n.kind == "stmt" and isinstance(n.ast, ast.Assign)
                and isinstance(n.ast.value, ast.Call) and len(n.ast.value.args) >= 2
                and isinstance(n.ast.value.args[1], ast.Call) and call_tail(n.ast.value.args[1]) == "get_storage_server"]
    if not creators:
        raise AnchorVanished("%s: writer construction not found" % short(fn))
    if not three:
        r.site(fn, creators[0].ast, "known-share checkstring (missing)")
        r.violation(fn, fn.loc(creators[0].ast), "%s never gives a writer the (seqnum, root_hash, salt) the servermap recorded "
                    "for its share: every write falls back to the 'must not exist' vector or a stale one" % short(fn))
        return
    key_re = re.compile(r"^" + re.escape(KS) + r"\[\((\w+), (\w+),\)\]\[0\]\[0\]$")
    keys = set()
    for (n, c) in three:
        r.site(fn, c, "known-share checkstring")
        got = [fnorm.norm(n, a) for a in c.args]
        m = key_re.match(got[0])
        if not m:
            r.violation(fn, fn.loc(c), "writer's expected seqnum is %s, not the seqnum of this (server, shnum)'s entry in "
                        "the servermap's known shares" % got[0])
            continue
        S, Nn = m.group(1), m.group(2)
        keys.add((S, Nn))
        want = ["%s[(%s, %s,)][0][%d]" % (KS, S, Nn, i) for i in range(3)]
        r.require(got == want, fn, fn.loc(c), "set_checkstring gets %s; expected (seqnum, root_hash, salt) = entries 0,1,2 "
                  "of the version recorded for (%s, %s)" % (got, S, Nn))
        # the receiver is the writer built for that server and share number
        recv = c.func.value
        ctor = fnorm.resolve(n, recv)
        ok = isinstance(ctor, ast.Call) and len(ctor.args) >= 2 and fnorm.norm(n, ctor.args[0]) == Nn \
            and fnorm.norm(n, ctor.args[1]) == S + ".get_storage_server()"
        r.require(ok, fn, fn.loc(c), "the writer receiving the checkstring of (%s, %s) is %s" % (S, Nn, src(fn, ctor)))
        member = _fact_gate(fnorm, lambda op, l, rr, _k="(%s, %s,)" % (S, Nn): op == "in" and l == _k and rr == KS)
        r.count(len(cfg.nodes))
        for (t, w) in find_path_avoiding(cfg, lambda x, _n=n: x is _n, gate_edge=member, kill=stores_any([S, Nn])):
            r.violation(fn, fn.loc(c), "set_checkstring for a known share is reached without the membership test "
                        "(path: %s)" % w.brief(), w)
    for (n, c) in one:
        r.site(fn, c, "bad-share checkstring")
        got = fnorm.norm(n, c.args[0])
        m = re.match(r"^self\.bad_share_checkstrings\[\((\w+), (\w+),\)\]$", got)
        r.require(bool(m), fn, fn.loc(c), "bad share's writer gets %s, not its recorded checkstring" % got)
        if m:
            member = _fact_gate(fnorm, lambda op, l, rr, _k="(%s, %s,)" % (m.group(1), m.group(2)):
                                op == "in" and l == _k and rr == "self.bad_share_checkstrings")
            for (t, w) in find_path_avoiding(cfg, lambda x, _n=n: x is _n, gate_edge=member):
                r.violation(fn, fn.loc(c), "bad-share checkstring used without the membership test", w)
    if need_bad:
        if not one:
            r.site(fn, creators[0].ast, "bad-share checkstring (missing)")
            r.violation(fn, fn.loc(creators[0].ast), "%s no longer gives writers of bad shares the checkstring recorded by "
                        "the servermap" % short(fn))
        # bad_share_checkstrings is filled from the servermap's bad shares
        fed = False
        for n in cfg.nodes:
            if "self.bad_share_checkstrings[]" in node_stores(n) and isinstance(n.ast, ast.Assign):
                fed = fed or any(call_tail(c) == "get_bad_shares" for c in calls_feeding(fn, n.ast.value))
        r.require(fed, fn, fn.loc(), "bad_share_checkstrings is not filled from servermap.get_bad_shares()")
    # every writer created for a known share gets the call before the loop moves on
    for cn in creators:
        def transfer(n, lab, nxt, st):
            has, notin = st
            if any(len(c.args) == 3 for c in calls_at(n, "set_checkstring")) and lab != "exc":
                has = True
            f = fnorm.edge_fact(n, lab)
            if f and f[0] == "not in" and f[2] == KS and any(f[1] == "(%s, %s,)" % k for k in keys):
                notin = True
            if n.kind in ("iter",) and n is not cn:
                return None          # stop at the loop head (checked on arrival)
            if lab == "exc":
                return None
            return (has, notin)
        visited, parent = explore(cfg, (False, False), transfer, start=cn)
        r.count(len(visited))
        for (nid, st) in sorted(visited):
            nd = cfg.nodes[nid]
            if nd.kind in ("iter", "exit") and nd is not cn and not (st[0] or st[1]):
                w = witness(cfg, parent, (nid, st))
                r.violation(fn, fn.loc(cn.ast), "a writer for a share the servermap knows can be left without the old "
                            "checkstring (it would use the 'must not exist' vector or a stale one) (path: %s)" % w.brief(), w)
                break


def _not_wrote_surprised(r, ga):
    cfg = ga.cfg()
    fnorm = FlowNorm(ga)
    ps = first_positional_params(ga)
    if len(ps) < 2:
        raise AnchorVanished("_got_write_answer(answer, writer, ..) signature changed")
    ans = ps[0]
    seen = [False]

    def transfer(n, lab, nxt, st):
        wrote_true, no_answer, sset = st
        f = fnorm.edge_fact(n, lab)
        if f:
            if f[1] == ans + "[0]" and f[2] is None:
                seen[0] = True
                if f[0] == "truth":
                    wrote_true = True
            if f[0] == "false" and f[1] == ans and f[2] is None:
                no_answer = True
        if n.kind == "stmt" and "self.surprised" in node_stores(n):
            v = assign_value(n, "self.surprised")
            sset = isinstance(v, ast.Constant) and v.value is True
        return (wrote_true, no_answer, sset)
    visited, parent = explore(cfg, (False, False, False), transfer)
    r.count(len(visited))
    r.site(ga, None, "not wrote => surprised")
    if not seen[0]:
        raise AnchorVanished("_got_write_answer no longer tests answer[0] ('wrote')")
    for (nid, st) in sorted(visited):
        if cfg.nodes[nid].kind == "exit" and not (st[0] or st[1] or st[2]):
            w = witness(cfg, parent, (nid, st))
            r.violation(ga, ga.loc(), "_got_write_answer can return with wrote false and self.surprised unset: a rejected "
                        "test-and-set write is not reported as an uncoordinated write (path: %s)" % w.brief(), w)
            break


def _is_cs_mismatch(e):
    """`X != self._checkstring` (either side; `not X == ..` too)."""
    if isinstance(e, ast.UnaryOp) and isinstance(e.op, ast.Not):
        c = e.operand
        return isinstance(c, ast.Compare) and len(c.ops) == 1 and isinstance(c.ops[0], ast.Eq) \
            and "self._checkstring" in (attr_path(c.left), attr_path(c.comparators[0]))
    return isinstance(e, ast.Compare) and len(e.ops) == 1 and isinstance(e.ops[0], ast.NotEq) \
        and "self._checkstring" in (attr_path(e.left), attr_path(e.comparators[0]))


def _mismatch_indicator(e):
    """`any(X != self._checkstring for .. in ..)`: true exactly when some examined checkstring differs from ours."""
    return isinstance(e, ast.Call) and call_name(e) == "any" and len(e.args) == 1 and not e.keywords \
        and isinstance(e.args[0], (ast.GeneratorExp, ast.ListComp)) and _is_cs_mismatch(e.args[0].elt)


def _mismatch_monitor(fn, cg, helper_mode, depth=0):
    """Product of fn's CFG with (a differing checkstring was observed, locals known True, the surprise is recorded).
    'recorded' is `self.surprised = True` in _got_write_answer and, for a helper that reports to its caller
    (helper_mode), returning True / the mismatch indicator itself.  Calls of own helpers that report a mismatch
    through their result are followed (`if self._scan(..): self.surprised = True`).
    -> (seen, cfg, visited, parent)"""
    cfg = fn.cfg()
    fnorm = FlowNorm(fn)
    seen = [False]
    memo = {}

    def reporting_call(n, e):
        """e (resolved) is the mismatch indicator, or a call of a helper whose result is truthy whenever it saw one."""
        try:
            e = fnorm.resolve(n, e)
        except Exception:
            pass
        if _mismatch_indicator(e):
            return True
        if not isinstance(e, ast.Call) or depth >= 2 or cg is None:
            return False
        if id(e) not in memo:
            memo[id(e)] = False
            h = _helper_of(cg, fn, e)
            if h is not None and h[0] is not fn and h[0].cls is not None and h[0].cls is fn.cls:
                g_seen, gcfg, gvis, _gpar = _mismatch_monitor(h[0], cg, True, depth + 1)
                memo[id(e)] = g_seen and not any(gcfg.nodes[nid].kind == "exit" and st[0] and not st[2]
                                                 for (nid, st) in gvis)
        return memo[id(e)]

    def transfer(n, lab, nxt, st):
        mism, true_locals, sset = st
        f = fnorm.edge_fact(n, lab)
        if f and f[0] == "!=" and "self._checkstring" in (f[1], f[2]):
            seen[0] = True
            mism = True
        if n.kind == "test" and isinstance(lab, tuple) and reporting_call(n, n.ast):
            seen[0] = True
            if lab[0] == "T":
                mism = True
        # a local known to be True decides a plain `if local:` test
        if n.kind == "test" and isinstance(n.ast, ast.Name) and n.ast.id in true_locals and isinstance(lab, tuple) \
                and lab[0] == "F":
            return None
        if n.kind in ("stmt", "iter", "with", "except"):
            st_names = {s for s in node_stores(n) if "." not in s and not s.endswith("[]")}
            if st_names:
                tl = set(true_locals) - st_names
                if n.kind == "stmt" and isinstance(n.ast, ast.Assign) and isinstance(n.ast.value, ast.Constant) \
                        and n.ast.value.value is True:
                    tl |= {t.id for t in n.ast.targets if isinstance(t, ast.Name)}
                true_locals = frozenset(tl)
            if "self.surprised" in node_stores(n):
                v = assign_value(n, "self.surprised")
                sset = isinstance(v, ast.Constant) and v.value is True
                if v is not None and not sset and reporting_call(n, v):
                    # self.surprised = <mismatch indicator>: True whenever a differing checkstring was seen
                    # (that such a store can also *clear* the flag is _surprised_discipline's business)
                    seen[0] = True
                    sset = True
            if helper_mode and is_return(n) and n.ast.value is not None:
                v = n.ast.value
                if (isinstance(v, ast.Constant) and v.value is True) or (isinstance(v, ast.Name) and v.id in true_locals):
                    sset = True
                elif reporting_call(n, v):
                    seen[0] = True
                    sset = True
                else:
                    sset = False
        return (mism, true_locals, sset)
    visited, parent = explore(cfg, (False, frozenset(), False), transfer)
    return seen[0], cfg, visited, parent


def _mismatch_surprised(r, ga, cg=None):
    """A surprise share whose checkstring != self._checkstring always leads to self.surprised = True."""
    seen, cfg, visited, parent = _mismatch_monitor(ga, cg, False)
    r.count(len(visited))
    r.site(ga, None, "different checkstring => surprised")
    if not seen:
        r.violation(ga, ga.loc(), "_got_write_answer no longer compares a surprise share's whole checkstring with "
                    "self._checkstring: shares of another version written behind our back go unnoticed")
        return
    for (nid, st) in sorted(visited, key=lambda x: (x[0], x[1][0], sorted(x[1][1]), x[1][2])):
        if cfg.nodes[nid].kind == "exit" and st[0] and not st[2]:
            w = witness(cfg, parent, (nid, st))
            r.violation(ga, ga.loc(), "a surprise share with a different checkstring can be passed over without "
                        "self.surprised = True (path: %s)" % w.brief(), w)
            break


def _surprised_discipline(r, idx, cg, pub):
    starters = {idx.func(PUB + ".publish").qual: idx.func(PUB + ".publish"),
                idx.func(PUB + ".update").qual: idx.func(PUB + ".update")}
    n_s = 0
    for (f, nd) in cg.attr_stores("surprised"):
        if f.cls is not pub or attr_path(nd) != "self.surprised":
            continue
        n_s += 1
        node = [n for n in f.cfg().nodes if n.kind == "stmt" and "self.surprised" in node_stores(n)
                and any(x is nd for x in ast.walk(n.ast))]
        v = assign_value(node[0], "self.surprised") if node else None
        r.site(f, nd, "surprised store")
        if isinstance(v, ast.Constant) and v.value is True:
            continue
        r.require(f.qual in starters, f, f.loc(nd), "%s stores %s into self.surprised: an observed surprise can be forgotten" % (
            short(f), src(f, v) if v is not None else "?"))
    if n_s < 4:
        raise AnchorVanished("stores of self.surprised vanished (%d found)" % n_s)
    for f in starters.values():
        cfg = f.cfg()
        clr = stores("self.surprised")
        if not cfg.find(clr):
            raise AnchorVanished("%s no longer initialises self.surprised" % short(f))
        for (s, w) in find_path_from_to_avoiding(cfg, has_call("_push"), lambda n: False, ends=lambda n: clr(n)):
            r.violation(f, f.loc(s.ast), "%s clears self.surprised after _push has started the writes" % short(f), w)
        for (n, w) in find_path_avoiding(cfg, has_call("_push"), gate_node=clr):
            r.violation(f, f.loc(n.ast), "%s starts _push without initialising self.surprised" % short(f), w)


def _answer_chain(r, idx, fn):
    cfg = fn.cfg()
    dvars = []
    for n in cfg.nodes:
        if n.kind == "stmt" and isinstance(n.ast, ast.Assign) and isinstance(n.ast.value, ast.Call) \
                and call_tail(n.ast.value) == "finish_publishing" and len(n.ast.targets) == 1 \
                and isinstance(n.ast.targets[0], ast.Name) and isinstance(n.ast.value.func, ast.Attribute) \
                and isinstance(n.ast.value.func.value, ast.Name) and n.ast.value.func.value.id != "self":
            dvars.append((n, n.ast.targets[0].id, n.ast.value.func.value.id))
    if not dvars:
        raise AnchorVanished("no 'd = <writer>.finish_publishing()' in %s" % short(fn))
    for (dn, dv, wv) in dvars:
        r.site(fn, dn.ast, "writer Deferred %s" % dv)
        intact, done = True, False
        for reg in registrations(fn, dv):
            if reg.kind == "eb":
                continue
            name = attr_path(reg.target) if isinstance(reg.target, (ast.Attribute, ast.Name)) else ""
            if name == "self._got_write_answer":
                a = _reg_args(reg, "ok")
                r.require(intact, fn, fn.loc(reg.call), "the server's answer is replaced by an earlier callback before it "
                          "reaches _got_write_answer")
                r.require(bool(a) and isinstance(a[0], ast.Name) and a[0].id == wv, fn, fn.loc(reg.call),
                          "_got_write_answer is registered for %s, not for the writer %s whose Deferred this is" % (
                              src(fn, a[0]) if a else "no writer", wv))
                done = True
                break
            if not _is_pass_through(idx, fn, reg.target):
                intact = False
        r.require(done, fn, fn.loc(dn.ast), "_got_write_answer is not registered as a callback on the writer Deferred %s: "
                  "rejected writes and surprise shares are never examined" % dv)


def _returns_remote(r, idx, fn, depth):
    cfg = fn.cfg()
    fnorm = FlowNorm(fn)
    rets = cfg.find(is_return)
    if not rets:
        raise AnchorVanished("%s returns nothing" % short(fn))
    if depth == 0:
        r.site(fn, None, "proxy result")
    for (n, w) in find_path_avoiding(cfg, lambda n: n.kind == "exit", gate_node=is_return):
        r.violation(fn, fn.loc(), "%s can fall off its end and return None instead of the write's Deferred" % short(fn), w)
    for n in rets:
        v = n.ast.value
        rv = fnorm.resolve(n, v) if v is not None else None
        if isinstance(rv, ast.Call) and call_tail(rv) == REMOTE:
            if isinstance(v, ast.Name):
                for reg in registrations(fn, v.id):
                    for t in [reg.target] + ([reg.errtarget] if reg.kind == "pair" and reg.errtarget is not None else []):
                        r.require(_is_pass_through(idx, fn, t), fn, fn.loc(reg.call),
                                  "%s: callback %s on the write Deferred does not return its argument, so the publisher "
                                  "never sees the server's (wrote, read_data) answer" % (short(fn), src(fn, t)))
            continue
        if isinstance(rv, ast.Call) and call_name(rv).startswith("self.") and depth < 2 and fn.cls is not None:
            g = fn.cls.lookup(call_tail(rv))
            if g is not None:
                _returns_remote(r, idx, g, depth + 1)
                continue
        r.violation(fn, fn.loc(n.ast), "%s returns %s, not the Deferred of %s" % (short(fn), src(fn, v), REMOTE))


def _failure_mapping(r, fl):
    cfg = fl.cfg()
    fnorm = FlowNorm(fl)
    ERRS = ("NotEnoughServersError", "UncoordinatedWriteError")

    def delivers(n):
        for c in node_calls(n):
            if call_tail(c) == "eventually" and c.args and attr_path(c.args[0]) in (
                    "self.done_deferred.callback", "self.done_deferred.errback"):
                return c.args[1] if len(c.args) > 1 else None
            if call_name(c) in ("self.done_deferred.callback", "self.done_deferred.errback"):
                return c.args[0] if c.args else None
        return None
    dl = [n for n in cfg.nodes if n.kind == "stmt" and delivers(n) is not None]
    if not dl:
        raise AnchorVanished("_failure no longer delivers to done_deferred")

    def classify(v, env):
        if isinstance(v, ast.Name):
            return env.get(v.id)
        if isinstance(v, ast.Call) and call_tail(v) in ERRS:
            return call_tail(v)
        if isinstance(v, ast.Call) and call_tail(v) == "Failure" and v.args:
            return classify(v.args[0], env) or "?"
        return None

    def transfer(n, lab, nxt, st):
        sur, envt, delivered = st
        f = fnorm.edge_fact(n, lab)
        if f and f[1] == "self.surprised" and f[2] is None:
            sur = "T" if f[0] == "truth" else "F"
        if n.kind == "stmt" and isinstance(n.ast, ast.Assign) and len(n.ast.targets) == 1 \
                and isinstance(n.ast.targets[0], ast.Name):
            env = dict(envt)
            c = classify(n.ast.value, env)
            if c is not None:
                env[n.ast.targets[0].id] = c
            else:
                env.pop(n.ast.targets[0].id, None)
            envt = tuple(sorted(env.items()))
        if n.kind == "stmt":
            a = delivers(n)
            if a is not None:
                delivered = classify(a, dict(envt)) or "?"
        return (sur, envt, delivered)
    visited, parent = explore(cfg, (None, (), None), transfer)
    r.count(len(visited))
    r.site(fl, dl[0].ast, "error class by surprised")
    want = {"T": "UncoordinatedWriteError", "F": "NotEnoughServersError"}
    seen = set()
    for (nid, st) in sorted(visited, key=lambda x: (x[0], str(x[1]))):
        if cfg.nodes[nid].kind != "exit":
            continue
        sur, _env, delivered = st
        w = witness(cfg, parent, (nid, st))
        if delivered is None:
            r.violation(fl, fl.loc(), "_failure can return without delivering an error to done_deferred (path: %s)" % w.brief(), w)
        elif sur is None:
            r.violation(fl, fl.loc(), "_failure picks the error without looking at self.surprised (path: %s)" % w.brief(), w)
        elif delivered != want[sur] and (sur, delivered) not in seen:
            seen.add((sur, delivered))
            r.violation(fl, fl.loc(), "_failure delivers %s when self.surprised is %s (expected %s)" % (
                delivered, {"T": "true", "F": "false"}[sur], want[sur]), w)


def _retry_discipline(r, idx):
    mr = idx.func(MFV + "._modify_and_retry")
    rt = mr.nested.get("_retry")
    if rt is None:
        raise AnchorVanished("_modify_and_retry._retry")
    fparam = first_positional_params(rt)[0]
    # (a) trap before any retry action
    cfg = rt.cfg()

    def traps(n):
        for c in calls_at(n, "trap"):
            if call_name(c) == fparam + ".trap" and len(c.args) == 1 and isinstance(c.args[0], ast.Name) \
                    and c.args[0].id == "UncoordinatedWriteError" and not c.keywords:
                return True
        return False
    acts = has_call(("maybeDeferred", "backoffer", "_modify_and_retry", "_modify_once"), into_lambda=True)
    if not cfg.find(acts):
        raise AnchorVanished("_retry no longer backs off / retries")
    r.site(rt, None, "trap before retry")
    r.count(len(cfg.nodes))
    for (n, w) in find_path_avoiding(cfg, acts, gate_node=traps, kill=stores(fparam)):
        r.violation(rt, rt.loc(n.ast), "_retry backs off and retries without %s.trap(UncoordinatedWriteError): errors other "
                    "than an uncoordinated write are retried too (path: %s)" % (fparam, w.brief()), w)
    # (b) the retry passes first_time=False
    recs = [c for c in calls_in_func(rt, "_modify_and_retry", into_lambda=True)]
    if not recs:
        raise AnchorVanished("_retry no longer re-runs _modify_and_retry")
    ps = first_positional_params(mr)
    for c in recs:
        r.site(rt, c, "retry call")
        ft = arg(c, 2, ps[2] if len(ps) > 2 else None)
        r.require(isinstance(ft, ast.Constant) and ft.value is False, rt, rt.loc(c),
                  "the retry is started with first_time=%s; it must be False so that the servermap is rebuilt in "
                  "MODE_CHECK and an unchanged result is still republished" % (src(rt, ft) if ft is not None else "?"))
        a01 = [a.id if isinstance(a, ast.Name) else None for a in c.args[:2]]
        r.require(a01 == ps[:2], rt, rt.loc(c), "the retry changes modifier/backoffer: %s" % src(rt, c))
    # (c) chain in _modify_and_retry: survey -> _modify_once -> errback _retry
    regs = registrations(mr)
    once = [i for i, x in enumerate(regs) if x.kind in ("cb",) and _calls_inside(idx, mr, x.target, "_modify_once")]
    retry = [i for i, x in enumerate(regs) if (x.kind == "eb" and isinstance(x.target, ast.Name) and x.target.id == "_retry")
             or (x.kind == "pair" and isinstance(x.errtarget, ast.Name) and x.errtarget.id == "_retry")]
    r.site(mr, None, "chain " + " ".join(map(repr, regs)))
    r.require(bool(once), mr, mr.loc(), "_modify_once is not chained after the servermap update")
    r.require(bool(retry), mr, mr.loc(), "_retry is not registered as an errback: an UncoordinatedWriteError is not retried")
    if once and retry:
        r.require(once[0] < retry[0] and regs[once[0]].recv == regs[retry[0]].recv, mr, mr.loc(regs[retry[0]].call),
                  "_retry is registered before _modify_once (or on another Deferred): a publish collision never reaches it")
        dv = regs[once[0]].recv
        cfgm = mr.cfg()
        rd = C.reaching_defs(cfgm)
        node = [n for n in cfgm.nodes if any(c is regs[once[0]].call for c in node_calls(n))]
        if not node or not dv:
            raise AnalysisError("_modify_and_retry: registration node not found")
        defs = rd.get(node[0].id, {}).get(dv, frozenset())
        r.require(bool(defs), mr, mr.loc(), "Deferred %s has no definition" % dv)
        for did in defs:
            dnode = cfgm.nodes[did] if did >= 0 else None
            v = assign_value(dnode, dv) if dnode is not None else None
            ok = isinstance(v, ast.Call) and call_name(v) == "self._update_servermap"
            r.require(ok, mr, mr.loc(dnode.ast) if dnode is not None else mr.loc(),
                      "an attempt starts from %s instead of a fresh servermap update: the retry would reuse the survey "
                      "that just collided" % (src(mr, v) if v is not None else "a parameter"))
        # first_time decides the mode: the non-first attempt must not be MODE_WRITE-by-default only if first_time
        # (value-level; not decided)
    # (d) _modify_once applies the modifier to the downloaded contents
    mo = idx.func(MFV + "._modify_once")
    ap = mo.nested.get("_apply")
    if ap is None:
        raise AnchorVanished("_modify_once._apply")
    r.site(mo, None, "modifier input")
    regs = registrations(mo)
    apply_regs = [x for x in regs if x.kind == "cb" and isinstance(x.target, ast.Name) and x.target.id == "_apply"]
    r.require(bool(apply_regs), mo, mo.loc(), "_apply is not a callback of the download")
    if apply_regs:
        dv = apply_regs[0].recv
        defs = [n.value for n in func_own_nodes(mo) if isinstance(n, ast.Assign) and any(attr_path(t) == dv for t in n.targets)]
        ok = bool(defs) and all(isinstance(v, ast.Call) and call_name(v) in ("self._try_to_download_data", "self._read")
                                for v in defs)
        r.require(ok, mo, mo.loc(), "_apply is fed by %s, not by a download of this version" % (
            ", ".join(src(mo, v) for v in defs) or "nothing"))
    p0 = first_positional_params(ap)[0]
    mcalls = [c for c in calls_in_func(ap, "modifier")]
    r.require(bool(mcalls), ap, ap.loc(), "_apply no longer calls the modifier")
    for c in mcalls:
        r.require(bool(c.args) and isinstance(c.args[0], ast.Name) and c.args[0].id == p0, ap, ap.loc(c),
                  "the modifier is applied to %s, not to the contents just downloaded" % (src(ap, c.args[0]) if c.args else "nothing"))


def _calls_inside(idx, fn, target, tail):
    info = _callable_info(idx, fn, target)
    if info is None:
        return False
    return bool(calls_in_func(info[0], tail, into_lambda=True))


def _server_side(r, idx):
    fn = idx.func(SRV + "." + REMOTE)
    cfg = fn.cfg()
    fnorm = FlowNorm(fn)
    ps = first_positional_params(fn)
    if len(ps) < 3:
        raise AnchorVanished("StorageServer.%s signature" % REMOTE)
    twp = ps[2]
    wn = [(n, c) for n in cfg.nodes for c in calls_at(n, "_evaluate_write_vectors")]
    if not wn:
        raise AnchorVanished("no _evaluate_write_vectors call in StorageServer.%s" % REMOTE)
    # the verdict is identified by its defining call (not by a normal-form string): an expression is "the verdict"
    # when, after stripping not / bool() and following local copies, it is that very call node
    ev_calls = [(n, c) for n in cfg.nodes for c in calls_at(n, "_evaluate_test_vectors")]
    if not ev_calls:
        raise AnchorVanished("no _evaluate_test_vectors call in StorageServer.%s" % REMOTE)

    def verdict_of(n, e, pol, accept):
        """(True, polarity) when `e` evaluated at node n is one of the `accept`ed verdict calls (possibly negated)."""
        for _ in range(8):
            if isinstance(e, ast.UnaryOp) and isinstance(e.op, ast.Not):
                e, pol = e.operand, not pol
            elif isinstance(e, ast.Call) and isinstance(e.func, ast.Name) and e.func.id == "bool" and len(e.args) == 1 \
                    and not e.keywords:
                e = e.args[0]
            elif isinstance(e, ast.Name):
                d = fnorm.env_at(n).defs.get(e.id)
                if d is None:
                    return (False, pol)
                e = d
            else:
                break
        return (any(e is c for c in accept), pol)

    def verdict_edge(accept, want_true):
        def gate(n, lab):
            if n.kind != "test" or not isinstance(lab, tuple):
                return False
            hit, pol = verdict_of(n, n.ast, lab[0] == "T", accept)
            return hit and pol == want_true
        return gate
    all_accept = []
    for (n, c) in wn:
        r.site(fn, c, "write vectors")
        a_tw = arg(c, 2, "test_and_write_vectors")
        a_sh = arg(c, 3, "shares")
        r.require(a_tw is not None and fnorm.norm(n, a_tw) == twp, fn, fn.loc(c), "write vectors come from %s" % (
            src(fn, a_tw) if a_tw is not None else "?"))
        sh = fnorm.norm(n, a_sh) if a_sh is not None else "?"
        accept = [vc for (vn, vc) in ev_calls if len(vc.args) == 2 and not vc.keywords and call_name(vc).startswith("self.")
                  and fnorm.norm(vn, vc.args[0]) == twp and fnorm.norm(vn, vc.args[1]) == sh]
        all_accept += accept
        r.count(len(cfg.nodes))
        for (t, w) in find_path_avoiding(cfg, lambda x, _n=n: x is _n, gate_edge=verdict_edge(accept, True)):
            r.violation(fn, fn.loc(c), "write vectors are applied without the test vectors over the same shares having "
                        "passed (expected a true test of self._evaluate_test_vectors(%s, %s)) (path: %s)" % (twp, sh, w.brief()), w)
    rets = cfg.find(is_return)
    r.site(fn, rets[0].ast if rets else None, "verdict returned")
    for n in rets:
        v = fnorm.resolve(n, n.ast.value) if n.ast.value is not None else None
        ok = isinstance(v, ast.Tuple) and len(v.elts) == 2
        if ok:
            v0 = v.elts[0]
            hit, pol = verdict_of(n, v0, True, all_accept)
            if hit:
                ok = pol
            elif isinstance(v0, ast.Constant) and isinstance(v0.value, bool):
                # a constant is the verdict where the verdict has been observed to have that value on every path
                ok = not find_path_avoiding(cfg, lambda x, _n=n: x is _n, gate_edge=verdict_edge(all_accept, v0.value))
            else:
                ok = False
        r.require(ok, fn, fn.loc(n.ast), "returns %s: the first element must be the test-vector verdict" % src(fn, n.ast.value))
    # _evaluate_test_vectors
    ev = idx.func(SRV + "._evaluate_test_vectors")
    cfg = ev.cfg()
    fnorm = FlowNorm(ev)
    r.site(ev, None, "failing vector => False")
    fails = []
    for n in cfg.nodes:
        for (d, lab) in cfg.succ[n.id]:
            f = fnorm.edge_fact(n, lab)
            if f and f[0] == "false" and f[2] is None and re.search(r"\.check_testv\(", f[1]):
                fails.append((n, lab, cfg.nodes[d]))
    if len(fails) < 2:
        raise AnchorVanished("_evaluate_test_vectors no longer branches on check_testv for existing and empty shares")
    # test vectors are evaluated against something other than the stored share only when the share is absent
    eps = first_positional_params(ev)
    if len(eps) < 2:
        raise AnchorVanished("_evaluate_test_vectors(test_and_write_vectors, shares) signature changed")
    twv, shp = eps[0], eps[1]
    for n in cfg.nodes:
        for c in calls_at(n, "check_testv"):
            recv = c.func.value if isinstance(c.func, ast.Attribute) else None
            tv = fnorm.norm(n, c.args[0]) if c.args else "?"
            m = re.match(r"^" + re.escape(twv) + r"\[(\w+)\]\[0\]$", tv)
            if not m:
                r.violation(ev, ev.loc(c), "check_testv is given %s, not the test vector of one share of the request" % tv)
                continue
            key = m.group(1)
            if isinstance(recv, ast.Subscript) and fnorm.norm(n, recv.value) == shp:
                r.require(fnorm.norm(n, recv.slice) == key, ev, ev.loc(c), "the test vector of share %s is evaluated against "
                          "share %s" % (key, fnorm.norm(n, recv.slice)))
                continue
            rr0 = fnorm.resolve(n, recv) if recv is not None else None
            if isinstance(rr0, ast.BoolOp) and isinstance(rr0.op, ast.Or):
                rr0 = rr0.values[0]
            if isinstance(rr0, ast.Call) and call_tail(rr0) == "get" and isinstance(rr0.func, ast.Attribute) \
                    and fnorm.norm(n, rr0.func.value) == shp and rr0.args and fnorm.norm(n, rr0.args[0]) == key:
                continue      # shares.get(sharenum, <stand-in>): the stand-in is used only for an absent share
            absent = _fact_gate(fnorm, lambda op, l, rr, _k=key: op == "not in" and l == _k and rr == shp)
            for (t, w) in find_path_avoiding(cfg, lambda x, _n=n: x is _n, gate_edge=absent, kill=stores(key)):
                r.violation(ev, ev.loc(c), "the test vector of share %s is evaluated against %s although the share may exist: "
                            "a 'must not exist' vector passes and the existing share is overwritten (path: %s)" % (
                                key, src(ev, recv) if recv is not None else "?", w.brief()), w)
    for (n, lab, d) in fails:
        visited, parent = explore(cfg, 0, lambda a, b, c, s: None if (is_return(a) or b == "exc") else 0, start=d)
        r.count(len(visited))
        for (nid, _s) in sorted(visited):
            nd = cfg.nodes[nid]
            bad = (nd.kind in ("iter", "exit")) or (is_return(nd) and not returns_const(False)(nd))
            if bad:
                r.violation(ev, ev.loc(n.ast), "after a failing test vector _evaluate_test_vectors can go on (%r) instead "
                            "of returning False" % nd, witness(cfg, parent, (nid, 0)))
                break
    # the accepting return is only the fall-through after the loop
    for n in cfg.find(is_return):
        v = n.ast.value
        r.require(isinstance(v, ast.Constant) and isinstance(v.value, bool), ev, ev.loc(n.ast),
                  "_evaluate_test_vectors returns %s" % src(ev, v))


# ------------------------------------------------------- gap-review additions
_COMPS = (ast.ListComp, ast.SetComp, ast.GeneratorExp, ast.DictComp)
_WRAPPERS = ("set", "list", "frozenset", "tuple", "sorted")


def _target_names(t):
    return {x.id for x in ast.walk(t) if isinstance(x, ast.Name)}


def _local_loads(n, local_names):
    """Loads of function locals evaluated at CFG node `n` (comprehension variables shadow; lambda bodies and nested
    function bodies are not evaluated here)."""
    out = []

    def walk(e, bound):
        if isinstance(e, (ast.Lambda, ast.FunctionDef, ast.AsyncFunctionDef, ast.ClassDef)):
            return
        if isinstance(e, _COMPS):
            b = set(bound)
            for g in e.generators:
                walk(g.iter, b)
                b |= _target_names(g.target)
                for c in g.ifs:
                    walk(c, b)
            for part in ([e.key, e.value] if isinstance(e, ast.DictComp) else [e.elt]):
                walk(part, b)
            return
        if isinstance(e, ast.Name):
            if isinstance(e.ctx, ast.Load) and e.id in local_names and e.id not in bound:
                out.append(e)
            return
        if isinstance(e, ast.AugAssign) and isinstance(e.target, ast.Name) and e.target.id in local_names:
            out.append(e.target)
        for c in ast.iter_child_nodes(e):
            walk(c, bound)
    for e in node_exprs(n):
        walk(e, frozenset())
    return out


class _Unknown:
    """'set' of every name that is not in `known` (for _local_loads)."""
    def __init__(self, known):
        self.known = known

    def __contains__(self, name):
        return name not in self.known


def _module_level_names(mod):
    """Names bound in the module's global scope (function and class bodies are other scopes) and whether a star import
    makes the set open."""
    names, star = set(), [False]

    def walk(x):
        if isinstance(x, (ast.FunctionDef, ast.AsyncFunctionDef, ast.ClassDef)):
            names.add(x.name)
            for d in x.decorator_list:
                walk(d)
            return
        if isinstance(x, ast.Lambda) or isinstance(x, _COMPS):
            return
        if isinstance(x, ast.Name) and isinstance(x.ctx, ast.Store):
            names.add(x.id)
        elif isinstance(x, (ast.Import, ast.ImportFrom)):
            for al in x.names:
                if al.name == "*":
                    star[0] = True
                else:
                    names.add((al.asname or al.name).split(".")[0])
        elif isinstance(x, ast.ExceptHandler) and x.name:
            names.add(x.name)
        for c in ast.iter_child_nodes(x):
            walk(c)
    for st in mod.tree.body:
        walk(st)
    # names that functions publish with a `global` statement
    for x in ast.walk(mod.tree):
        if isinstance(x, ast.Global):
            names.update(x.names)
    return names, star[0]


def _bound_before_marking(r, ga):
    cfg = ga.cfg()
    r.site(ga, None, "locals bound before use")

    def marks(n):
        if n.kind != "stmt" or "self.surprised" not in node_stores(n):
            return False
        v = assign_value(n, "self.surprised")
        return isinstance(v, ast.Constant) and v.value is True
    mk = [n for n in cfg.nodes if marks(n)]
    if not mk:
        raise AnchorVanished("_got_write_answer no longer sets self.surprised = True")
    # nodes from which a marking is still ahead (normal edges)
    ahead = {n.id for n in mk}
    work = list(ahead)
    while work:
        x = work.pop()
        for (p, lab) in cfg.pred[x]:
            if lab != "exc" and p not in ahead:
                ahead.add(p)
                work.append(p)
    local_names = set()
    for n in cfg.nodes:
        local_names |= {s for s in node_stores(n) if "." not in s and not s.endswith("[]")}
    local_names -= set(ga.params)
    known, star = _module_level_names(ga.module)
    known |= set(dir(builtins)) | set(ga.params)
    p = ga.parent
    while p is not None:
        known |= set(p.params) | {x.id for x in func_own_nodes(p) if isinstance(x, ast.Name) and isinstance(x.ctx, ast.Store)} \
            | set(p.nested)
        p = p.parent
    loads = {}
    for n in cfg.nodes:
        if n.id in ahead and n.kind not in ("entry", "exit", "raise"):
            for nm in _local_loads(n, local_names):
                loads.setdefault(nm.id, []).append((n, nm))
            if not star:
                for nm in _local_loads(n, _Unknown(known | local_names)):
                    r.violation(ga, ga.loc(nm), "_got_write_answer reads the name '%s', which is bound nowhere: the NameError "
                                "ends the answer handler before self.surprised = True, finish_publishing's DeferredList "
                                "swallows it and the publish reports success" % nm.id)
    for name in sorted(loads):
        def transfer(n, lab, nxt, st, _nm=name):
            if lab != "exc" and _nm in node_stores(n):
                if n.kind == "iter":
                    return True if lab == "iter" else st
                return not isinstance(n.ast, ast.Delete)
            return st
        visited, parent = explore(cfg, False, transfer)
        r.count(len(visited))
        for (n, nm) in loads[name]:
            if (n.id, False) in visited:
                w = witness(cfg, parent, (n.id, False))
                r.violation(ga, ga.loc(nm), "_got_write_answer can read the local '%s' before it is bound: the NameError ends "
                            "the answer handler before self.surprised = True, finish_publishing's DeferredList swallows it "
                            "and the publish reports success (path: %s)" % (name, w.brief()), w)
                break


def _unwrap(e):
    while isinstance(e, ast.Call) and isinstance(e.func, ast.Name) and e.func.id in _WRAPPERS and len(e.args) == 1 \
            and not e.keywords:
        e = e.args[0]
    return e


def _surprise_scan_helper(idx, ga, fnorm, ans, wr):
    """The surprise-share scan moved into an own method: (helper, its read_data parameter, its writer parameter) for
    the one call `self.h(.., writer, answer[1], ..)` of a method that compares something with self._checkstring."""
    cg = get_callgraph(idx)
    out = []
    for n in ga.cfg().nodes:
        for c in node_calls(n):
            h = _helper_of(cg, ga, c)
            if h is None or h[0] is ga or h[0].cls is None or h[0].cls is not ga.cls:
                continue
            g, bound, given = h
            if not any(isinstance(x, ast.Attribute) and attr_path(x) == "self._checkstring" for x in func_own_nodes(g)):
                continue
            gdefs = all_defs(g)
            p_rd = [p for p in given if p not in gdefs and fnorm.norm(n, bound[p]) == ans + "[1]"]
            p_wr = [p for p in given if p not in gdefs and fnorm.norm(n, bound[p]) == wr]
            if len(p_rd) != 1 or len(p_wr) != 1:
                raise AnalysisError("%s compares with self._checkstring but is not handed the writer and the server's "
                                    "read data (%s[1]) as plain arguments" % (short(g), ans))
            out.append((g, p_rd[0], p_wr[0]))
    return out


def _surprise_set(r, idx, ga0):
    ps = first_positional_params(ga0)
    if len(ps) < 2:
        raise AnchorVanished("_got_write_answer(answer, writer, ..) signature changed")
    ans, wr = ps[0], ps[1]
    ga, rdx = ga0, ans + "[1]"
    cfg = ga.cfg()
    fnorm = FlowNorm(ga)

    def comparisons(fn, cfg, fnorm):
        cmps = []
        for n in cfg.nodes:
            for (d, lab) in cfg.succ[n.id]:
                f = fnorm.edge_fact(n, lab)
                if f and f[0] == "!=" and "self._checkstring" in (f[1], f[2]):
                    cmps.append((n, f[2] if f[1] == "self._checkstring" else f[1], None))
            if n.kind in ("stmt", "test") and n.ast is not None:
                for e in own_nodes(n.ast):
                    if _mismatch_indicator(e):
                        comp = e.args[0]
                        c = comp.elt.operand if isinstance(comp.elt, ast.UnaryOp) else comp.elt
                        other = c.comparators[0] if attr_path(c.left) == "self._checkstring" else c.left
                        cmps.append((n, fnorm.norm(n, other), comp))
        return cmps
    cmps = comparisons(ga, cfg, fnorm)
    if not cmps:
        hs = _surprise_scan_helper(idx, ga0, fnorm, ans, wr)
        if len(hs) == 1:
            ga, rdx, wr = hs[0]
            cfg = ga.cfg()
            fnorm = FlowNorm(ga)
            cmps = comparisons(ga, cfg, fnorm)
    if not cmps:
        raise AnchorVanished("_got_write_answer no longer compares anything with self._checkstring")
    here = wr + ".server"
    mine = wr + ".shnum"
    rd = C.reaching_defs(cfg)
    pat = re.compile(r"^" + re.escape(rdx) + r"\[(\w+)\]\[(\d+)\]$")
    indices, sets_seen = set(), set()
    for (n, other, comp) in cmps:
        r.site(ga, n.ast, "compared checkstring")
        m = pat.match(other)
        if not m:
            r.violation(ga, ga.loc(n.ast), "self._checkstring is compared with %s, not with what the server read from the "
                        "surprise share (%s[<shnum>][<i>]): a share of another version is not recognised (or the "
                        "comparison raises and the answer is dropped)" % (other, rdx))
            continue
        lv, i = m.group(1), int(m.group(2))
        indices.add(i)
        if comp is not None:
            # any(rd[shnum][i] != self._checkstring for shnum in S): every member of S is compared
            gens = comp.generators
            it = _unwrap(gens[0].iter) if len(gens) == 1 and not gens[0].ifs and isinstance(gens[0].target, ast.Name) \
                and gens[0].target.id == lv else None
            if not isinstance(it, ast.Name):
                r.violation(ga, ga.loc(n.ast), "the share number %s whose checkstring is compared is not the (unfiltered) loop "
                            "variable over the surprise set" % lv)
                continue
            sets_seen.add(it.id)
            continue
        defs = rd.get(n.id, {}).get(lv, frozenset())
        r.require(bool(defs), ga, ga.loc(n.ast), "share number %s of the comparison is never bound" % lv)
        for did in sorted(defs):
            dn = cfg.nodes[did] if did >= 0 else None
            it = _unwrap(dn.ast.iter) if dn is not None and dn.kind == "iter" and isinstance(dn.ast.target, ast.Name) else None
            if not isinstance(it, ast.Name):
                r.violation(ga, ga.loc(n.ast), "the share number %s whose checkstring is compared is not the loop variable "
                            "over the surprise set" % lv)
                continue
            sets_seen.add(it.id)
    for S in sorted(sets_seen):
        r.site(ga, None, "surprise set %s" % S)
        _surprise_set_defs(r, ga, cfg, fnorm, S, rdx, here, mine)
    if not sets_seen and not any(True for _ in r.violations):
        raise AnchorVanished("surprise set of _got_write_answer not found")
    # both proxies ask the server to read index i
    if indices:
        need = max(indices)
        lay = idx.module("allmydata.mutable.layout")
        n_sites = 0
        for (f, nd, _recv, kind) in _sweep(idx, REMOTE):
            if kind != "call" or f.module is not lay or f.cls is None:
                continue
            n_sites += 1
            r.site(f, nd, "read vector")
            rv = arg(nd, 3, "r_vector")
            tn = f.cfg().find(lambda x, _c=nd: any(c is _c for c in node_calls(x)))
            p = FlowNorm(f).norm(tn[0], rv) if (rv is not None and tn) else None
            if not p or not re.match(r"^self\.\w+$", p):
                r.violation(f, f.loc(nd), "%s sends the read vector %s: cannot establish that it reads the checkstring" % (
                    short(f), p))
                continue
            vals = [s.value for g in _class_funcs(f.cls) for s in func_own_nodes(g) if isinstance(s, ast.Assign)
                    and any(attr_path(t) == p for t in s.targets)]
            r.require(bool(vals), f, f.loc(nd), "%s is never set in %s" % (p, f.cls.name))
            for v in vals:
                r.require(isinstance(v, (ast.List, ast.Tuple)) and len(v.elts) > need, f, f.loc(v),
                          "%s = %s has no entry %d: _got_write_answer's read_data[shnum][%d] raises for every surprise "
                          "share and the answer is dropped" % (p, src(f, v), need, need))
        if n_sites < 2:
            raise AnchorVanished("expected the SDMF and MDMF write proxies to call %s" % REMOTE)


def _surprise_set_defs(r, ga, cfg, fnorm, S, rdx, here, mine):
    bases = {norm_src(t % rdx) for t in ("set(%s.keys())", "set(%s)", "%s.keys()", "frozenset(%s.keys())",
                                         "frozenset(%s)", "set(list(%s.keys()))", "list(%s.keys())", "list(%s)")}

    def split(v):
        if isinstance(v, ast.BinOp) and isinstance(v.op, ast.Sub):
            b, rem = split(v.left)
            return b, rem + [v.right]
        if isinstance(v, ast.Call) and isinstance(v.func, ast.Attribute) and v.func.attr == "difference" and not v.keywords:
            b, rem = split(v.func.value)
            return b, rem + list(v.args)
        return v, []

    def tied(n, cond):
        f = fnorm.at(n).cmp(cond, True)
        return bool(f) and f[0] == "==" and here in (f[1], f[2])

    def gated_here(n):
        g = _fact_gate(fnorm, lambda op, l, rr: op == "==" and here in (l, rr))
        return not find_path_avoiding(cfg, lambda x, _n=n: x is _n, gate_edge=g)

    def removal_ok(n, e, seen):
        e = _unwrap(e)
        if isinstance(e, (ast.List, ast.Tuple, ast.Set)):
            return all(fnorm.norm(n, x) == mine for x in e.elts)
        if isinstance(e, ast.Call) and isinstance(e.func, ast.Name) and e.func.id in _WRAPPERS and not e.args:
            return True
        if isinstance(e, _COMPS):
            return any(tied(n, c) for g in e.generators for c in g.ifs)
        if isinstance(e, ast.Subscript):
            return fnorm.norm(n, e.slice) == here
        if isinstance(e, ast.Call) and call_tail(e) in ("get", "pop", "setdefault") and e.args \
                and isinstance(e.func, ast.Attribute):
            return fnorm.norm(n, e.args[0]) == here
        if isinstance(e, ast.BinOp) and isinstance(e.op, (ast.BitOr, ast.Add)):
            return removal_ok(n, e.left, seen) and removal_ok(n, e.right, seen)
        if isinstance(e, ast.Name):
            if e.id in seen or e.id in ga.params:
                return False
            seen = seen | {e.id}
            found = False
            for m in cfg.nodes:
                if m.kind in ("iter", "with", "except") and e.id in node_stores(m):
                    return False
                if m.kind != "stmt":
                    continue
                if e.id in node_stores(m):
                    found = True
                    a = m.ast
                    if isinstance(a, ast.Assign) and all(isinstance(t, ast.Name) for t in a.targets):
                        v = a.value
                        if isinstance(v, (ast.List, ast.Set, ast.Tuple)) and not v.elts:
                            continue
                        if not removal_ok(m, v, seen):
                            return False
                    elif isinstance(a, ast.AugAssign) and isinstance(a.op, (ast.BitOr, ast.Add)):
                        if not removal_ok(m, a.value, seen):
                            return False
                    else:
                        return False
                for c in node_calls(m):
                    if isinstance(c.func, ast.Attribute) and isinstance(c.func.value, ast.Name) and c.func.value.id == e.id:
                        t = c.func.attr
                        if t in ("extend", "update", "union_update"):
                            if not all(removal_ok(m, x, seen) for x in c.args):
                                return False
                        elif t in ("append", "add"):
                            if not (c.args and (fnorm.norm(m, c.args[0]) == mine or gated_here(m))):
                                return False
            return found
        return False

    def removal(n, e, where):
        r.count(1)
        r.require(removal_ok(n, e, frozenset()), ga, ga.loc(where),
                  "the share numbers %s are withheld from the surprise comparison without being tied to the answering "
                  "server (an equality with %s) or being this writer's own share: a share of another version that the "
                  "server reports can go unnoticed" % (src(ga, e), here))

    n_defs = 0
    for n in cfg.nodes:
        a = n.ast
        if n.kind in ("iter", "with", "except") and S in node_stores(n):
            r.violation(ga, ga.loc(a), "the surprise set %s is rebound by a loop/with" % S)
        if n.kind != "stmt":
            continue
        if S in node_stores(n):
            n_defs += 1
            if isinstance(a, ast.Assign) and all(isinstance(t, ast.Name) for t in a.targets):
                base, rems = split(a.value)
                if not (isinstance(base, ast.Name) and base.id == S):
                    r.require(fnorm.norm(n, base) in bases, ga, ga.loc(a), "the surprise set starts from %s, not from every "
                              "share in the server's answer (%s)" % (src(ga, base), rdx))
                for e in rems:
                    removal(n, e, a)
            elif isinstance(a, ast.AugAssign) and isinstance(a.op, ast.Sub):
                removal(n, a.value, a)
            elif isinstance(a, ast.AugAssign) and isinstance(a.op, ast.BitOr):
                pass
            else:
                r.violation(ga, ga.loc(a), "the surprise set %s is changed by %s" % (S, src(ga, a)))
        for c in node_calls(n):
            if isinstance(c.func, ast.Attribute) and isinstance(c.func.value, ast.Name) and c.func.value.id == S:
                t = c.func.attr
                if t == "difference_update":
                    for e in c.args:
                        removal(n, e, c)
                elif t in ("discard", "remove"):
                    r.require(bool(c.args) and (fnorm.norm(n, c.args[0]) == mine or gated_here(n)), ga, ga.loc(c),
                              "%s withholds a share from the surprise comparison without tying it to the answering server" % src(ga, c))
                elif t in ("clear", "pop", "intersection_update", "symmetric_difference_update"):
                    r.violation(ga, ga.loc(c), "%s drops shares from the surprise set" % src(ga, c))
    if not n_defs:
        raise AnchorVanished("surprise set %s has no definition" % S)


def _returns_only(r, fn, ok_value, what, why):
    """Every normal path through `fn` ends in a return whose value satisfies ok_value(node, value)."""
    cfg = fn.cfg()
    for (n, w) in find_path_avoiding(cfg, lambda n: n.kind == "exit", gate_node=is_return):
        r.violation(fn, fn.loc(), "%s can fall off its end and return None instead of %s: %s" % (short(fn), what, why), w)
    for n in cfg.find(is_return):
        r.require(n.ast.value is not None and ok_value(n, n.ast.value), fn, fn.loc(n.ast),
                  "%s returns %s instead of %s: %s" % (short(fn), src(fn, n.ast.value) if n.ast.value is not None else "None",
                                                        what, why))


def _answers_awaited(r, idx):
    fp = idx.func(PUB + ".finish_publishing")
    cfg = fp.cfg()
    dvars = []
    for n in cfg.nodes:
        if n.kind == "stmt" and isinstance(n.ast, ast.Assign) and isinstance(n.ast.value, ast.Call) \
                and call_tail(n.ast.value) == "finish_publishing" and len(n.ast.targets) == 1 \
                and isinstance(n.ast.targets[0], ast.Name) and call_name(n.ast.value) != "self.finish_publishing":
            dvars.append((n, n.ast.targets[0].id))
    if not dvars:
        raise AnchorVanished("no 'd = <writer>.finish_publishing()' in %s" % short(fp))
    lists = set()
    for (dn, dv) in dvars:
        r.site(fp, dn.ast, "writer Deferred collected")

        def collected(n, _dv=dv):
            for c in calls_at(n, "append"):
                if isinstance(c.func, ast.Attribute) and isinstance(c.func.value, ast.Name) and len(c.args) == 1 \
                        and isinstance(c.args[0], ast.Name) and c.args[0].id == _dv:
                    return c.func.value.id
            return None

        def transfer(n, lab, nxt, st, _dn=dn, _dv=dv):
            if lab == "exc":
                return None
            if n is not _dn and (n.kind in ("iter", "exit") or _dv in node_stores(n)):
                return None
            return st or bool(collected(n))
        visited, parent = explore(cfg, False, transfer, start=dn)
        r.count(len(visited))
        for (nid, st) in sorted(visited):
            nd = cfg.nodes[nid]
            if nd is not dn and not st and (nd.kind in ("iter", "exit") or dv in node_stores(nd)):
                w = witness(cfg, parent, (nid, st))
                r.violation(fp, fp.loc(dn.ast), "the writer Deferred %s is not added to the list finish_publishing waits for: "
                            "_push can report success before this server's answer has been examined (path: %s)" % (
                                dv, w.brief()), w)
                break
        for n in cfg.nodes:
            L = collected(n)
            if L:
                lists.add(L)
    for L in sorted(lists):
        app = lambda n, _L=L: any(isinstance(c.func, ast.Attribute) and isinstance(c.func.value, ast.Name)
                                  and c.func.value.id == _L for c in calls_at(n, "append"))
        for (s, w) in find_path_from_to_avoiding(cfg, app, lambda n: False, ends=stores(L)):
            r.violation(fp, fp.loc(s.ast), "the list %s of writer Deferreds is reset after Deferreds were added to it" % L, w)
    fnorm = FlowNorm(fp)

    def waits(n, v):
        v = fnorm.resolve(n, v)
        if not (isinstance(v, ast.Call) and call_tail(v) in ("DeferredList", "gatherResults") and v.args):
            return False
        a0 = v.args[0]
        if not (isinstance(a0, ast.Name) and a0.id in lists):
            return False
        early = kwarg(v, "fireOnOneCallback")
        if early is None and call_tail(v) == "DeferredList" and len(v.args) > 1:
            early = v.args[1]
        return early is None or (isinstance(early, ast.Constant) and not early.value)
    r.site(fp, None, "returns DeferredList of all writer Deferreds")
    _returns_only(r, fp, waits, "a DeferredList over every writer Deferred",
                  "success would be reported before all answers have been examined")
    # push_everything_else: _push only as a callback of finish_publishing()
    pe = idx.func(PUB + ".push_everything_else")
    r.site(pe, None, "_push chained after finish_publishing")
    pcfg = pe.cfg()
    pnorm = FlowNorm(pe)
    fin = [n for n in pcfg.nodes if any(call_name(c) == "self.finish_publishing" for c in node_calls(n))]
    if not fin:
        raise AnchorVanished("push_everything_else no longer calls self.finish_publishing()")
    for c in [c for t in ("_push", "_done") for c in calls_in_func(pe, t, into_lambda=True)]:
        r.violation(pe, pe.loc(c), "push_everything_else calls %s directly: success can be reported before the servers' "
                    "answers have been examined" % call_name(c))
    chained = False
    for reg in registrations(pe):
        if reg.kind in ("cb", "both") and attr_path(reg.target) == "self._push":
            dnodes = [n for n in pcfg.nodes if n.kind == "stmt" and reg.recv and reg.recv in node_stores(n)]
            ok = bool(dnodes) and all(
                isinstance(assign_value(n, reg.recv), ast.Call) and call_name(assign_value(n, reg.recv)) == "self.finish_publishing"
                for n in dnodes)
            r.require(ok, pe, pe.loc(reg.call), "_push is chained on %s, which is not the Deferred of self.finish_publishing()" % (
                reg.recv or "an anonymous Deferred"))
            chained = chained or ok
    r.require(chained, pe, pe.loc(), "push_everything_else no longer runs _push as a callback of self.finish_publishing()")


def _surprised_fails(r, push):
    cfg = push.cfg()
    fnorm = FlowNorm(push)
    seen = [False]

    def transfer(n, lab, nxt, st):
        sur, failed = st
        if lab == "exc":
            return None
        f = fnorm.edge_fact(n, lab)
        if f and f[0] == "truth" and f[1] == "self.surprised":
            seen[0] = True
            sur = True
        if any(call_name(c) == "self._failure" for c in node_calls(n)):
            failed = True
        return (sur, failed)
    visited, parent = explore(cfg, (False, False), transfer)
    r.count(len(visited))
    r.site(push, None, "surprised => _failure()")
    if not seen[0]:
        raise AnchorVanished("_push no longer tests self.surprised")
    for (nid, st) in sorted(visited):
        if cfg.nodes[nid].kind == "exit" and st[0] and not st[1]:
            w = witness(cfg, parent, (nid, st))
            r.violation(push, push.loc(), "_push can return after observing self.surprised without calling self._failure(): "
                        "the UncoordinatedWriteError is never delivered (path: %s)" % w.brief(), w)
            break


def _returned_calls(idx, fn, target, tail):
    """For the callable `target` (lambda / nested def / self.method) registered in `fn`: (callee FuncInfo, [calls of
    `tail` inside it], [those that are not the value of a return])."""
    info = _callable_info(idx, fn, target)
    if info is None:
        return None
    g = info[0]
    calls = list(calls_in_func(g, tail, into_lambda=True))
    if isinstance(target, ast.Lambda):
        body = target.body
        return g, calls, [c for c in calls if c is not body]
    cfg = g.cfg()
    fnorm = FlowNorm(g)
    ret = set()
    for n in cfg.find(is_return):
        if n.ast.value is not None:
            ret.add(id(fnorm.resolve(n, n.ast.value)))
    return g, calls, [c for c in calls if id(c) not in ret]


def _modify_chain_returns(r, idx):
    mr = idx.func(MFV + "._modify_and_retry")
    mo = idx.func(MFV + "._modify_once")
    rt = mr.nested.get("_retry")
    ap = mo.nested.get("_apply")
    if rt is None or ap is None:
        raise AnchorVanished("_modify_and_retry._retry / _modify_once._apply")
    lost = "a publish collision (UncoordinatedWriteError) is lost instead of reaching _retry / the caller"

    def is_var(dv, regs, fn):
        fnorm = FlowNorm(fn)

        def ok(n, v):
            v = _copy_root(fnorm, n, v)
            if isinstance(v, ast.Name):
                return v.id == dv
            return any(v is x.call for x in regs if x.recv == dv)
        return ok
    # (i) _apply returns the upload
    r.site(ap, None, "_apply returns the upload")
    ups = list(calls_in_func(ap, "_upload"))
    if not ups:
        raise AnchorVanished("_apply no longer calls self._upload")
    acfg, anorm = ap.cfg(), FlowNorm(ap)
    returned = {id(anorm.resolve(n, n.ast.value)) for n in acfg.find(is_return) if n.ast.value is not None}
    for c in ups:
        r.require(id(c) in returned, ap, ap.loc(c), "_apply does not return the Deferred of %s: %s" % (src(ap, c), lost))
    # (ii) _modify_once returns the Deferred _apply is chained on
    regs = registrations(mo)
    areg = [x for x in regs if x.kind in ("cb", "both") and isinstance(x.target, ast.Name) and x.target.id == "_apply"]
    r.site(mo, None, "_modify_once returns the chained Deferred")
    if areg and areg[0].recv:
        _returns_only(r, mo, is_var(areg[0].recv, regs, mo), "the Deferred that _apply is chained on", lost)
    else:
        r.violation(mo, mo.loc(), "_apply is not chained on a named Deferred in _modify_once")
    # (iii) the callbacks in _modify_and_retry return what they start
    regs = registrations(mr)
    r.site(mr, None, "callbacks return their calls")
    once = [x for x in regs if x.kind == "cb" and _calls_inside(idx, mr, x.target, "_modify_once")]
    for x in once:
        res = _returned_calls(idx, mr, x.target, "_modify_once")
        for c in (res[2] if res else []):
            r.violation(mr, mr.loc(c), "the callback that calls _modify_once does not return its Deferred: %s" % lost)
    r.site(mr, None, "_modify_and_retry returns its Deferred")
    if once and once[0].recv:
        _returns_only(r, mr, is_var(once[0].recv, regs, mr), "the Deferred the attempt is chained on", lost)
    # (iv) _retry returns the Deferred of the next attempt
    rregs = registrations(rt)
    again = [x for x in rregs if x.kind in ("cb", "both") and _calls_inside(idx, rt, x.target, "_modify_and_retry")]
    r.site(rt, None, "_retry returns the next attempt")
    if not again:
        raise AnchorVanished("_retry no longer chains the next _modify_and_retry")
    for x in again:
        res = _returned_calls(idx, rt, x.target, "_modify_and_retry")
        for c in (res[2] if res else []):
            r.violation(rt, rt.loc(c), "the callback that starts the next attempt does not return its Deferred: the caller is "
                        "told the modification is done while the retry is still running, and its outcome is lost")
    if again[0].recv:
        _returns_only(r, rt, is_var(again[0].recv, rregs, rt), "the Deferred of the next attempt",
                      "the caller is told the modification succeeded right after the collision, and the retry's outcome is lost")
    else:
        r.violation(rt, rt.loc(again[0].call), "the next attempt is chained on an anonymous Deferred")


def _nonempty_facts(names):
    empty = norm_src("b''")
    lens = {"len(%s)" % x for x in names}

    def nonempty(op, l, rr):
        if op == "truth" and l in names:
            return True
        if op == "!=" and ((l == empty and rr in names) or (rr == empty and l in names)):
            return True
        return (op in ("<", "!=") and l == "0" and rr in lens) or (op == "!=" and rr == "0" and l in lens) \
            or (op == "<=" and l == "1" and rr in lens)
    return nonempty


def _nonempty_vector_helper(r, fn, cfg, fnorm, n, h):
    """self._testvs = g(cs): every (0, len(p), p) vector g returns is built from a parameter known to be non-empty on
    that path of g, or (failing that) from an argument the caller knows to be non-empty."""
    g, bound, given = h
    gcfg, gnorm, gdefs = g.cfg(), FlowNorm(g), all_defs(g)
    for (gn, e) in _helper_list_returns(g):
        e2 = e.args[0] if isinstance(e, ast.Call) and call_name(e) == "tuple" and e.args else e
        if not (isinstance(e2, (ast.Tuple, ast.List)) and len(e2.elts) == 3 and isinstance(e2.elts[2], ast.Name)
                and norm_plain(e2.elts[1]) == "len(%s)" % e2.elts[2].id):
            continue
        p = e2.elts[2].id
        names = {p} | {d.id for d in gdefs.get(p, []) if isinstance(d, ast.Name)}
        r.count(len(gcfg.nodes))
        found = find_path_avoiding(gcfg, lambda x, _n=gn: x is _n, gate_edge=_fact_gate(gnorm, _nonempty_facts(names)),
                                   kill=stores_any(names))
        if not found:
            continue
        a = bound.get(p) if p in given and p not in gdefs else None
        if isinstance(a, ast.Name):
            cnames = {a.id} | {d.id for d in all_defs(fn).get(a.id, []) if isinstance(d, ast.Name)}

            def packed(m, _cs=a.id):
                pv = assign_value(m, _cs)
                return isinstance(pv, ast.Call) and call_name(pv) == "struct.pack" and len(pv.args) >= 2
            if not find_path_avoiding(cfg, lambda x, _n=n: x is _n, gate_edge=_fact_gate(fnorm, _nonempty_facts(cnames)),
                                      gate_node=packed, kill=stores_any(cnames)):
                continue
        (t, w) = found[0]
        r.violation(g, g.loc(e), "%s (called by %s) can return the test vector (0, len(%s), %s) for an empty %s: (0, 0, b'') is "
                    "satisfied by any share contents, so the write overwrites whatever another writer put there "
                    "(path: %s)" % (short(g), short(fn), p, p, p, w.brief()), w)


def _nonempty_vector(r, fn, cg=None):
    cfg = fn.cfg()
    fnorm = FlowNorm(fn)
    r.site(fn, None, "vector length >= 1")
    defs = all_defs(fn)
    for n in cfg.nodes:
        vecs = []
        v = assign_value(n, "self._testvs")
        if isinstance(v, ast.List):
            vecs += list(v.elts)
        elif v is not None and cg is not None:
            h = _helper_of(cg, fn, v)
            if h is not None:
                _nonempty_vector_helper(r, fn, cfg, fnorm, n, h)
        for c in calls_at(n, "append"):
            if call_name(c) == "self._testvs.append" and c.args:
                vecs.append(c.args[0])
        for e in vecs:
            e2 = e.args[0] if isinstance(e, ast.Call) and call_name(e) == "tuple" and e.args else e
            if not (isinstance(e2, (ast.Tuple, ast.List)) and len(e2.elts) == 3 and isinstance(e2.elts[2], ast.Name)
                    and norm_plain(e2.elts[1]) == "len(%s)" % e2.elts[2].id):
                continue      # other shapes are C12.1 / C12.2's business
            cs = e2.elts[2].id
            names = {cs} | {d.id for d in defs.get(cs, []) if isinstance(d, ast.Name)}
            empty = norm_src("b''")

            def nonempty(op, l, rr, _names=names):
                if op == "truth" and l in _names:
                    return True
                if op == "!=" and ((l == empty and rr in _names) or (rr == empty and l in _names)):
                    return True
                lens = {"len(%s)" % x for x in _names}
                return (op in ("<", "!=") and l == "0" and rr in lens) or (op == "!=" and rr == "0" and l in lens) \
                    or (op == "<=" and l == "1" and rr in lens)

            def packed(m, _cs=cs):
                pv = assign_value(m, _cs)
                return isinstance(pv, ast.Call) and call_name(pv) == "struct.pack" and len(pv.args) >= 2
            r.count(len(cfg.nodes))
            for (t, w) in find_path_avoiding(cfg, lambda x, _n=n: x is _n, gate_edge=_fact_gate(fnorm, nonempty),
                                             gate_node=packed, kill=stores_any(names)):
                r.violation(fn, fn.loc(e), "%s can store the test vector (0, len(%s), %s) for an empty %s: (0, 0, b'') is "
                            "satisfied by any share contents, so the write overwrites whatever another writer put there "
                            "(path: %s)" % (short(fn), cs, cs, cs, w.brief()), w)


def _writer_server_attr(r, fn, ga):
    """_got_write_answer reads <writer>.server (an AttributeError there is swallowed like any other exception, and a wrong
    server would mis-direct the surprise comparison): every writer built by publish()/update() gets .server set to the
    server whose storage server it wraps before the loop moves on."""
    wr = first_positional_params(ga)[1]
    if not any(isinstance(x, ast.Attribute) and attr_path(x) == wr + ".server" for x in func_own_nodes(ga)):
        return
    cfg = fn.cfg()
    fnorm = FlowNorm(fn)
    creators = [n for n in cfg.nodes if n.kind == "stmt" and isinstance(n.ast, ast.Assign)
                and isinstance(n.ast.value, ast.Call) and len(n.ast.value.args) >= 2
                and isinstance(n.ast.value.args[1], ast.Call) and call_tail(n.ast.value.args[1]) == "get_storage_server"
                and isinstance(n.ast.value.args[1].func, ast.Attribute)]
    if not creators:
        raise AnchorVanished("%s: writer construction not found" % short(fn))
    for cn in creators:
        r.site(fn, cn.ast, "writer.server")
        t = cn.ast.targets[0]
        if len(cn.ast.targets) != 1 or not isinstance(t, ast.Name):
            r.violation(fn, fn.loc(cn.ast), "the writer is not bound to a plain local: cannot follow its .server attribute")
            continue
        W, S = t.id, fnorm.norm(cn, cn.ast.value.args[1].func.value)

        def sets(n, _W=W, _S=S):
            if n.kind == "stmt" and (_W + ".server") in node_stores(n):
                v = assign_value(n, _W + ".server")
                return v is not None and fnorm.norm(n, v) == _S
            return False

        def transfer(n, lab, nxt, st, _cn=cn):
            if lab == "exc" or (n is not _cn and n.kind in ("iter", "exit")):
                return None
            return st or sets(n)
        visited, parent = explore(cfg, False, transfer, start=cn)
        r.count(len(visited))
        for (nid, st) in sorted(visited):
            nd = cfg.nodes[nid]
            if nd is not cn and nd.kind in ("iter", "exit") and not st:
                w = witness(cfg, parent, (nid, st))
                r.violation(fn, fn.loc(cn.ast), "the writer %s can be left without %s.server = %s: _got_write_answer reads "
                            "writer.server, so its answer handler raises (swallowed by the DeferredList) or compares the "
                            "surprise shares against another server's writers (path: %s)" % (W, W, S, w.brief()), w)
                break


# ------------------------------------------------ the test vector on its way to the share (C12.16 - C12.18)
# The write proxies hand (offset, length, specimen) triples, filed under their share number, to an IStorageServer
# adapter; from there they travel through a protocol (Foolscap: 4-tuples with an operator; HTTP: attrs objects -> CBOR
# maps -> 4-tuples rebuilt by the handler) to check_testv, which reads `length` bytes at `offset` and compares them
# with `specimen`.  A hop that drops a vector, shortens the length or the specimen, or files the vectors under another
# share makes the server test less than the publisher asked for: (0, 1, b'') ("the share must not exist") turned into
# (0, 0, b'') is satisfied by every share.  The hops build their output with comprehensions or loops; _Shape evaluates
# a function body to the *shape* of the values it builds (which element of which input lands where), so the rules
# compare shapes, not statements.
_CALLER_ROLES = {"offset": 0, "size": 1, "specimen": 2}      # the proxies' (offset, length, specimen) (C12.1 / C12.2)
_TESTV_SLOT = 0               # (testv, datav, new_length): C12.9 pins check_testv to element 0 of the per-share triple
_PASS_THROUGH = ("tuple", "list", "sorted", "dict", "iter", "reversed")


class _Loop:
    def __init__(self, uid, base, node, target):
        self.uid, self.base, self.node, self.target, self.partial = uid, base, node, target, False


class _Acc:
    """A list / dict built element by element: a comprehension, or `x = []` / `x = {}` followed by append / `x[k] = v`."""

    def __init__(self, kind, ldepth, cdepth, node):
        self.kind, self.ldepth, self.cdepth, self.node = kind, ldepth, cdepth, node
        self.entries = []          # (loops, key | None, value, conditional, node)
        self.opaque = None


def _item(base, i):
    if isinstance(base, tuple) and base and base[0] == "tuple" and isinstance(i, int) and not isinstance(i, bool) \
            and -len(base[1]) <= i < len(base[1]):
        return base[1][i]
    if isinstance(base, tuple) and base and base[0] == "dict":
        for (k, v) in base[1]:
            if k == ("const", i):
                return v
    return ("item", base, i)


def _attr(base, name):
    if isinstance(base, tuple) and base and base[0] == "obj":
        for (k, v) in base[2]:
            if k == name:
                return v
    return ("attr", base, name)


def _deep(v, pred):
    """Some part of the (frozen) value satisfies pred."""
    if pred(v):
        return True
    if isinstance(v, tuple):
        return any(_deep(x, pred) for x in v if not isinstance(x, ast.AST))
    return False


class _Shape:
    def __init__(self, idx, fn, parent=None, env=None, inline=False):
        self.idx, self.fn, self.inlining = idx, fn, inline or (parent is not None)
        self.calls = []            # (call node, tail, frozen receiver, [frozen args], {kw: frozen value})
        self.returns = []          # (return node, frozen value)
        self.raw_returns = []      # (return node, value, loop depth, condition depth)
        self.inlined = set() if parent is None else parent.inlined       # ids of call nodes replaced by the helper's value
        if parent is None:
            self.loops, self.all_loops, self.cond, self.counter, self.depth = [], [], 0, [0], 0
            self.targets = {}      # loop uid -> target source (for messages)
        else:                      # the body of a helper called by `parent`, evaluated on the caller's values
            self.loops, self.all_loops, self.cond, self.counter = list(parent.loops), parent.all_loops, parent.cond, parent.counter
            self.targets, self.depth = parent.targets, parent.depth + 1
        self.base = len(self.loops)
        self.base_cond = self.cond
        self.freezing = set()
        self.env = env if env is not None else {p: ("param", p) for p in fn.params}
        self.block(fn.body, self.env)

    def new_uid(self):
        self.counter[0] += 1
        return self.counter[0]

    def inline(self, e, recv, args, kws, env):
        """Value returned by a package-local helper (a method of the same object, or a module-level function) whose body is
        straight enough: evaluated on the caller's values, so that a conversion moved into a helper keeps its shape."""
        f, g, bound = e.func, None, False
        if isinstance(f, ast.Attribute) and recv == ("param", "self") and self.fn.cls is not None and "self" in self.fn.params[:1]:
            g, bound = self.fn.cls.lookup(f.attr), True
        elif isinstance(f, ast.Name) and f.id not in env:
            t = self.idx.resolve_name(self.fn.module, f.id)
            g = t if isinstance(t, FuncInfo) and t.cls is None and t.parent is None else None
        if g is None or self.depth >= 2 or g is self.fn or not isinstance(g.node, ast.FunctionDef):
            return None
        a = g.node.args
        if a.vararg or a.kwarg or a.kwonlyargs or any(isinstance(x, (ast.Yield, ast.YieldFrom, ast.Await)) for x in func_own_nodes(g)):
            return None
        decs = [attr_path(d) for d in g.decorators()]
        if any(d != "staticmethod" for d in decs):
            return None
        ps = list(g.params)
        genv = {}
        if bound and "staticmethod" not in decs:
            if not ps:
                return None
            genv[ps[0]] = recv
            ps = ps[1:]
        if len(args) > len(ps) or any(k not in ps for k in kws):
            return None
        for i, x in enumerate(args):
            genv[ps[i]] = x
        genv.update(kws)
        for q in ps:
            genv.setdefault(q, ("default", q))
        sub = _Shape(self.idx, g, parent=self, env=genv)
        self.calls += sub.calls
        if len(sub.raw_returns) == 1 and sub.raw_returns[0][2] == sub.base and sub.raw_returns[0][3] == sub.base_cond:
            return sub.raw_returns[0][1]
        return None

    # -- values
    def freeze(self, v):
        if isinstance(v, _Acc):
            if id(v) in self.freezing:          # a collection that holds (a value derived from) itself
                return ("acc", v.kind, (), "a reference to itself")
            self.freezing.add(id(v))
            try:
                return ("acc", v.kind, tuple(
                    (tuple((l.uid, self.freeze(l.base), l.partial) for l in loops), self.freeze(k), self.freeze(val), cond)
                    for (loops, k, val, cond, _n) in v.entries), v.opaque)
            finally:
                self.freezing.discard(id(v))
        if isinstance(v, tuple):
            return tuple(x if isinstance(x, ast.AST) else self.freeze(x) for x in v)
        return v

    def describe(self, v):
        if not isinstance(v, tuple) or not v:
            return repr(v)
        t = v[0]
        if t == "param" or t == "global":
            return v[1]
        if t in ("elem", "item"):
            tg = self._target_of(v)
            if isinstance(tg, ast.Name):
                return tg.id
        if t == "elem":
            return "<%s>" % self.targets.get(v[1], "element")
        if t == "item":
            return "%s[%s]" % (self.describe(v[1]), self.describe(v[2]) if isinstance(v[2], tuple) else repr(v[2]))
        if t == "attr":
            return "%s.%s" % (self.describe(v[1]), v[2])
        if t in ("items", "keys"):
            return "%s.%s()" % (self.describe(v[1]), t)
        if t == "const":
            return repr(v[1])
        if t == "tuple":
            return "(%s)" % ", ".join(self.describe(x) for x in v[1])
        if t == "dict":
            return "{%s}" % ", ".join("%s: %s" % (self.describe(k), self.describe(x)) for (k, x) in v[1])
        if t == "obj":
            return "%s(%s)" % (v[1].rsplit(".", 1)[-1].rsplit(":", 1)[-1], ", ".join("%s=%s" % (k, self.describe(x)) for (k, x) in v[2]))
        if t == "acc":
            if v[3]:
                return "a %s changed by %s" % (v[1], v[3])
            parts = []
            for (loops, k, val, cond) in v[2]:
                body = self.describe(val) if k is None else "%s: %s" % (self.describe(k), self.describe(val))
                parts.append("%s%s%s" % (body, "".join(" for <%s> in %s" % (self.targets.get(u, "x"), self.describe(b))
                                                       for (u, b, _p) in loops), " if .." if cond else ""))
            return ("[%s]" if v[1] == "list" else "{%s}") % "; ".join(parts)
        if isinstance(v[-1], ast.AST):
            return src(self.fn, v[-1])
        return t

    def _target_of(self, v):
        """The loop-target sub-pattern a value was unpacked into (for messages only)."""
        if v[0] == "elem":
            lp = [l for l in self.all_loops if l.uid == v[1]]
            return lp[0].target if lp else None
        if v[0] == "item" and isinstance(v[2], int) and isinstance(v[1], tuple):
            tg = self._target_of(v[1])
            if isinstance(tg, (ast.Tuple, ast.List)) and 0 <= v[2] < len(tg.elts):
                return tg.elts[v[2]]
        return None

    # -- expressions
    def ev(self, e, env):
        if e is None:
            return ("const", None)
        if isinstance(e, ast.Constant):
            return ("const", e.value)
        if isinstance(e, ast.Name):
            return env.get(e.id, ("global", e.id))
        if isinstance(e, (ast.Await, ast.YieldFrom)) or (isinstance(e, ast.Yield) and e.value is not None):
            return self.ev(e.value, env)
        if isinstance(e, ast.NamedExpr):
            v = self.ev(e.value, env)
            env[e.target.id] = v
            return v
        if isinstance(e, (ast.Tuple, ast.List)):
            if isinstance(e, ast.List) and not e.elts:
                return _Acc("list", len(self.loops), self.cond, e)
            if any(isinstance(x, ast.Starred) for x in e.elts):
                for x in e.elts:
                    self.ev(x.value if isinstance(x, ast.Starred) else x, env)
                return ("other", e)
            return ("tuple", tuple(self.ev(x, env) for x in e.elts))
        if isinstance(e, ast.Dict):
            if not e.keys:
                return _Acc("dict", len(self.loops), self.cond, e)
            if any(k is None for k in e.keys):
                for x in e.values:
                    self.ev(x, env)
                return ("other", e)
            return ("dict", tuple((self.ev(k, env), self.ev(x, env)) for k, x in zip(e.keys, e.values)))
        if isinstance(e, ast.Subscript):
            base = self.ev(e.value, env)
            if isinstance(e.slice, ast.Slice):
                for x in (e.slice.lower, e.slice.upper, e.slice.step):
                    if x is not None:
                        self.ev(x, env)
                return ("other", self.freeze(base), e)
            k = self.ev(e.slice, env)
            if k[0] == "const" and isinstance(k[1], (int, str, bytes)) and not isinstance(k[1], bool):
                return _item(base, k[1])
            return ("item", base, k)
        if isinstance(e, ast.Attribute):
            return _attr(self.ev(e.value, env), e.attr)
        if isinstance(e, ast.Call):
            return self.call(e, env)
        if isinstance(e, (ast.ListComp, ast.SetComp, ast.GeneratorExp, ast.DictComp)):
            return self.comp(e, env)
        if isinstance(e, ast.Lambda):
            return ("other", e)
        # anything else: evaluate the operands (their calls are recorded), the result is opaque but keeps its inputs
        parts = tuple(self.freeze(self.ev(c, env)) for c in ast.iter_child_nodes(e) if isinstance(c, ast.expr))
        return ("other", parts, e)

    def _class_of(self, f):
        ci = self.idx.resolve_expr(self.fn.module, f) if isinstance(f, (ast.Name, ast.Attribute)) else None
        if isinstance(ci, ClassInfo) and "__init__" not in ci.methods:
            fields = [st.target.id for st in ci.node.body if isinstance(st, ast.AnnAssign) and isinstance(st.target, ast.Name)]
            if fields:
                return ci, fields
        return None

    def call(self, e, env):
        f = e.func
        starred = any(isinstance(a, ast.Starred) for a in e.args) or any(k.arg is None for k in e.keywords)
        recv = self.ev(f.value, env) if isinstance(f, ast.Attribute) else None
        args = [self.ev(a.value if isinstance(a, ast.Starred) else a, env) for a in e.args]
        kws = {(k.arg or "**"): self.ev(k.value, env) for k in e.keywords}
        tail = call_tail(e)
        if recv is not None and not e.args and not e.keywords and tail in ("items", "keys"):
            return (tail, recv)
        if isinstance(recv, _Acc):
            if tail == "append" and recv.kind == "list" and len(args) == 1 and not kws and not starred:
                recv.entries.append((tuple(self.loops[recv.ldepth:]), None, args[0], self.cond > recv.cdepth, e))
                return ("const", None)
            if tail in ("extend", "update", "pop", "popitem", "clear", "remove", "insert", "setdefault", "sort", "reverse",
                        "discard", "add", "append"):
                recv.opaque = "%s()" % tail
        if isinstance(f, ast.Name) and f.id in _PASS_THROUGH and f.id not in env and len(args) == 1 and not starred \
                and (not kws or f.id == "sorted"):
            return args[0]
        cls = self._class_of(f) if not starred else None
        if cls is not None:
            ci, fields = cls
            vals = {}
            for i, a in enumerate(args):
                if i < len(fields):
                    vals[fields[i]] = a
            for k, v in kws.items():
                hit = [x for x in fields if x == k or x.lstrip("_") == k]
                if hit:
                    vals[hit[0]] = v
            return ("obj", ci.qual, tuple((x, vals.get(x, ("default", x))) for x in fields))
        fr = self.freeze(recv) if recv is not None else None
        fa = [self.freeze(a) for a in args]
        fk = {k: self.freeze(v) for k, v in kws.items()}
        self.calls.append((e, tail, fr, fa, fk))
        if self.inlining and not starred:
            got = self.inline(e, recv, args, kws, env)
            if got is not None:
                self.inlined.add(id(e))
                return got
        return ("call", tail, fr, tuple(fa), tuple(sorted(fk.items())), e)

    def loop(self, target, it, env, node):
        lp = _Loop(self.new_uid(), self.ev(it, env), node, target)
        self.targets[lp.uid] = src(self.fn, target)
        self.loops.append(lp)
        self.all_loops.append(lp)
        self.bind(target, ("elem", lp.uid), env)
        return lp

    def comp(self, e, env):
        env = dict(env)
        acc = _Acc("dict" if isinstance(e, ast.DictComp) else "list", len(self.loops), self.cond, e)
        n0, cond = len(self.loops), False
        for g in e.generators:
            self.loop(g.target, g.iter, env, g)
            for c in g.ifs:
                cond = True
                self.ev(c, env)
        if isinstance(e, ast.DictComp):
            k, v = self.ev(e.key, env), self.ev(e.value, env)
        else:
            k, v = None, self.ev(e.elt, env)
        acc.entries.append((tuple(self.loops[n0:]), k, v, cond, e))
        del self.loops[n0:]
        return acc

    # -- statements
    def bind(self, t, v, env):
        if isinstance(t, ast.Name):
            env[t.id] = v
        elif isinstance(t, (ast.Tuple, ast.List)):
            for i, x in enumerate(t.elts):
                if isinstance(x, ast.Starred):
                    self.bind(x.value, ("other", x), env)
                else:
                    self.bind(x, _item(v, i), env)
        elif isinstance(t, ast.Subscript):
            base = self.ev(t.value, env)
            if isinstance(base, _Acc):
                if base.kind == "dict" and not isinstance(t.slice, ast.Slice):
                    base.entries.append((tuple(self.loops[base.ldepth:]), self.ev(t.slice, env), v, self.cond > base.cdepth, t))
                else:
                    base.opaque = "an item store"
        elif isinstance(t, ast.Attribute) and isinstance(t.value, ast.Name):
            o = env.get(t.value.id)
            if isinstance(o, tuple) and o and o[0] == "obj":
                env[t.value.id] = ("obj", o[1], tuple((k, v if k == t.attr else x) for (k, x) in o[2]))

    def merge(self, env, branches):
        for name in set().union(*[set(b) for b in branches]):
            vals = [b.get(name) for b in branches]
            if all(x is vals[0] or (not isinstance(x, _Acc) and not isinstance(vals[0], _Acc) and x == vals[0]) for x in vals):
                env[name] = vals[0]
            else:
                env[name] = ("phi", tuple(self.freeze(x) for x in vals if x is not None))

    def block(self, stmts, env):
        for st in stmts:
            self.stmt(st, env)

    def stmt(self, st, env):
        if isinstance(st, ast.Assign):
            v = self.ev(st.value, env)
            for t in st.targets:
                self.bind(t, v, env)
        elif isinstance(st, ast.AnnAssign):
            if st.value is not None:
                self.bind(st.target, self.ev(st.value, env), env)
        elif isinstance(st, ast.AugAssign):
            v = self.ev(st.value, env)
            cur = self.ev(st.target, env) if isinstance(st.target, (ast.Name, ast.Attribute)) else None
            if isinstance(cur, _Acc):
                cur.opaque = "an augmented assignment"
            if isinstance(st.target, ast.Subscript):
                b = self.ev(st.target.value, env)
                if isinstance(b, _Acc):
                    b.opaque = "an augmented assignment"
            elif isinstance(st.target, ast.Name):
                env[st.target.id] = ("other", (self.freeze(cur), self.freeze(v)), st)
        elif isinstance(st, ast.Expr):
            self.ev(st.value, env)
        elif isinstance(st, ast.Return):
            v = self.ev(st.value, env)
            self.returns.append((st, self.freeze(v)))
            self.raw_returns.append((st, v, len(self.loops), self.cond))
            for lp in self.loops[self.base:]:
                lp.partial = True
        elif isinstance(st, (ast.For, ast.AsyncFor)):
            n0 = len(self.loops)
            self.loop(st.target, st.iter, env, st)
            self.block(st.body, env)
            del self.loops[n0:]
            self.block(st.orelse, env)
        elif isinstance(st, ast.While):
            self.ev(st.test, env)
            self.loops.append(_Loop(self.new_uid(), ("while",), st, None))
            self.cond += 1
            self.block(st.body, env)
            self.cond -= 1
            self.loops.pop()
            self.block(st.orelse, env)
        elif isinstance(st, ast.If):
            self.ev(st.test, env)
            self.cond += 1
            a, b = dict(env), dict(env)
            self.block(st.body, a)
            self.block(st.orelse, b)
            self.cond -= 1
            self.merge(env, [a, b])
        elif isinstance(st, ast.Try) or st.__class__.__name__ == "TryStar":
            self.block(st.body, env)
            self.block(st.orelse, env)
            branches = [dict(env)]
            self.cond += 1
            for h in st.handlers:
                henv = dict(env)
                if h.name:
                    henv[h.name] = ("other", h)
                self.block(h.body, henv)
                branches.append(henv)
            self.cond -= 1
            self.merge(env, branches)
            self.block(st.finalbody, env)
        elif isinstance(st, (ast.With, ast.AsyncWith)):
            for it in st.items:
                v = self.ev(it.context_expr, env)
                if it.optional_vars is not None:
                    self.bind(it.optional_vars, ("other", self.freeze(v), it.context_expr), env)
            self.block(st.body, env)
        elif isinstance(st, (ast.Break, ast.Continue)):
            if self.loops:
                self.loops[-1].partial = True
        elif isinstance(st, ast.Raise):
            if st.exc is not None:
                self.ev(st.exc, env)
        elif isinstance(st, ast.Assert):
            self.ev(st.test, env)
        elif isinstance(st, ast.Delete):
            for t in st.targets:
                if isinstance(t, ast.Name):
                    env.pop(t.id, None)
                elif isinstance(t, ast.Subscript):
                    b = self.ev(t.value, env)
                    if isinstance(b, _Acc):
                        b.opaque = "del"
        elif isinstance(st, (ast.FunctionDef, ast.AsyncFunctionDef, ast.ClassDef)):
            env[st.name] = ("other", st)
        elif isinstance(st, (ast.Import, ast.ImportFrom)):
            for al in st.names:
                env.pop((al.asname or al.name).split(".")[0], None)
        elif isinstance(st, (ast.Pass, ast.Global, ast.Nonlocal)):
            pass
        else:
            raise AnalysisError("%s: statement %s is not understood by the shape evaluation" % (self.fn.qual, st.__class__.__name__))


def _mentions(v, what):
    return _deep(v, lambda x: x == what)


def _one_to_one(sh, v, what):
    """v is (the frozen form of) a list / dict built with exactly one unconditional entry per element of exactly one
    loop: returns ((uid, base), key, value) or a string saying why not."""
    if not (isinstance(v, tuple) and v and v[0] == "acc"):
        return "%s is %s, not a collection built element by element" % (what, sh.describe(v))
    if v[3]:
        return "%s is changed by %s after it was built" % (what, v[3])
    if len(v[2]) != 1:
        return "%s is filled at %d places" % (what, len(v[2]))
    (loops, k, val, cond) = v[2][0]
    if len(loops) != 1:
        return "%s is filled %s" % (what, "outside any loop" if not loops else "inside %d nested loops" % len(loops))
    if cond:
        return "%s leaves elements out (a condition guards the entry %s)" % (what, sh.describe(val))
    if loops[0][2]:
        return "the loop that fills %s can be cut short (break / continue / return)" % what
    return ((loops[0][0], loops[0][1]), k, val)


def _key_value(loop, D):
    """(key value, value value) of one step of a loop over the mapping D, or None."""
    uid, base = loop
    e = ("elem", uid)
    if base == ("items", D):
        return (_item(e, 0), _item(e, 1))
    if base == D or base == ("keys", D):
        return (e, ("item", D, e))
    return None


def _per_share(sh, v, D, what):
    """v maps every share number of the mapping D to something: returns (that value, the caller's per-share value) or str."""
    got = _one_to_one(sh, v, what)
    if isinstance(got, str):
        return got
    loop, k, val = got
    if v[1] != "dict":
        return "%s is a list, not a mapping by share number" % what
    kv = _key_value(loop, D)
    if kv is None:
        return "%s is built from %s, not from every share of %s" % (what, sh.describe(loop[1]), sh.describe(D))
    if k != kv[0]:
        return "%s files the vectors of share %s under %s" % (what, sh.describe(kv[0]), sh.describe(k))
    return (val, kv[1])


def _vector_elements(sh, v, src_list, what):
    """v is a list with one entry per element of src_list: returns (element value built, ('elem', uid)) or str."""
    got = _one_to_one(sh, v, what)
    if isinstance(got, str):
        return got
    loop, _k, val = got
    if loop[1] != src_list:
        return "%s is built from %s, not from every test vector %s" % (what, sh.describe(loop[1]), sh.describe(src_list))
    return (val, ("elem", loop[0]))


def _consumer(idx, r=None):
    """What check_testv does with one element of the test vector it is given: {'offset': i, 'size': j, 'specimen': k},
    arity of the element.  (With r: also checks C12.18 on both check_testv implementations.)"""
    out = None
    for q, empty in (("storage.mutable:MutableShareFile.check_testv", False), ("storage.mutable:EmptyShare.check_testv", True)):
        fn = idx.func(q)
        ps = first_positional_params(fn)
        if not ps:
            raise AnchorVanished("%s(testv)" % short(fn))
        sh = _Shape(idx, fn)
        cmps = [c for c in sh.calls if c[1] == "testv_compare"]
        if not cmps:
            raise AnchorVanished("%s no longer calls testv_compare" % short(fn))
        roles = None
        for (node, _t, _recv, a, _k) in cmps:
            if r is not None:
                r.site(fn, node, "comparison")
            if len(a) != 3:
                raise AnalysisError("%s: testv_compare(data, operator, specimen) expected" % short(fn))
            el = [x for x in (a[1], a[2]) if isinstance(x, tuple) and x[0] == "item" and isinstance(x[1], tuple) and x[1][0] == "elem"]
            lp = [l for l in sh.all_loops if el and l.uid == el[0][1][1]]
            ok = len(el) == 2 and el[0][1] == el[1][1] and bool(lp) and isinstance(el[0][2], int) and isinstance(el[1][2], int)
            if not ok:
                if r is not None:
                    r.violation(fn, fn.loc(node), "%s compares with operator %s and specimen %s, which are not two fields of one "
                                "element of the test vector" % (short(fn), sh.describe(a[1]), sh.describe(a[2])))
                continue
            e = el[0][1]
            if r is not None:
                r.require(sh.freeze(lp[0].base) == ("param", ps[0]), fn, fn.loc(lp[0].node), "%s walks over %s, not over every "
                          "element of the test vector %s it was given" % (short(fn), sh.describe(sh.freeze(lp[0].base)), ps[0]))
            got = {"op": el[0][2], "specimen": el[1][2]}
            d = a[0]
            if empty:
                if r is not None:
                    r.require(d == ("const", b""), fn, fn.loc(node), "for an absent share the specimen is compared with %s, not "
                              "with b'' (what a read of a share that does not exist returns)" % sh.describe(d))
            else:
                rd = d if isinstance(d, tuple) and d[0] == "call" and d[1] == "_read_share_data" and len(d[3]) == 3 else None
                if rd is None:
                    if r is not None:
                        r.violation(fn, fn.loc(node), "the specimen is compared with %s, not with bytes read from the share by "
                                    "_read_share_data(f, offset, length)" % sh.describe(d))
                    continue
                o, ln = rd[3][1], rd[3][2]
                for (name, x) in (("offset", o), ("size", ln)):
                    if isinstance(x, tuple) and x[0] == "item" and x[1] == e and isinstance(x[2], int):
                        got[name] = x[2]
                    elif r is not None:
                        r.violation(fn, fn.loc(node), "the bytes compared with the specimen are read with %s = %s, which is not a "
                                    "field of the test vector element: the server tests something else than the writer asked for "
                                    "(a zero-length read makes (0, 1, b'') - 'the share must not exist' - pass on any share)" % (
                                        "length" if name == "size" else name, sh.describe(x)))
            if len(set(got.values())) == len(got) and (empty or len(got) == 4):
                roles = dict(got)
                roles["arity"] = len(lp[0].target.elts) if isinstance(lp[0].target, ast.Tuple) else None
        if r is not None:
            _failing_vector_refuses(r, fn)
        if not empty:
            out = roles
        elif roles is not None and out is not None and r is not None:
            r.require(all(out[k] == roles[k] for k in ("op", "specimen")), fn, fn.loc(), "EmptyShare.check_testv takes operator / "
                      "specimen from elements %s of a test vector, MutableShareFile.check_testv from %s" % (
                          (roles["op"], roles["specimen"]), (out["op"], out["specimen"])))
    if r is not None:
        tc = idx.func("storage.mutable:testv_compare")
        r.site(tc, None, "equality")
        p = tc.params
        if len(p) != 3:
            raise AnchorVanished("testv_compare(a, op, b)")
        nf = N(tc)

        def whole_equality(n, v):
            f = nf.cmp(v, True)
            return bool(f) and f[0] == "==" and {f[1], f[2]} == {p[0], p[2]}
        _returns_only(r, tc, whole_equality, "%s == %s" % (p[0], p[2]),
                      "anything weaker than equality of the bytes read with the whole specimen (a prefix, a containment) lets a "
                      "test vector pass on a share that changed")
    return out


def _failing_vector_refuses(r, fn):
    """After a failing comparison every return gives False; a value that may be true is returned only after the loop
    over the test vector has run to its end without a failure."""
    cfg = fn.cfg()
    tests = [n for n in cfg.nodes if n.kind == "test" and isinstance(n.ast, ast.Call) and call_tail(n.ast) == "testv_compare"]
    if not tests:
        raise AnchorVanished("%s no longer branches on testv_compare(..)" % short(fn))
    heads = [n for n in cfg.nodes if n.kind == "iter"]

    def transfer(n, lab, nxt, st):
        failed, done, known = st
        if lab == "exc":
            return None
        if n in tests and isinstance(lab, tuple) and lab[0] == "F":
            failed = True
        if n in heads and lab == "done":
            done = True
        if n.kind in ("stmt", "iter", "with", "except"):
            names = {s for s in node_stores(n) if "." not in s and not s.endswith("[]")}
            if names:
                kn = {(k, v) for (k, v) in known if k not in names}
                if n.kind == "stmt" and isinstance(n.ast, ast.Assign):
                    v = n.ast.value
                    val = v.value if isinstance(v, ast.Constant) else dict(known).get(v.id) if isinstance(v, ast.Name) else None
                    if isinstance(val, bool):
                        kn |= {(t.id, val) for t in n.ast.targets if isinstance(t, ast.Name)}
                known = frozenset(kn)
        return (failed, done, known)
    visited, parent = explore(cfg, (False, False, frozenset()), transfer)
    r.count(len(visited))
    told = set()
    for (nid, st) in sorted(visited, key=lambda x: (x[0], x[1][0], x[1][1], sorted(x[1][2]))):
        n = cfg.nodes[nid]
        if not is_return(n):
            continue
        failed, done, known = st
        v = n.ast.value
        val = v.value if isinstance(v, ast.Constant) else dict(known).get(v.id) if isinstance(v, ast.Name) else None
        if val is False:
            continue
        kind = "failed" if failed else ("early" if not done else None)
        if kind is None or (nid, kind) in told:
            continue
        told.add((nid, kind))
        w = witness(cfg, parent, (nid, st))
        if failed:
            r.violation(fn, fn.loc(n.ast), "after a failing test vector %s can return %s instead of False: the write is applied "
                        "to a share that is not what the writer saw (path: %s)" % (short(fn), src(fn, v), w.brief()), w)
        else:
            r.violation(fn, fn.loc(n.ast), "%s can return %s before every test vector has been compared (path: %s)" % (
                short(fn), src(fn, v), w.brief()), w)
    for (n, w) in find_path_avoiding(cfg, lambda n: n.kind == "exit", gate_node=is_return):
        r.violation(fn, fn.loc(), "%s can fall off its end" % short(fn), w)


def _wire_keys(idx, ci):
    """{field: key} of the CBOR map an attrs class of http_client is sent as: attrs.asdict(self) keys, renamed by the
    `d[new] = d.pop(old)` statements of the class's own asdict()."""
    fields = [st.target.id for st in ci.node.body if isinstance(st, ast.AnnAssign) and isinstance(st.target, ast.Name)]
    keys = {f: f for f in fields}
    own = ci.methods.get("asdict")
    if own is not None:
        sh = _Shape(idx, own)
        base = [c for c in sh.calls if c[1] == "asdict" and c[3] == [("param", own.params[0])]]
        if not base:
            raise AnalysisError("%s does not start from attrs.asdict(self)" % short(own))
        dname = None
        for st in func_own_nodes(own):
            if isinstance(st, ast.Assign) and isinstance(st.value, ast.Call) and st.value is base[0][0] \
                    and len(st.targets) == 1 and isinstance(st.targets[0], ast.Name):
                dname = st.targets[0].id
        for st in func_own_nodes(own):
            if isinstance(st, ast.Assign) and len(st.targets) == 1 and isinstance(st.targets[0], ast.Subscript) \
                    and attr_path(st.targets[0].value) == dname and isinstance(st.targets[0].slice, ast.Constant):
                v = st.value
                if isinstance(v, ast.Call) and call_name(v) == "%s.pop" % dname and len(v.args) == 1 \
                        and isinstance(v.args[0], ast.Constant) and v.args[0].value in keys.values():
                    old = [f for f, k in keys.items() if k == v.args[0].value][0]
                    keys[old] = st.targets[0].slice.value
                else:
                    raise AnalysisError("%s: %s is not a plain rename of a field" % (short(own), src(own, st)))
        rets = [v for (_n, v) in sh.returns]
        if dname is None or not rets or any(v[0] != "call" or v[-1] is not base[0][0] for v in rets):
            raise AnalysisError("%s does not return the (renamed) attrs.asdict(self) map" % short(own))
    return keys


class _HttpWire:
    """The HTTP hop of a mutable write: StorageClientMutables.read_test_write_chunks .. request body .. handler
    mutable_read_test_write .. StorageServer.slot_testv_and_readv_and_writev."""

    def __init__(self, idx, consumer, r=None):
        self.idx, self.consumer, self.r = idx, consumer, r
        self.cm = idx.module("allmydata.storage.http_client")
        self.server_side()
        self.client_side()

    def bad(self, fn, node, msg):
        if self.r is not None:
            self.r.violation(fn, fn.loc(node), msg)
        self.ok = False

    def server_side(self):
        idx, cons = self.idx, self.consumer
        self.ok = True
        self.role_keys, self.test_key, self.body_key = {}, None, None
        h = self.handler = idx.func("storage.http_server:HTTPServer.mutable_read_test_write")
        srv = idx.func(SRV + "." + REMOTE)
        sps = first_positional_params(srv)
        sh = _Shape(idx, h, inline=True)
        calls = [c for c in sh.calls if c[1] == REMOTE]
        if not calls:
            raise AnchorVanished("%s no longer calls %s" % (short(h), REMOTE))
        for (node, _t, _recv, a, kw) in calls:
            if self.r is not None:
                self.r.site(h, node, "handler rebuilds the vectors")
            v = kw.get(sps[2], a[2] if len(a) > 2 else None)
            if v is None:
                raise AnalysisError("%s: no test-and-write vector argument" % short(h))
            got = _one_to_one(sh, v, "the test-and-write vector mapping")
            if isinstance(got, str):
                self.bad(h, node, "%s: %s" % (short(h), got))
                continue
            loop, k, val = got
            base = loop[1]
            inner = base[1] if base[0] == "items" else None
            if not (inner is not None and inner[0] == "item" and isinstance(inner[2], str) and isinstance(inner[1], tuple)
                    and inner[1][0] == "call" and inner[1][1] == "read_encoded"):
                self.bad(h, node, "%s builds the vectors from %s, not from a field of the decoded request body" % (
                    short(h), sh.describe(base)))
                continue
            self.body_key = inner[2]
            e = ("elem", loop[0])
            if k != _item(e, 0):
                self.bad(h, node, "%s files the vectors of share %s under %s" % (short(h), sh.describe(_item(e, 0)), sh.describe(k)))
            pv = _item(e, 1)
            tv = _item(val, _TESTV_SLOT)
            if not (isinstance(val, tuple) and val[0] == "tuple"):
                self.bad(h, node, "%s passes %s per share, not a (test, write, new_length) tuple" % (short(h), sh.describe(val)))
                continue
            got = _one_to_one(sh, tv, "the test vector handed to the storage server")
            if isinstance(got, str):
                self.bad(h, node, "%s: %s: vectors the client sent are not tested" % (short(h), got))
                continue
            tloop, _k, elt = got
            tb = tloop[1]
            if not (tb[0] == "item" and tb[1] == pv and isinstance(tb[2], str)):
                self.bad(h, node, "%s takes the test vectors from %s, not from a field of this share's entry" % (
                    short(h), sh.describe(tb)))
                continue
            self.test_key = tb[2]
            d = ("elem", tloop[0])
            if not (elt[0] == "tuple" and (cons["arity"] is None or len(elt[1]) == cons["arity"])):
                self.bad(h, node, "%s hands check_testv elements %s; it unpacks %s fields" % (short(h), sh.describe(elt), cons["arity"]))
                continue
            for role in ("offset", "size", "specimen"):
                x = _item(elt, cons[role])
                if isinstance(x, tuple) and x[0] == "item" and x[1] == d and isinstance(x[2], str):
                    self.role_keys[role] = x[2]
                else:
                    self.bad(h, node, "%s gives check_testv the %s %s, which is not a field of the test vector the client sent%s" % (
                        short(h), "length" if role == "size" else role, sh.describe(x),
                        ": (0, 1, b'') - 'the share must not exist' - becomes a test that any share passes"
                        if role in ("size", "specimen") else ""))
            if len(set(self.role_keys.values())) != len(self.role_keys):
                self.bad(h, node, "%s uses one field of the client's test vector twice: %s" % (short(h), self.role_keys))
        # the Foolscap server object hands the vectors through untouched
        fw = self.fool = idx.func("storage.server:FoolscapStorageServer.remote_" + REMOTE)
        fsh = _Shape(idx, fw, inline=True)
        fcalls = [c for c in fsh.calls if c[1] == REMOTE]
        if not fcalls:
            raise AnchorVanished("%s no longer calls %s" % (short(fw), REMOTE))
        self.fool_param = None
        for (node, _t, _recv, a, kw) in fcalls:
            if self.r is not None:
                self.r.site(fw, node, "foolscap server object")
            v = kw.get(sps[2], a[2] if len(a) > 2 else None)
            if isinstance(v, tuple) and v[0] == "param":
                self.fool_param = first_positional_params(fw).index(v[1])
            else:
                self.bad(fw, node, "%s hands the storage server %s instead of the test-and-write vectors it received" % (
                    short(fw), fsh.describe(v) if v is not None else "nothing"))

    def client_side(self):
        """Follow the mapping from StorageClientMutables.<entry>(.., testwrite_vectors, ..) to the request body."""
        idx = self.idx
        self.entry = idx.func("storage.http_client:StorageClientMutables.read_test_write_chunks")
        self.entry_param, self.attrs_asdict = None, False
        if self.body_key is None:
            raise AnalysisError("%s: cannot tell which field of the request body carries the test-and-write vectors" % short(self.handler))
        ps = first_positional_params(self.entry)
        # the parameter is found from the far end: the one whose items reach the request body
        found = []
        for p in ps:
            res = self.follow(self.entry, p, 0)
            if res:
                found.append(p)
        if len(found) != 1:
            raise AnalysisError("%s: cannot tell which parameter carries the test-and-write vectors (%s)" % (short(self.entry), found))
        self.entry_param = found[0]
        self.follow(self.entry, found[0], 0, report=True)

    def follow(self, fn, p, depth, report=False):
        sh = _Shape(self.idx, fn, inline=True)
        P = ("param", p)
        hit = False
        for (node, tail, recv, a, kw) in sh.calls:
            if tail == "request":
                msg = kw.get("message_to_serialize")
                if msg is None or not _mentions(msg, P):
                    continue
                if not (msg[0] == "dict"):
                    if report:
                        self.bad(fn, node, "%s: the request body is %s" % (short(fn), sh.describe(msg)))
                    continue
                for (k, v) in msg[1]:
                    if not _mentions(v, P):
                        continue
                    if k != ("const", self.body_key):
                        continue
                    hit = True
                    if not report:
                        continue
                    if self.r is not None:
                        self.r.site(fn, node, "request body")
                    got = _per_share(sh, v, P, "the %r field of the request body" % self.body_key)
                    if isinstance(got, str):
                        self.bad(fn, node, "%s: %s" % (short(fn), got))
                        continue
                    val, pv = got
                    if val[0] == "call" and val[1] == "asdict" and (val[2] == pv or (val[2] is None and list(val[3]) == [pv])):
                        self.attrs_asdict = val[2] is None
                    else:
                        self.bad(fn, node, "%s sends %s for a share instead of the asdict() of the caller's vectors %s" % (
                            short(fn), sh.describe(val), sh.describe(pv)))
                continue
            if recv == ("param", "self") and fn.cls is not None and depth < 3:
                g = fn.cls.lookup(tail)
                if g is None:
                    continue
                gps = first_positional_params(g)
                for i, x in enumerate(a):
                    if x == P and i < len(gps):
                        hit = self.follow(g, gps[i], depth + 1, report) or hit
                    elif report and _mentions(x, P) and i < len(gps) and self.follow(g, gps[i], depth + 1):
                        self.bad(fn, node, "%s passes %s on instead of the vectors %s it was given" % (short(fn), sh.describe(x), p))
                for k, x in kw.items():
                    if x == P and k in gps:
                        hit = self.follow(g, k, depth + 1, report) or hit
        return hit


def _wire_rule(r, idx):
    cons = _consumer(idx)
    if cons is None:
        raise AnalysisError("cannot tell which fields of a test vector element check_testv reads (see C12.18)")
    wire = _HttpWire(idx, cons, r)
    return wire


def _adapters_rule(r, idx):
    cons = _consumer(idx)
    if cons is None:
        raise AnalysisError("cannot tell which fields of a test vector element check_testv reads (see C12.18)")
    wire = _HttpWire(idx, cons, None)
    skip = ("allmydata.storage.server", "allmydata.interfaces")
    adapters = [ci for ci in idx.classes.values() if REMOTE in ci.methods and ci.module.name not in skip
                and not ci.module.name.startswith("allmydata.test")]
    if len(adapters) < 2:
        raise AnchorVanished("expected the Foolscap and the HTTP IStorageServer adapters to define %s" % REMOTE)
    for ci in sorted(adapters, key=lambda c: c.qual):
        fn = ci.methods[REMOTE]
        r.site(fn, None, "adapter forwards test vectors")
        ps = first_positional_params(fn)
        if len(ps) < 4:
            raise AnchorVanished("%s(storage_index, secrets, tw_vectors, r_vector)" % short(fn))
        SI, TW = ("param", ps[0]), ("param", ps[2])
        sh = _Shape(idx, fn, inline=True)
        sends = [c for c in sh.calls if id(c[0]) not in sh.inlined and any(_mentions(x, SI) for x in c[3] + list(c[4].values()))
                 and any(_mentions(x, TW) for x in c[3] + list(c[4].values()))]
        if not sends:
            r.violation(fn, fn.loc(), "%s hands its test-and-write vectors to no call that names the storage index: the test "
                        "vectors do not reach the server" % short(fn))
            continue
        for (node, tail, recv, a, kw) in sends:
            r.count(1)
            carried = [(i, x) for i, x in enumerate(a) if _mentions(x, TW)] + [(k, x) for k, x in kw.items() if _mentions(x, TW)]
            # which argument the far side reads its vectors from
            if tail == "callRemote" and a and a[0] == ("const", REMOTE):
                if wire.fool_param is None:
                    raise AnalysisError("cannot tell which argument of remote_%s carries the vectors (see C12.17)" % REMOTE)
                want, form = 1 + wire.fool_param, "tuple"
            else:
                g = wire.entry if tail == wire.entry.name else None
                if g is None:
                    r.violation(fn, fn.loc(node), "%s sends the vectors with %s(..), which is neither callRemote(%r, ..) nor %s" % (
                        short(fn), tail, REMOTE, short(wire.entry)))
                    continue
                gps = first_positional_params(g)
                if not wire.ok:
                    raise AnalysisError("the HTTP hop behind %s is not intact (reported by C12.17)" % short(fn))
                want, form = gps.index(wire.entry_param), "object"
                if wire.entry_param in kw:
                    want = wire.entry_param
            v = dict(carried).get(want)
            for (pos, x) in carried:
                if pos != want:
                    r.violation(fn, fn.loc(node), "%s passes data derived from the test-and-write vectors as argument %s of %s(..)" % (
                        short(fn), pos, tail))
            if v is None:
                r.violation(fn, fn.loc(node), "%s does not pass the test-and-write vectors as argument %s of %s(..)" % (
                    short(fn), want, tail))
                continue
            got = _per_share(sh, v, TW, "what %s sends" % short(fn))
            if isinstance(got, str):
                r.violation(fn, fn.loc(node), "%s: a share's test vector does not reach the server as the writer gave it" % got)
                continue
            val, pv = got
            if form == "tuple":
                if not (val[0] == "tuple" and len(val[1]) > _TESTV_SLOT):
                    r.violation(fn, fn.loc(node), "%s sends %s per share, not a (test, write, new_length) tuple" % (
                        short(fn), sh.describe(val)))
                    continue
                tv = val[1][_TESTV_SLOT]
            else:
                if not (val[0] == "obj"):
                    r.violation(fn, fn.loc(node), "%s sends %s per share, not an object of http_client" % (short(fn), sh.describe(val)))
                    continue
                keys = _wire_keys(idx, _class_by_qual(idx, val[1]))
                fl = [f for f, k in keys.items() if k == wire.test_key]
                if len(fl) != 1:
                    r.violation(fn, fn.loc(node), "no field of %s is sent under the key %r the handler reads the test vectors from" % (
                        val[1], wire.test_key))
                    continue
                tv = dict(val[2])[fl[0]]
            got = _vector_elements(sh, tv, _item(pv, _TESTV_SLOT), "the test vector %s sends" % short(fn))
            if isinstance(got, str):
                r.violation(fn, fn.loc(node), "%s: the server tests less than the writer asked for" % got)
                continue
            elt, e = got
            for role in ("offset", "size", "specimen"):
                wantv = _item(e, _CALLER_ROLES[role])
                if form == "tuple":
                    ok_shape = elt[0] == "tuple" and (cons["arity"] is None or len(elt[1]) == cons["arity"])
                    x = _item(elt, cons[role]) if ok_shape else None
                else:
                    ok_shape = elt[0] == "obj" and role in wire.role_keys
                    x = None
                    if ok_shape:
                        ek = _wire_keys(idx, _class_by_qual(idx, elt[1]))
                        fl = [f for f, k in ek.items() if k == wire.role_keys[role]]
                        x = dict(elt[2])[fl[0]] if len(fl) == 1 else None
                if x is None:
                    r.violation(fn, fn.loc(node), "%s sends test vector elements %s: cannot find the %s the server will use" % (
                        short(fn), sh.describe(elt), "length" if role == "size" else role))
                    break
                if x != wantv:
                    r.violation(fn, fn.loc(node), "%s sends the %s %s where the writer gave %s%s" % (
                        short(fn), {"size": "length"}.get(role, role) + " of a test vector as", sh.describe(x), sh.describe(wantv),
                        ": the server reads that many bytes for the comparison, so (0, 1, b'') - 'the share must not exist' - "
                        "arrives as a test that any share passes" if role == "size" else ""))


def _class_by_qual(idx, qual):
    for ci in idx.classes.values():
        if ci.qual == qual:
            return ci
    raise AnchorVanished("class %s" % qual)
