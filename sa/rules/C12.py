"""C12 Concurrent writers are detected, never silently clobbered.

Decided: every remote mutable write carries a non-empty test vector that pins
the version the publisher saw, a rejected or surprising answer always ends in
UncoordinatedWriteError, and modify() retries only on that error after a
fresh survey (DESIGN.md section 5, C12)."""
import builtins

from sa.h import *

EXPLANATION = (
    "Decided (structural, all paths): (1) both write proxies in mutable/layout.py put self._testvs into the "
    "test-and-write vector of their own share number, and on every path to the remote call self._testvs is non-empty "
    "(known truthy, or the 'share must not exist' fallback (0, n>=1, b'') was appended); (2) set_checkstring stores the "
    "vector (0, len(cs), cs) where cs is the caller's packed checkstring or struct.pack(<prefix format>, version, "
    "seqnum, root_hash[, salt]) of its own parameters, and the prefix format is a prefix of the header the proxy "
    "writes; (3) Publish.publish/update give every writer whose (server, shnum) is in the servermap's known shares "
    "the (seqnum, root_hash, salt) of exactly that entry, and bad shares their recorded checkstring; (4) in "
    "_got_write_answer a false 'wrote' and a surprise share whose checkstring differs from ours both always end with "
    "self.surprised = True, and nothing but publish()/update() ever stores a value other than True there; (5) on "
    "every writer Deferred the server's answer reaches _got_write_answer(writer) unchanged (layout.py and "
    "finish_publishing add only pass-through callbacks before it); (6) _done is called only from _push and only "
    "after observing not self.surprised; (7) _failure delivers UncoordinatedWriteError to done_deferred whenever "
    "self.surprised; (8) MutableFileVersion._modify_and_retry retries only after f.trap(UncoordinatedWriteError), "
    "with first_time=False, always re-surveys (_update_servermap) before _modify_once, and the modifier is applied "
    "to the freshly downloaded contents; (9) the storage server applies write vectors only under the truth of "
    "_evaluate_test_vectors over the same vectors and shares, which returns False on the first failing vector, and "
    "returns that verdict, and a test vector is evaluated against anything but the stored share (EmptyShare) only after "
    "observing that the share is absent; (10) in _got_write_answer no local (or never-bound name) is read before it is "
    "bound on a path from which self.surprised = True is still ahead - the NameError would end the handler and be swallowed "
    "by finish_publishing's DeferredList, and the publish would report success; (11) the value compared with "
    "self._checkstring is answer[1][shnum][i] for the loop variable over a surprise set that starts from every share in "
    "the answer, from which only this writer's own share number and share numbers obtained under an equality with the "
    "answering server (writer.server) are removed; both write proxies send a read vector list with an entry i; "
    "publish()/update() set writer.server to the server whose storage server the writer wraps; (12) "
    "Publish.finish_publishing appends every writer Deferred to the list it returns a DeferredList of (never "
    "fireOnOneCallback, list never reset), and push_everything_else runs _push only as a callback of it; (13) in _push every "
    "path after observing self.surprised calls self._failure(); (14) _apply returns the Deferred of self._upload, "
    "_modify_once returns the Deferred _apply is chained on, the callbacks registered in _modify_and_retry/_retry return "
    "the _modify_once/_modify_and_retry calls they make, and both functions return their Deferred on every path; (15) "
    "set_checkstring stores (0, len(cs), cs) only after cs is known non-empty (tested against b'' / truth / len, or "
    "freshly struct.pack'ed), because (0, 0, b'') is satisfied by any share contents. "
    "Undecided: the (writers+1)*k <= N recoverability arithmetic over interleavings, byte-level comparison inside "
    "check_testv, wire conversion of the vectors (C31); exceptions other than unbound names raised inside "
    "_got_write_answer before the marking (they are swallowed by the DeferredList as well); which servermap mode the "
    "first/later attempts of modify() use and the new sequence number (value-level); that self._checkstring holds the "
    "checkstring the writers expect (a wrong value only produces spurious surprises); placement bookkeeping "
    "(goal/placed/bad_servers), leases and timing/status code.")
TECHNIQUE = "static analysis: CFG path rules over normalised edge facts, reaching definitions, Deferred chain model, who-may-write sweeps"

PUB = "mutable.publish:Publish"
SDMFW = "mutable.layout:SDMFSlotWriteProxy"
MDMFW = "mutable.layout:MDMFSlotWriteProxy"
MFV = "mutable.filenode:MutableFileVersion"
SRV = "storage.server:StorageServer"
REMOTE = "slot_testv_and_readv_and_writev"
KS = "self._servermap.get_known_shares()"


# ------------------------------------------------------------------ helpers
def _fact_gate(fnorm, pred):
    def gate(n, lab):
        f = fnorm.edge_fact(n, lab)
        return bool(f) and bool(pred(*f))
    return gate


def _class_funcs(ci):
    out, stack = [], list(ci.methods.values())
    while stack:
        f = stack.pop()
        out.append(f)
        stack.extend(v for k, v in f.nested.items() if not k.startswith("<lambda"))
    return out


def _sweep(idx, name):
    """Every call ``X.name(..)`` and every other load of an attribute ``X.name`` in the package, *including
    lambda bodies* (the engine's call-graph sweeps do not enter lambdas): (fn, node, receiver expr, 'call'|'ref')."""
    cache = idx.__dict__.setdefault("_lambda_sweep_cache", {})
    out = []
    for fn in idx.funcs.values():
        if name not in fn.module.source:
            continue
        ent = cache.get(fn.qual)
        if ent is None:
            nodes = [n for n in func_own_nodes(fn, into_lambda=True) if isinstance(n, (ast.Call, ast.Attribute))]
            callfuncs = {id(n.func) for n in nodes if isinstance(n, ast.Call)}
            ent = cache[fn.qual] = (nodes, callfuncs)
        nodes, callfuncs = ent
        for n in nodes:
            if isinstance(n, ast.Call):
                if isinstance(n.func, ast.Attribute) and n.func.attr == name:
                    out.append((fn, n, n.func.value, "call"))
            elif n.attr == name and isinstance(n.ctx, ast.Load) and id(n) not in callfuncs:
                out.append((fn, n, n.value, "ref"))
    return out


def _method_uses(idx, cg, tail, owner, foreign_prefix="allmydata.mutable"):
    """Calls and bare attribute references ``X.tail`` that can denote `owner`'s method: receiver ``self``
    inside the owner class (or a subclass), or any non-self receiver inside `foreign_prefix`."""
    out = []
    for (fn, node, recv, kind) in _sweep(idx, tail):
        if isinstance(recv, ast.Name) and recv.id == "self":
            if fn.cls is not None and owner in fn.cls.mro():
                out.append((fn, node, kind))
        elif fn.module.name.startswith(foreign_prefix):
            out.append((fn, node, kind))
    return out


def _callable_info(idx, fn, target):
    if isinstance(target, ast.Lambda):
        lf = idx.lambda_func(fn, target)
        ps = first_positional_params(lf)
        return (lf, ps[0] if ps else None)
    if isinstance(target, ast.Name):
        p = fn
        while p is not None:
            if target.id in p.nested:
                g = p.nested[target.id]
                ps = first_positional_params(g)
                return (g, ps[0] if ps else None)
            p = p.parent
        return None
    if isinstance(target, ast.Attribute) and isinstance(target.value, ast.Name) and target.value.id == "self" \
            and fn.cls is not None:
        g = fn.cls.lookup(target.attr)
        if g is not None:
            ps = first_positional_params(g)
            return (g, ps[0] if ps else None)
    return None


def _is_pass_through(idx, fn, target):
    """The callable returns its first argument on every normal path."""
    info = _callable_info(idx, fn, target)
    if info is None or info[1] is None:
        return False
    g, p = info

    def ret_param(n):
        return is_return(n) and isinstance(n.ast.value, ast.Name) and n.ast.value.id == p
    return not find_path_avoiding(g.cfg(), lambda n: n.kind == "exit", gate_node=ret_param, kill=stores(p))


def _reg_args(reg, side):
    if reg.kind != "pair":
        return list(reg.args)
    kw = kwarg(reg.call, "callbackArgs" if side == "ok" else "errbackArgs")
    if kw is None and side == "ok" and len(reg.call.args) > 2:
        kw = reg.call.args[2]
    if isinstance(kw, (ast.Tuple, ast.List)):
        return list(kw.elts)
    return []


def _literal(e):
    """Constant value of a small literal expression (tuple([..]) unwrapped), or NotImplemented."""
    if isinstance(e, ast.Call) and isinstance(e.func, ast.Name) and e.func.id in ("tuple", "list") and len(e.args) == 1 \
            and not e.keywords:
        e = e.args[0]
    try:
        v = ast.literal_eval(e)
    except Exception:
        return NotImplemented
    return tuple(v) if isinstance(v, list) else v


def _must_not_exist_vector(e):
    v = _literal(e)
    return isinstance(v, tuple) and len(v) == 3 and isinstance(v[0], int) and isinstance(v[1], int) \
        and v[0] >= 0 and v[1] >= 1 and v[2] == b""


def run(ctx: Context):
    idx = ctx.idx
    cg = get_callgraph(idx)
    pub = idx.cls(PUB)
    folder = get_folder(idx)

    # -- 1. non-empty test vectors on every remote write --------------------
    with ctx.rule("C12.1", "R1", "mutable/layout.py: every slot_testv_and_readv_and_writev call sends self._testvs for "
                  "its own share number, and self._testvs is non-empty on every path to the call", expected=2) as r:
        lay = idx.module("allmydata.mutable.layout")
        sites = [CallSite(f, nd) for (f, nd, _recv, kind) in _sweep(idx, REMOTE) if kind == "call" and f.module is lay]
        for (f, nd, _recv, kind) in _sweep(idx, REMOTE):
            if kind == "ref" and f.module is lay:
                r.violation(f, f.loc(nd), "%s passes %s around as a value: its test vectors cannot be checked" % (short(f), REMOTE))
        for cs in sites:
            fn = cs.fn
            r.site(fn, cs.call)
            cfg = fn.cfg()
            fnorm = FlowNorm(fn)
            tgt = lambda n, _c=cs.call: any(c is _c for c in node_calls(n))
            tnodes = cfg.find(tgt)
            if not tnodes:
                r.violation(fn, cs.loc, "%s issues the remote write from inside a lambda: the state of self._testvs when it "
                            "runs cannot be established" % short(fn))
                continue
            tw = arg(cs.call, 2, "tw_vectors")
            r.require(tw is not None, fn, cs.loc, "no test-and-write vector argument")
            # the entries of the tw_vectors dict
            entries = []
            twr = fnorm.resolve(tnodes[0], tw) if tw is not None else None
            if isinstance(twr, ast.Dict):
                entries += [(tnodes[0], k, v) for k, v in zip(twr.keys, twr.values)]
            if isinstance(tw, ast.Name):
                for n in cfg.nodes:
                    if n.kind == "stmt" and isinstance(n.ast, ast.Assign) and (tw.id + "[]") in node_stores(n):
                        for t in n.ast.targets:
                            if isinstance(t, ast.Subscript) and attr_path(t.value) == tw.id:
                                entries.append((n, t.slice, n.ast.value))
            r.require(bool(entries), fn, cs.loc, "cannot find what %s puts into the test-and-write vectors" % short(fn))
            for (n, k, v) in entries:
                vv = fnorm.resolve(n, v)
                ok = isinstance(vv, ast.Tuple) and len(vv.elts) == 3 and fnorm.norm(n, vv.elts[0]) == "self._testvs"
                r.require(ok, fn, fn.loc(n.ast), "the test vector sent to the server is %s, not self._testvs" % (
                    src(fn, vv.elts[0]) if isinstance(vv, ast.Tuple) and vv.elts else src(fn, vv)))
                r.require(fnorm.norm(n, k) == "self.shnum", fn, fn.loc(n.ast),
                          "vectors are filed under share %s, not self.shnum" % src(fn, k))

            def fills(n):
                for c in calls_at(n, "append"):
                    if call_name(c) == "self._testvs.append" and len(c.args) == 1 and _must_not_exist_vector(c.args[0]):
                        return True
                v = assign_value(n, "self._testvs")
                if isinstance(v, ast.List) and len(v.elts) == 1 and _must_not_exist_vector(v.elts[0]):
                    return True
                return False

            def weak_fill(n):
                """stores / appends to self._testvs that are neither empty-reset nor the must-not-exist vector"""
                for c in calls_at(n, "append"):
                    if call_name(c) == "self._testvs.append" and not fills(n):
                        return c
                return None
            for n in cfg.nodes:
                c = weak_fill(n)
                if c is not None:
                    r.violation(fn, fn.loc(c), "fallback test vector %s does not mean 'share must not exist' "
                                "(expected (offset, length >= 1, b''))" % src(fn, c.args[0]))
            truthy_tv = _fact_gate(fnorm, lambda op, l, rr: (op == "truth" and l == "self._testvs") or
                                   (op in ("<", "!=") and {l, rr} == {"0", "len(self._testvs)"}))
            r.count(len(cfg.nodes))
            for (n, w) in find_path_avoiding(cfg, tgt, gate_edge=truthy_tv, gate_node=fills, kill=stores("self._testvs")):
                r.violation(fn, fn.loc(n.ast), "%s can send an empty test vector: the write would succeed whatever the "
                            "share holds (path: %s)" % (short(fn), w.brief()), w)
        if len(sites) < 2:
            raise AnchorVanished("expected the SDMF and MDMF write proxies to call %s" % REMOTE)

    # -- 2. set_checkstring pins the whole checkstring -----------------------
    with ctx.rule("C12.2", "R5", "set_checkstring stores the test vector (0, len(cs), cs); cs is the packed prefix "
                  "(version, seqnum, root_hash[, salt]) of its own parameters in the proxy's header format", expected=2) as r:
        for (q, fmt_name, header_name, nfields) in ((SDMFW, "PREFIX", "SIGNED_PREFIX", 4),
                                                   (MDMFW, "MDMFCHECKSTRING", "MDMFHEADER", 3)):
            fn = idx.func(q + ".set_checkstring")
            r.site(fn, None)
            cfg = fn.cfg()
            fnorm = FlowNorm(fn)
            ps = first_positional_params(fn)
            vecs = []
            for n in cfg.nodes:
                v = assign_value(n, "self._testvs")
                if isinstance(v, ast.List):
                    vecs += [(n, e) for e in v.elts]
                elif v is not None:
                    r.violation(fn, fn.loc(n.ast), "self._testvs is set to %s" % src(fn, v))
                for c in calls_at(n, "append"):
                    if call_name(c) == "self._testvs.append" and c.args:
                        vecs.append((n, c.args[0]))
            if not vecs:
                raise AnchorVanished("%s stores no test vector" % short(fn))
            cs_names = set()
            for (n, e) in vecs:
                e2 = e.args[0] if isinstance(e, ast.Call) and call_name(e) == "tuple" and e.args else e
                ok = isinstance(e2, (ast.Tuple, ast.List)) and len(e2.elts) == 3 \
                    and isinstance(e2.elts[0], ast.Constant) and e2.elts[0].value == 0 \
                    and norm_plain(e2.elts[1]) == "len(%s)" % norm_plain(e2.elts[2])
                r.require(ok, fn, fn.loc(n.ast), "test vector %s does not compare the whole checkstring at offset 0 "
                          "(expected (0, len(cs), cs))" % src(fn, e))
                if ok and isinstance(e2.elts[2], ast.Name):
                    cs_names.add(e2.elts[2].id)
                elif ok:
                    r.require(False, fn, fn.loc(n.ast), "checkstring expression %s is not a plain local" % src(fn, e2.elts[2]))
            # every definition of the checkstring local: the caller's packed string or pack(fmt, ver, params..)
            try:
                fmt = folder.module_const("mutable.layout", fmt_name)
                header = folder.module_const("mutable.layout", header_name)
            except NotConstant as e:
                raise AnalysisError("cannot fold %s / %s: %s" % (fmt_name, header_name, e))
            r.require(isinstance(fmt, str) and isinstance(header, str) and header.replace(" ", "").startswith(fmt.replace(" ", "")),
                      fn, fn.loc(), "%s=%r is not a prefix of the share header format %s=%r" % (fmt_name, fmt, header_name, header))
            r.require(struct_value_count(fmt) == nfields, fn, fn.loc(), "%s has %s fields" % (fmt_name, struct_value_count(fmt)))
            n_pack = 0
            for nm in cs_names:
                for d in all_defs(fn).get(nm, []):
                    if isinstance(d, ast.Name) and d.id == ps[0]:
                        continue
                    if isinstance(d, ast.Call) and call_name(d) == "struct.pack":
                        n_pack += 1
                        a = d.args
                        want = ps[:nfields - 1]
                        ok = len(a) == nfields + 1 and isinstance(a[0], ast.Name) and a[0].id == fmt_name \
                            and [x.id if isinstance(x, ast.Name) else None for x in a[2:]] == want
                        r.require(ok, fn, fn.loc(d), "checkstring is packed as %s (expected struct.pack(%s, <version>, %s))" % (
                            src(fn, d), fmt_name, ", ".join(want)))
                        # version byte agrees with the one the proxy writes into its own header
                        ver = a[1].value if len(a) > 1 and isinstance(a[1], ast.Constant) else None
                        own = _own_header_version(idx, q)
                        r.require(ver is not None and ver == own, fn, fn.loc(d), "checkstring version byte %r differs from the "
                                  "version %r the proxy writes" % (ver, own))
                        continue
                    r.violation(fn, fn.loc(d) if d is not None else fn.loc(), "checkstring is taken from %s" % (
                        src(fn, d) if d is not None else "an opaque binding"))
            r.require(n_pack >= 1, fn, fn.loc(), "%s no longer packs a checkstring from (seqnum, root_hash..)" % short(fn))

    # -- 3. the publisher pins each share to the version it saw --------------
    with ctx.rule("C12.3", "R1/R2", "Publish.publish/update: a writer for (server, shnum) in the servermap's known shares "
                  "always gets set_checkstring(seqnum, root_hash, salt) of exactly that entry; bad shares get their "
                  "recorded checkstring", expected=3) as r:
        for mname in ("publish", "update"):
            _publisher_checkstrings(r, idx.func(PUB + "." + mname), need_bad=(mname == "publish"))

    # -- 4. surprise detection -------------------------------------------------
    with ctx.rule("C12.4", "R2/R4", "_got_write_answer: wrote false => self.surprised = True; a surprise share with a "
                  "different checkstring => self.surprised = True; only publish()/update() store anything but True",
                  expected=6) as r:
        ga = idx.func(PUB + "._got_write_answer")
        _not_wrote_surprised(r, ga)
        _mismatch_surprised(r, ga)
        _surprised_discipline(r, idx, cg, pub)

    # -- 5. the answer reaches _got_write_answer ------------------------------
    with ctx.rule("C12.5", "E7", "every writer Deferred hands the server's (wrote, read_data) unchanged to "
                  "_got_write_answer for that writer; the proxies return the remote call's own Deferred", expected=3) as r:
        fp = idx.func(PUB + ".finish_publishing")
        _answer_chain(r, idx, fp)
        for q in (SDMFW, MDMFW):
            _returns_remote(r, idx, idx.func(q + ".finish_publishing"), 0)

    # -- 6. success only when not surprised -----------------------------------
    with ctx.rule("C12.6", "R4/R1", "Publish._done is called only from _push and only after observing not self.surprised",
                  expected=2) as r:
        push = idx.func(PUB + "._push")
        idx.func(PUB + "._done")
        uses = _method_uses(idx, cg, "_done", pub)
        if not uses:
            raise AnchorVanished("no caller of Publish._done")
        r.site("callers/references of Publish._done: %d" % len(uses))
        for (f, nd, kind) in uses:
            if kind == "call" and f is push:
                continue
            r.violation(f, f.loc(nd), "%s %s _done: success can be reported although a surprise was seen" % (
                short(f), "calls" if kind == "call" else "passes around"))
        cfg = push.cfg()
        fnorm = FlowNorm(push)
        tgt = has_call("_done")
        tn = cfg.find(tgt)
        if not tn:
            raise AnchorVanished("_push no longer calls _done")
        r.site(push, tn[0].ast, "gate not surprised")
        r.count(len(cfg.nodes))
        gate = _fact_gate(fnorm, lambda op, l, rr: op == "false" and l == "self.surprised")
        for (n, w) in find_path_avoiding(cfg, tgt, gate_edge=gate, kill=stores("self.surprised")):
            r.violation(push, push.loc(n.ast), "_done() is reachable without having observed not self.surprised "
                        "(path: %s)" % w.brief(), w)

    # -- 7. surprised => UncoordinatedWriteError ---------------------------------
    with ctx.rule("C12.7", "R3", "_failure delivers UncoordinatedWriteError to done_deferred when self.surprised "
                  "(NotEnoughServersError otherwise)", expected=1) as r:
        _failure_mapping(r, idx.func(PUB + "._failure"))

    # -- 8. modify() retry discipline ---------------------------------------------
    with ctx.rule("C12.8", "R1/E7", "_modify_and_retry: _retry traps UncoordinatedWriteError before backing off, re-runs "
                  "with first_time=False, every attempt re-surveys before _modify_once, the modifier sees the fresh download",
                  expected=4) as r:
        _retry_discipline(r, idx)

    # -- 9. server side: writes only under passing tests --------------------------
    with ctx.rule("C12.9", "R3", "StorageServer.slot_testv_and_readv_and_writev applies write vectors only when "
                  "_evaluate_test_vectors over the same vectors/shares is true and returns that verdict; "
                  "_evaluate_test_vectors returns False on the first failing vector", expected=3) as r:
        _server_side(r, idx)

    # -- 10. the answer handler cannot die before it marks the surprise ----------
    with ctx.rule("C12.10", "R1", "_got_write_answer: no local is read before it is bound on a path that can still reach "
                  "self.surprised = True (the NameError would be swallowed by finish_publishing's DeferredList)",
                  expected=1) as r:
        _bound_before_marking(r, idx.func(PUB + "._got_write_answer"))

    # -- 11. what is compared, and what is withheld from the comparison -----------
    with ctx.rule("C12.11", "R1/E6", "_got_write_answer compares self._checkstring with answer[1][shnum][i] for every shnum "
                  "of a surprise set that starts from all shares in the answer; only this writer's share and shares tied "
                  "to the answering server are withheld; both proxies send a read vector with index i; publish()/update() give "
                  "every writer the .server the handler reads", expected=6) as r:
        _surprise_set(r, idx, idx.func(PUB + "._got_write_answer"))
        for mname in ("publish", "update"):
            _writer_server_attr(r, idx.func(PUB + "." + mname), idx.func(PUB + "._got_write_answer"))

    # -- 12. every answer is awaited before success can be reported ---------------
    with ctx.rule("C12.12", "E7", "Publish.finish_publishing returns a DeferredList over a list that received every writer "
                  "Deferred; push_everything_else runs _push only as a callback of it", expected=3) as r:
        _answers_awaited(r, idx)

    # -- 13. a surprise is reported, not dropped -----------------------------------
    with ctx.rule("C12.13", "R1", "_push: after observing self.surprised every path calls self._failure()", expected=1) as r:
        _surprised_fails(r, idx.func(PUB + "._push"))

    # -- 14. the publish result travels back through modify() ----------------------
    with ctx.rule("C12.14", "E7", "modify(): _apply returns the upload's Deferred, _modify_once returns the Deferred _apply is "
                  "chained on, the callbacks in _modify_and_retry/_retry return the calls they make, and both return their "
                  "Deferred - an UncoordinatedWriteError reaches _retry and the caller", expected=5) as r:
        _modify_chain_returns(r, idx)

    # -- 15. no zero-length test vector ----------------------------------------------
    with ctx.rule("C12.15", "R1", "set_checkstring stores (0, len(cs), cs) only where cs is known to be non-empty "
                  "((0, 0, b'') is satisfied by any share contents)", expected=2) as r:
        for q in (SDMFW, MDMFW):
            _nonempty_vector(r, idx.func(q + ".set_checkstring"))


# --------------------------------------------------------------- rule bodies
def _own_header_version(idx, q):
    """Version byte the proxy itself packs at offset 0 (get_signable for SDMF, get_checkstring for MDMF)."""
    fn = idx.func(q + (".get_signable" if q == SDMFW else ".get_checkstring"))
    for c in calls_in_func(fn, "pack"):
        if len(c.args) > 1 and isinstance(c.args[1], ast.Constant):
            return c.args[1].value
    raise AnchorVanished("%s no longer packs a header" % short(fn))


def _publisher_checkstrings(r, fn, need_bad):
    cfg = fn.cfg()
    fnorm = FlowNorm(fn)
    calls = [(n, c) for n in cfg.nodes for c in calls_at(n, "set_checkstring")]
    three = [(n, c) for (n, c) in calls if len(c.args) == 3]
    one = [(n, c) for (n, c) in calls if len(c.args) == 1]
    # writers are built as writer_class(shnum, server.get_storage_server(), ...)
    creators = [n for n in cfg.nodes if n.kind == "stmt" and isinstance(n.ast, ast.Assign)
                and isinstance(n.ast.value, ast.Call) and len(n.ast.value.args) >= 2
                and isinstance(n.ast.value.args[1], ast.Call) and call_tail(n.ast.value.args[1]) == "get_storage_server"]
    if not creators:
        raise AnchorVanished("%s: writer construction not found" % short(fn))
    if not three:
        r.site(fn, creators[0].ast, "known-share checkstring (missing)")
        r.violation(fn, fn.loc(creators[0].ast), "%s never gives a writer the (seqnum, root_hash, salt) the servermap recorded "
                    "for its share: every write falls back to the 'must not exist' vector or a stale one" % short(fn))
        return
    key_re = re.compile(r"^" + re.escape(KS) + r"\[\((\w+), (\w+),\)\]\[0\]\[0\]$")
    keys = set()
    for (n, c) in three:
        r.site(fn, c, "known-share checkstring")
        got = [fnorm.norm(n, a) for a in c.args]
        m = key_re.match(got[0])
        if not m:
            r.violation(fn, fn.loc(c), "writer's expected seqnum is %s, not the seqnum of this (server, shnum)'s entry in "
                        "the servermap's known shares" % got[0])
            continue
        S, Nn = m.group(1), m.group(2)
        keys.add((S, Nn))
        want = ["%s[(%s, %s,)][0][%d]" % (KS, S, Nn, i) for i in range(3)]
        r.require(got == want, fn, fn.loc(c), "set_checkstring gets %s; expected (seqnum, root_hash, salt) = entries 0,1,2 "
                  "of the version recorded for (%s, %s)" % (got, S, Nn))
        # the receiver is the writer built for that server and share number
        recv = c.func.value
        ctor = fnorm.resolve(n, recv)
        ok = isinstance(ctor, ast.Call) and len(ctor.args) >= 2 and fnorm.norm(n, ctor.args[0]) == Nn \
            and fnorm.norm(n, ctor.args[1]) == S + ".get_storage_server()"
        r.require(ok, fn, fn.loc(c), "the writer receiving the checkstring of (%s, %s) is %s" % (S, Nn, src(fn, ctor)))
        member = _fact_gate(fnorm, lambda op, l, rr, _k="(%s, %s,)" % (S, Nn): op == "in" and l == _k and rr == KS)
        r.count(len(cfg.nodes))
        for (t, w) in find_path_avoiding(cfg, lambda x, _n=n: x is _n, gate_edge=member, kill=stores_any([S, Nn])):
            r.violation(fn, fn.loc(c), "set_checkstring for a known share is reached without the membership test "
                        "(path: %s)" % w.brief(), w)
    for (n, c) in one:
        r.site(fn, c, "bad-share checkstring")
        got = fnorm.norm(n, c.args[0])
        m = re.match(r"^self\.bad_share_checkstrings\[\((\w+), (\w+),\)\]$", got)
        r.require(bool(m), fn, fn.loc(c), "bad share's writer gets %s, not its recorded checkstring" % got)
        if m:
            member = _fact_gate(fnorm, lambda op, l, rr, _k="(%s, %s,)" % (m.group(1), m.group(2)):
                                op == "in" and l == _k and rr == "self.bad_share_checkstrings")
            for (t, w) in find_path_avoiding(cfg, lambda x, _n=n: x is _n, gate_edge=member):
                r.violation(fn, fn.loc(c), "bad-share checkstring used without the membership test", w)
    if need_bad:
        if not one:
            r.site(fn, creators[0].ast, "bad-share checkstring (missing)")
            r.violation(fn, fn.loc(creators[0].ast), "%s no longer gives writers of bad shares the checkstring recorded by "
                        "the servermap" % short(fn))
        # bad_share_checkstrings is filled from the servermap's bad shares
        fed = False
        for n in cfg.nodes:
            if "self.bad_share_checkstrings[]" in node_stores(n) and isinstance(n.ast, ast.Assign):
                fed = fed or any(call_tail(c) == "get_bad_shares" for c in calls_feeding(fn, n.ast.value))
        r.require(fed, fn, fn.loc(), "bad_share_checkstrings is not filled from servermap.get_bad_shares()")
    # every writer created for a known share gets the call before the loop moves on
    for cn in creators:
        def transfer(n, lab, nxt, st):
            has, notin = st
            if any(len(c.args) == 3 for c in calls_at(n, "set_checkstring")) and lab != "exc":
                has = True
            f = fnorm.edge_fact(n, lab)
            if f and f[0] == "not in" and f[2] == KS and any(f[1] == "(%s, %s,)" % k for k in keys):
                notin = True
            if n.kind in ("iter",) and n is not cn:
                return None          # stop at the loop head (checked on arrival)
            if lab == "exc":
                return None
            return (has, notin)
        visited, parent = explore(cfg, (False, False), transfer, start=cn)
        r.count(len(visited))
        for (nid, st) in sorted(visited):
            nd = cfg.nodes[nid]
            if nd.kind in ("iter", "exit") and nd is not cn and not (st[0] or st[1]):
                w = witness(cfg, parent, (nid, st))
                r.violation(fn, fn.loc(cn.ast), "a writer for a share the servermap knows can be left without the old "
                            "checkstring (it would use the 'must not exist' vector or a stale one) (path: %s)" % w.brief(), w)
                break


def _not_wrote_surprised(r, ga):
    cfg = ga.cfg()
    fnorm = FlowNorm(ga)
    ps = first_positional_params(ga)
    if len(ps) < 2:
        raise AnchorVanished("_got_write_answer(answer, writer, ..) signature changed")
    ans = ps[0]
    seen = [False]

    def transfer(n, lab, nxt, st):
        wrote_true, no_answer, sset = st
        f = fnorm.edge_fact(n, lab)
        if f:
            if f[1] == ans + "[0]" and f[2] is None:
                seen[0] = True
                if f[0] == "truth":
                    wrote_true = True
            if f[0] == "false" and f[1] == ans and f[2] is None:
                no_answer = True
        if n.kind == "stmt" and "self.surprised" in node_stores(n):
            v = assign_value(n, "self.surprised")
            sset = isinstance(v, ast.Constant) and v.value is True
        return (wrote_true, no_answer, sset)
    visited, parent = explore(cfg, (False, False, False), transfer)
    r.count(len(visited))
    r.site(ga, None, "not wrote => surprised")
    if not seen[0]:
        raise AnchorVanished("_got_write_answer no longer tests answer[0] ('wrote')")
    for (nid, st) in sorted(visited):
        if cfg.nodes[nid].kind == "exit" and not (st[0] or st[1] or st[2]):
            w = witness(cfg, parent, (nid, st))
            r.violation(ga, ga.loc(), "_got_write_answer can return with wrote false and self.surprised unset: a rejected "
                        "test-and-set write is not reported as an uncoordinated write (path: %s)" % w.brief(), w)
            break


def _mismatch_surprised(r, ga):
    """A surprise share whose checkstring != self._checkstring always leads to self.surprised = True."""
    cfg = ga.cfg()
    fnorm = FlowNorm(ga)
    seen = [False]

    def transfer(n, lab, nxt, st):
        mism, true_locals, sset = st
        f = fnorm.edge_fact(n, lab)
        if f and f[0] == "!=" and "self._checkstring" in (f[1], f[2]):
            seen[0] = True
            mism = True
        # a local known to be True decides a plain `if local:` test
        if n.kind == "test" and isinstance(n.ast, ast.Name) and n.ast.id in true_locals and isinstance(lab, tuple) \
                and lab[0] == "F":
            return None
        if n.kind in ("stmt", "iter", "with", "except"):
            st_names = {s for s in node_stores(n) if "." not in s and not s.endswith("[]")}
            if st_names:
                tl = set(true_locals) - st_names
                if n.kind == "stmt" and isinstance(n.ast, ast.Assign) and isinstance(n.ast.value, ast.Constant) \
                        and n.ast.value.value is True:
                    tl |= {t.id for t in n.ast.targets if isinstance(t, ast.Name)}
                true_locals = frozenset(tl)
            if "self.surprised" in node_stores(n):
                v = assign_value(n, "self.surprised")
                sset = isinstance(v, ast.Constant) and v.value is True
        return (mism, true_locals, sset)
    visited, parent = explore(cfg, (False, frozenset(), False), transfer)
    r.count(len(visited))
    r.site(ga, None, "different checkstring => surprised")
    if not seen[0]:
        r.violation(ga, ga.loc(), "_got_write_answer no longer compares a surprise share's whole checkstring with "
                    "self._checkstring: shares of another version written behind our back go unnoticed")
        return
    for (nid, st) in sorted(visited, key=lambda x: (x[0], x[1][0], sorted(x[1][1]), x[1][2])):
        if cfg.nodes[nid].kind == "exit" and st[0] and not st[2]:
            w = witness(cfg, parent, (nid, st))
            r.violation(ga, ga.loc(), "a surprise share with a different checkstring can be passed over without "
                        "self.surprised = True (path: %s)" % w.brief(), w)
            break


def _surprised_discipline(r, idx, cg, pub):
    starters = {idx.func(PUB + ".publish").qual: idx.func(PUB + ".publish"),
                idx.func(PUB + ".update").qual: idx.func(PUB + ".update")}
    n_s = 0
    for (f, nd) in cg.attr_stores("surprised"):
        if f.cls is not pub or attr_path(nd) != "self.surprised":
            continue
        n_s += 1
        node = [n for n in f.cfg().nodes if n.kind == "stmt" and "self.surprised" in node_stores(n)
                and any(x is nd for x in ast.walk(n.ast))]
        v = assign_value(node[0], "self.surprised") if node else None
        r.site(f, nd, "surprised store")
        if isinstance(v, ast.Constant) and v.value is True:
            continue
        r.require(f.qual in starters, f, f.loc(nd), "%s stores %s into self.surprised: an observed surprise can be forgotten" % (
            short(f), src(f, v) if v is not None else "?"))
    if n_s < 4:
        raise AnchorVanished("stores of self.surprised vanished (%d found)" % n_s)
    for f in starters.values():
        cfg = f.cfg()
        clr = stores("self.surprised")
        if not cfg.find(clr):
            raise AnchorVanished("%s no longer initialises self.surprised" % short(f))
        for (s, w) in find_path_from_to_avoiding(cfg, has_call("_push"), lambda n: False, ends=lambda n: clr(n)):
            r.violation(f, f.loc(s.ast), "%s clears self.surprised after _push has started the writes" % short(f), w)
        for (n, w) in find_path_avoiding(cfg, has_call("_push"), gate_node=clr):
            r.violation(f, f.loc(n.ast), "%s starts _push without initialising self.surprised" % short(f), w)


def _answer_chain(r, idx, fn):
    cfg = fn.cfg()
    dvars = []
    for n in cfg.nodes:
        if n.kind == "stmt" and isinstance(n.ast, ast.Assign) and isinstance(n.ast.value, ast.Call) \
                and call_tail(n.ast.value) == "finish_publishing" and len(n.ast.targets) == 1 \
                and isinstance(n.ast.targets[0], ast.Name) and isinstance(n.ast.value.func, ast.Attribute) \
                and isinstance(n.ast.value.func.value, ast.Name) and n.ast.value.func.value.id != "self":
            dvars.append((n, n.ast.targets[0].id, n.ast.value.func.value.id))
    if not dvars:
        raise AnchorVanished("no 'd = <writer>.finish_publishing()' in %s" % short(fn))
    for (dn, dv, wv) in dvars:
        r.site(fn, dn.ast, "writer Deferred %s" % dv)
        intact, done = True, False
        for reg in registrations(fn, dv):
            if reg.kind == "eb":
                continue
            name = attr_path(reg.target) if isinstance(reg.target, (ast.Attribute, ast.Name)) else ""
            if name == "self._got_write_answer":
                a = _reg_args(reg, "ok")
                r.require(intact, fn, fn.loc(reg.call), "the server's answer is replaced by an earlier callback before it "
                          "reaches _got_write_answer")
                r.require(bool(a) and isinstance(a[0], ast.Name) and a[0].id == wv, fn, fn.loc(reg.call),
                          "_got_write_answer is registered for %s, not for the writer %s whose Deferred this is" % (
                              src(fn, a[0]) if a else "no writer", wv))
                done = True
                break
            if not _is_pass_through(idx, fn, reg.target):
                intact = False
        r.require(done, fn, fn.loc(dn.ast), "_got_write_answer is not registered as a callback on the writer Deferred %s: "
                  "rejected writes and surprise shares are never examined" % dv)


def _returns_remote(r, idx, fn, depth):
    cfg = fn.cfg()
    fnorm = FlowNorm(fn)
    rets = cfg.find(is_return)
    if not rets:
        raise AnchorVanished("%s returns nothing" % short(fn))
    if depth == 0:
        r.site(fn, None, "proxy result")
    for (n, w) in find_path_avoiding(cfg, lambda n: n.kind == "exit", gate_node=is_return):
        r.violation(fn, fn.loc(), "%s can fall off its end and return None instead of the write's Deferred" % short(fn), w)
    for n in rets:
        v = n.ast.value
        rv = fnorm.resolve(n, v) if v is not None else None
        if isinstance(rv, ast.Call) and call_tail(rv) == REMOTE:
            if isinstance(v, ast.Name):
                for reg in registrations(fn, v.id):
                    for t in [reg.target] + ([reg.errtarget] if reg.kind == "pair" and reg.errtarget is not None else []):
                        r.require(_is_pass_through(idx, fn, t), fn, fn.loc(reg.call),
                                  "%s: callback %s on the write Deferred does not return its argument, so the publisher "
                                  "never sees the server's (wrote, read_data) answer" % (short(fn), src(fn, t)))
            continue
        if isinstance(rv, ast.Call) and call_name(rv).startswith("self.") and depth < 2 and fn.cls is not None:
            g = fn.cls.lookup(call_tail(rv))
            if g is not None:
                _returns_remote(r, idx, g, depth + 1)
                continue
        r.violation(fn, fn.loc(n.ast), "%s returns %s, not the Deferred of %s" % (short(fn), src(fn, v), REMOTE))


def _failure_mapping(r, fl):
    cfg = fl.cfg()
    fnorm = FlowNorm(fl)
    ERRS = ("NotEnoughServersError", "UncoordinatedWriteError")

    def delivers(n):
        for c in node_calls(n):
            if call_tail(c) == "eventually" and c.args and attr_path(c.args[0]) in (
                    "self.done_deferred.callback", "self.done_deferred.errback"):
                return c.args[1] if len(c.args) > 1 else None
            if call_name(c) in ("self.done_deferred.callback", "self.done_deferred.errback"):
                return c.args[0] if c.args else None
        return None
    dl = [n for n in cfg.nodes if n.kind == "stmt" and delivers(n) is not None]
    if not dl:
        raise AnchorVanished("_failure no longer delivers to done_deferred")

    def classify(v, env):
        if isinstance(v, ast.Name):
            return env.get(v.id)
        if isinstance(v, ast.Call) and call_tail(v) in ERRS:
            return call_tail(v)
        if isinstance(v, ast.Call) and call_tail(v) == "Failure" and v.args:
            return classify(v.args[0], env) or "?"
        return None

    def transfer(n, lab, nxt, st):
        sur, envt, delivered = st
        f = fnorm.edge_fact(n, lab)
        if f and f[1] == "self.surprised" and f[2] is None:
            sur = "T" if f[0] == "truth" else "F"
        if n.kind == "stmt" and isinstance(n.ast, ast.Assign) and len(n.ast.targets) == 1 \
                and isinstance(n.ast.targets[0], ast.Name):
            env = dict(envt)
            c = classify(n.ast.value, env)
            if c is not None:
                env[n.ast.targets[0].id] = c
            else:
                env.pop(n.ast.targets[0].id, None)
            envt = tuple(sorted(env.items()))
        if n.kind == "stmt":
            a = delivers(n)
            if a is not None:
                delivered = classify(a, dict(envt)) or "?"
        return (sur, envt, delivered)
    visited, parent = explore(cfg, (None, (), None), transfer)
    r.count(len(visited))
    r.site(fl, dl[0].ast, "error class by surprised")
    want = {"T": "UncoordinatedWriteError", "F": "NotEnoughServersError"}
    seen = set()
    for (nid, st) in sorted(visited, key=lambda x: (x[0], str(x[1]))):
        if cfg.nodes[nid].kind != "exit":
            continue
        sur, _env, delivered = st
        w = witness(cfg, parent, (nid, st))
        if delivered is None:
            r.violation(fl, fl.loc(), "_failure can return without delivering an error to done_deferred (path: %s)" % w.brief(), w)
        elif sur is None:
            r.violation(fl, fl.loc(), "_failure picks the error without looking at self.surprised (path: %s)" % w.brief(), w)
        elif delivered != want[sur] and (sur, delivered) not in seen:
            seen.add((sur, delivered))
            r.violation(fl, fl.loc(), "_failure delivers %s when self.surprised is %s (expected %s)" % (
                delivered, {"T": "true", "F": "false"}[sur], want[sur]), w)


def _retry_discipline(r, idx):
    mr = idx.func(MFV + "._modify_and_retry")
    rt = mr.nested.get("_retry")
    if rt is None:
        raise AnchorVanished("_modify_and_retry._retry")
    fparam = first_positional_params(rt)[0]
    # (a) trap before any retry action
    cfg = rt.cfg()

    def traps(n):
        for c in calls_at(n, "trap"):
            if call_name(c) == fparam + ".trap" and len(c.args) == 1 and isinstance(c.args[0], ast.Name) \
                    and c.args[0].id == "UncoordinatedWriteError" and not c.keywords:
                return True
        return False
    acts = has_call(("maybeDeferred", "backoffer", "_modify_and_retry", "_modify_once"), into_lambda=True)
    if not cfg.find(acts):
        raise AnchorVanished("_retry no longer backs off / retries")
    r.site(rt, None, "trap before retry")
    r.count(len(cfg.nodes))
    for (n, w) in find_path_avoiding(cfg, acts, gate_node=traps, kill=stores(fparam)):
        r.violation(rt, rt.loc(n.ast), "_retry backs off and retries without %s.trap(UncoordinatedWriteError): errors other "
                    "than an uncoordinated write are retried too (path: %s)" % (fparam, w.brief()), w)
    # (b) the retry passes first_time=False
    recs = [c for c in calls_in_func(rt, "_modify_and_retry", into_lambda=True)]
    if not recs:
        raise AnchorVanished("_retry no longer re-runs _modify_and_retry")
    ps = first_positional_params(mr)
    for c in recs:
        r.site(rt, c, "retry call")
        ft = arg(c, 2, ps[2] if len(ps) > 2 else None)
        r.require(isinstance(ft, ast.Constant) and ft.value is False, rt, rt.loc(c),
                  "the retry is started with first_time=%s; it must be False so that the servermap is rebuilt in "
                  "MODE_CHECK and an unchanged result is still republished" % (src(rt, ft) if ft is not None else "?"))
        a01 = [a.id if isinstance(a, ast.Name) else None for a in c.args[:2]]
        r.require(a01 == ps[:2], rt, rt.loc(c), "the retry changes modifier/backoffer: %s" % src(rt, c))
    # (c) chain in _modify_and_retry: survey -> _modify_once -> errback _retry
    regs = registrations(mr)
    once = [i for i, x in enumerate(regs) if x.kind in ("cb",) and _calls_inside(idx, mr, x.target, "_modify_once")]
    retry = [i for i, x in enumerate(regs) if (x.kind == "eb" and isinstance(x.target, ast.Name) and x.target.id == "_retry")
             or (x.kind == "pair" and isinstance(x.errtarget, ast.Name) and x.errtarget.id == "_retry")]
    r.site(mr, None, "chain " + " ".join(map(repr, regs)))
    r.require(bool(once), mr, mr.loc(), "_modify_once is not chained after the servermap update")
    r.require(bool(retry), mr, mr.loc(), "_retry is not registered as an errback: an UncoordinatedWriteError is not retried")
    if once and retry:
        r.require(once[0] < retry[0] and regs[once[0]].recv == regs[retry[0]].recv, mr, mr.loc(regs[retry[0]].call),
                  "_retry is registered before _modify_once (or on another Deferred): a publish collision never reaches it")
        dv = regs[once[0]].recv
        cfgm = mr.cfg()
        rd = C.reaching_defs(cfgm)
        node = [n for n in cfgm.nodes if any(c is regs[once[0]].call for c in node_calls(n))]
        if not node or not dv:
            raise AnalysisError("_modify_and_retry: registration node not found")
        defs = rd.get(node[0].id, {}).get(dv, frozenset())
        r.require(bool(defs), mr, mr.loc(), "Deferred %s has no definition" % dv)
        for did in defs:
            dnode = cfgm.nodes[did] if did >= 0 else None
            v = assign_value(dnode, dv) if dnode is not None else None
            ok = isinstance(v, ast.Call) and call_name(v) == "self._update_servermap"
            r.require(ok, mr, mr.loc(dnode.ast) if dnode is not None else mr.loc(),
                      "an attempt starts from %s instead of a fresh servermap update: the retry would reuse the survey "
                      "that just collided" % (src(mr, v) if v is not None else "a parameter"))
        # first_time decides the mode: the non-first attempt must not be MODE_WRITE-by-default only if first_time
        # (value-level; not decided)
    # (d) _modify_once applies the modifier to the downloaded contents
    mo = idx.func(MFV + "._modify_once")
    ap = mo.nested.get("_apply")
    if ap is None:
        raise AnchorVanished("_modify_once._apply")
    r.site(mo, None, "modifier input")
    regs = registrations(mo)
    apply_regs = [x for x in regs if x.kind == "cb" and isinstance(x.target, ast.Name) and x.target.id == "_apply"]
    r.require(bool(apply_regs), mo, mo.loc(), "_apply is not a callback of the download")
    if apply_regs:
        dv = apply_regs[0].recv
        defs = [n.value for n in func_own_nodes(mo) if isinstance(n, ast.Assign) and any(attr_path(t) == dv for t in n.targets)]
        ok = bool(defs) and all(isinstance(v, ast.Call) and call_name(v) in ("self._try_to_download_data", "self._read")
                                for v in defs)
        r.require(ok, mo, mo.loc(), "_apply is fed by %s, not by a download of this version" % (
            ", ".join(src(mo, v) for v in defs) or "nothing"))
    p0 = first_positional_params(ap)[0]
    mcalls = [c for c in calls_in_func(ap, "modifier")]
    r.require(bool(mcalls), ap, ap.loc(), "_apply no longer calls the modifier")
    for c in mcalls:
        r.require(bool(c.args) and isinstance(c.args[0], ast.Name) and c.args[0].id == p0, ap, ap.loc(c),
                  "the modifier is applied to %s, not to the contents just downloaded" % (src(ap, c.args[0]) if c.args else "nothing"))


def _calls_inside(idx, fn, target, tail):
    info = _callable_info(idx, fn, target)
    if info is None:
        return False
    return bool(calls_in_func(info[0], tail, into_lambda=True))


def _server_side(r, idx):
    fn = idx.func(SRV + "." + REMOTE)
    cfg = fn.cfg()
    fnorm = FlowNorm(fn)
    ps = first_positional_params(fn)
    if len(ps) < 3:
        raise AnchorVanished("StorageServer.%s signature" % REMOTE)
    twp = ps[2]
    wn = [(n, c) for n in cfg.nodes for c in calls_at(n, "_evaluate_write_vectors")]
    if not wn:
        raise AnchorVanished("no _evaluate_write_vectors call in StorageServer.%s" % REMOTE)
    # the verdict is identified by its defining call (not by a normal-form string): an expression is "the verdict"
    # when, after stripping not / bool() and following local copies, it is that very call node
    ev_calls = [(n, c) for n in cfg.nodes for c in calls_at(n, "_evaluate_test_vectors")]
    if not ev_calls:
        raise AnchorVanished("no _evaluate_test_vectors call in StorageServer.%s" % REMOTE)

    def verdict_of(n, e, pol, accept):
        """(True, polarity) when `e` evaluated at node n is one of the `accept`ed verdict calls (possibly negated)."""
        for _ in range(8):
            if isinstance(e, ast.UnaryOp) and isinstance(e.op, ast.Not):
                e, pol = e.operand, not pol
            elif isinstance(e, ast.Call) and isinstance(e.func, ast.Name) and e.func.id == "bool" and len(e.args) == 1 \
                    and not e.keywords:
                e = e.args[0]
            elif isinstance(e, ast.Name):
                d = fnorm.env_at(n).defs.get(e.id)
                if d is None:
                    return (False, pol)
                e = d
            else:
                break
        return (any(e is c for c in accept), pol)

    def verdict_edge(accept, want_true):
        def gate(n, lab):
            if n.kind != "test" or not isinstance(lab, tuple):
                return False
            hit, pol = verdict_of(n, n.ast, lab[0] == "T", accept)
            return hit and pol == want_true
        return gate
    all_accept = []
    for (n, c) in wn:
        r.site(fn, c, "write vectors")
        a_tw = arg(c, 2, "test_and_write_vectors")
        a_sh = arg(c, 3, "shares")
        r.require(a_tw is not None and fnorm.norm(n, a_tw) == twp, fn, fn.loc(c), "write vectors come from %s" % (
            src(fn, a_tw) if a_tw is not None else "?"))
        sh = fnorm.norm(n, a_sh) if a_sh is not None else "?"
        accept = [vc for (vn, vc) in ev_calls if len(vc.args) == 2 and not vc.keywords and call_name(vc).startswith("self.")
                  and fnorm.norm(vn, vc.args[0]) == twp and fnorm.norm(vn, vc.args[1]) == sh]
        all_accept += accept
        r.count(len(cfg.nodes))
        for (t, w) in find_path_avoiding(cfg, lambda x, _n=n: x is _n, gate_edge=verdict_edge(accept, True)):
            r.violation(fn, fn.loc(c), "write vectors are applied without the test vectors over the same shares having "
                        "passed (expected a true test of self._evaluate_test_vectors(%s, %s)) (path: %s)" % (twp, sh, w.brief()), w)
    rets = cfg.find(is_return)
    r.site(fn, rets[0].ast if rets else None, "verdict returned")
    for n in rets:
        v = fnorm.resolve(n, n.ast.value) if n.ast.value is not None else None
        ok = isinstance(v, ast.Tuple) and len(v.elts) == 2
        if ok:
            v0 = v.elts[0]
            hit, pol = verdict_of(n, v0, True, all_accept)
            if hit:
                ok = pol
            elif isinstance(v0, ast.Constant) and isinstance(v0.value, bool):
                # a constant is the verdict where the verdict has been observed to have that value on every path
                ok = not find_path_avoiding(cfg, lambda x, _n=n: x is _n, gate_edge=verdict_edge(all_accept, v0.value))
            else:
                ok = False
        r.require(ok, fn, fn.loc(n.ast), "returns %s: the first element must be the test-vector verdict" % src(fn, n.ast.value))
    # _evaluate_test_vectors
    ev = idx.func(SRV + "._evaluate_test_vectors")
    cfg = ev.cfg()
    fnorm = FlowNorm(ev)
    r.site(ev, None, "failing vector => False")
    fails = []
    for n in cfg.nodes:
        for (d, lab) in cfg.succ[n.id]:
            f = fnorm.edge_fact(n, lab)
            if f and f[0] == "false" and f[2] is None and re.search(r"\.check_testv\(", f[1]):
                fails.append((n, lab, cfg.nodes[d]))
    if len(fails) < 2:
        raise AnchorVanished("_evaluate_test_vectors no longer branches on check_testv for existing and empty shares")
    # test vectors are evaluated against something other than the stored share only when the share is absent
    eps = first_positional_params(ev)
    if len(eps) < 2:
        raise AnchorVanished("_evaluate_test_vectors(test_and_write_vectors, shares) signature changed")
    twv, shp = eps[0], eps[1]
    for n in cfg.nodes:
        for c in calls_at(n, "check_testv"):
            recv = c.func.value if isinstance(c.func, ast.Attribute) else None
            tv = fnorm.norm(n, c.args[0]) if c.args else "?"
            m = re.match(r"^" + re.escape(twv) + r"\[(\w+)\]\[0\]$", tv)
            if not m:
                r.violation(ev, ev.loc(c), "check_testv is given %s, not the test vector of one share of the request" % tv)
                continue
            key = m.group(1)
            if isinstance(recv, ast.Subscript) and fnorm.norm(n, recv.value) == shp:
                r.require(fnorm.norm(n, recv.slice) == key, ev, ev.loc(c), "the test vector of share %s is evaluated against "
                          "share %s" % (key, fnorm.norm(n, recv.slice)))
                continue
            rr0 = fnorm.resolve(n, recv) if recv is not None else None
            if isinstance(rr0, ast.BoolOp) and isinstance(rr0.op, ast.Or):
                rr0 = rr0.values[0]
            if isinstance(rr0, ast.Call) and call_tail(rr0) == "get" and isinstance(rr0.func, ast.Attribute) \
                    and fnorm.norm(n, rr0.func.value) == shp and rr0.args and fnorm.norm(n, rr0.args[0]) == key:
                continue      # shares.get(sharenum, <stand-in>): the stand-in is used only for an absent share
            absent = _fact_gate(fnorm, lambda op, l, rr, _k=key: op == "not in" and l == _k and rr == shp)
            for (t, w) in find_path_avoiding(cfg, lambda x, _n=n: x is _n, gate_edge=absent, kill=stores(key)):
                r.violation(ev, ev.loc(c), "the test vector of share %s is evaluated against %s although the share may exist: "
                            "a 'must not exist' vector passes and the existing share is overwritten (path: %s)" % (
                                key, src(ev, recv) if recv is not None else "?", w.brief()), w)
    for (n, lab, d) in fails:
        visited, parent = explore(cfg, 0, lambda a, b, c, s: None if (is_return(a) or b == "exc") else 0, start=d)
        r.count(len(visited))
        for (nid, _s) in sorted(visited):
            nd = cfg.nodes[nid]
            bad = (nd.kind in ("iter", "exit")) or (is_return(nd) and not returns_const(False)(nd))
            if bad:
                r.violation(ev, ev.loc(n.ast), "after a failing test vector _evaluate_test_vectors can go on (%r) instead "
                            "of returning False" % nd, witness(cfg, parent, (nid, 0)))
                break
    # the accepting return is only the fall-through after the loop
    for n in cfg.find(is_return):
        v = n.ast.value
        r.require(isinstance(v, ast.Constant) and isinstance(v.value, bool), ev, ev.loc(n.ast),
                  "_evaluate_test_vectors returns %s" % src(ev, v))


# ------------------------------------------------------- gap-review additions
_COMPS = (ast.ListComp, ast.SetComp, ast.GeneratorExp, ast.DictComp)
_WRAPPERS = ("set", "list", "frozenset", "tuple", "sorted")


def _target_names(t):
    return {x.id for x in ast.walk(t) if isinstance(x, ast.Name)}


def _local_loads(n, local_names):
    """Loads of function locals evaluated at CFG node `n` (comprehension variables shadow; lambda bodies and nested
    function bodies are not evaluated here)."""
    out = []

    def walk(e, bound):
        if isinstance(e, (ast.Lambda, ast.FunctionDef, ast.AsyncFunctionDef, ast.ClassDef)):
            return
        if isinstance(e, _COMPS):
            b = set(bound)
            for g in e.generators:
                walk(g.iter, b)
                b |= _target_names(g.target)
                for c in g.ifs:
                    walk(c, b)
            for part in ([e.key, e.value] if isinstance(e, ast.DictComp) else [e.elt]):
                walk(part, b)
            return
        if isinstance(e, ast.Name):
            if isinstance(e.ctx, ast.Load) and e.id in local_names and e.id not in bound:
                out.append(e)
            return
        if isinstance(e, ast.AugAssign) and isinstance(e.target, ast.Name) and e.target.id in local_names:
            out.append(e.target)
        for c in ast.iter_child_nodes(e):
            walk(c, bound)
    for e in node_exprs(n):
        walk(e, frozenset())
    return out


class _Unknown:
    """'set' of every name that is not in `known` (for _local_loads)."""
    def __init__(self, known):
        self.known = known

    def __contains__(self, name):
        return name not in self.known


def _module_level_names(mod):
    """Names bound in the module's global scope (function and class bodies are other scopes) and whether a star import
    makes the set open."""
    names, star = set(), [False]

    def walk(x):
        if isinstance(x, (ast.FunctionDef, ast.AsyncFunctionDef, ast.ClassDef)):
            names.add(x.name)
            for d in x.decorator_list:
                walk(d)
            return
        if isinstance(x, ast.Lambda) or isinstance(x, _COMPS):
            return
        if isinstance(x, ast.Name) and isinstance(x.ctx, ast.Store):
            names.add(x.id)
        elif isinstance(x, (ast.Import, ast.ImportFrom)):
            for al in x.names:
                if al.name == "*":
                    star[0] = True
                else:
                    names.add((al.asname or al.name).split(".")[0])
        elif isinstance(x, ast.ExceptHandler) and x.name:
            names.add(x.name)
        for c in ast.iter_child_nodes(x):
            walk(c)
    for st in mod.tree.body:
        walk(st)
    # names that functions publish with a `global` statement
    for x in ast.walk(mod.tree):
        if isinstance(x, ast.Global):
            names.update(x.names)
    return names, star[0]


def _bound_before_marking(r, ga):
    cfg = ga.cfg()
    r.site(ga, None, "locals bound before use")

    def marks(n):
        if n.kind != "stmt" or "self.surprised" not in node_stores(n):
            return False
        v = assign_value(n, "self.surprised")
        return isinstance(v, ast.Constant) and v.value is True
    mk = [n for n in cfg.nodes if marks(n)]
    if not mk:
        raise AnchorVanished("_got_write_answer no longer sets self.surprised = True")
    # nodes from which a marking is still ahead (normal edges)
    ahead = {n.id for n in mk}
    work = list(ahead)
    while work:
        x = work.pop()
        for (p, lab) in cfg.pred[x]:
            if lab != "exc" and p not in ahead:
                ahead.add(p)
                work.append(p)
    local_names = set()
    for n in cfg.nodes:
        local_names |= {s for s in node_stores(n) if "." not in s and not s.endswith("[]")}
    local_names -= set(ga.params)
    known, star = _module_level_names(ga.module)
    known |= set(dir(builtins)) | set(ga.params)
    p = ga.parent
    while p is not None:
        known |= set(p.params) | {x.id for x in func_own_nodes(p) if isinstance(x, ast.Name) and isinstance(x.ctx, ast.Store)} \
            | set(p.nested)
        p = p.parent
    loads = {}
    for n in cfg.nodes:
        if n.id in ahead and n.kind not in ("entry", "exit", "raise"):
            for nm in _local_loads(n, local_names):
                loads.setdefault(nm.id, []).append((n, nm))
            if not star:
                for nm in _local_loads(n, _Unknown(known | local_names)):
                    r.violation(ga, ga.loc(nm), "_got_write_answer reads the name '%s', which is bound nowhere: the NameError "
                                "ends the answer handler before self.surprised = True, finish_publishing's DeferredList "
                                "swallows it and the publish reports success" % nm.id)
    for name in sorted(loads):
        def transfer(n, lab, nxt, st, _nm=name):
            if lab != "exc" and _nm in node_stores(n):
                if n.kind == "iter":
                    return True if lab == "iter" else st
                return not isinstance(n.ast, ast.Delete)
            return st
        visited, parent = explore(cfg, False, transfer)
        r.count(len(visited))
        for (n, nm) in loads[name]:
            if (n.id, False) in visited:
                w = witness(cfg, parent, (n.id, False))
                r.violation(ga, ga.loc(nm), "_got_write_answer can read the local '%s' before it is bound: the NameError ends "
                            "the answer handler before self.surprised = True, finish_publishing's DeferredList swallows it "
                            "and the publish reports success (path: %s)" % (name, w.brief()), w)
                break


def _unwrap(e):
    while isinstance(e, ast.Call) and isinstance(e.func, ast.Name) and e.func.id in _WRAPPERS and len(e.args) == 1 \
            and not e.keywords:
        e = e.args[0]
    return e


def _surprise_set(r, idx, ga):
    cfg = ga.cfg()
    fnorm = FlowNorm(ga)
    ps = first_positional_params(ga)
    if len(ps) < 2:
        raise AnchorVanished("_got_write_answer(answer, writer, ..) signature changed")
    ans, wr = ps[0], ps[1]
    here = wr + ".server"
    mine = wr + ".shnum"
    rd = C.reaching_defs(cfg)
    cmps = []
    for n in cfg.nodes:
        for (d, lab) in cfg.succ[n.id]:
            f = fnorm.edge_fact(n, lab)
            if f and f[0] == "!=" and "self._checkstring" in (f[1], f[2]):
                cmps.append((n, f[2] if f[1] == "self._checkstring" else f[1]))
    if not cmps:
        raise AnchorVanished("_got_write_answer no longer compares anything with self._checkstring")
    pat = re.compile(r"^" + re.escape(ans) + r"\[1\]\[(\w+)\]\[(\d+)\]$")
    indices, sets_seen = set(), set()
    for (n, other) in cmps:
        r.site(ga, n.ast, "compared checkstring")
        m = pat.match(other)
        if not m:
            r.violation(ga, ga.loc(n.ast), "self._checkstring is compared with %s, not with what the server read from the "
                        "surprise share (%s[1][<shnum>][<i>]): a share of another version is not recognised (or the "
                        "comparison raises and the answer is dropped)" % (other, ans))
            continue
        lv, i = m.group(1), int(m.group(2))
        indices.add(i)
        defs = rd.get(n.id, {}).get(lv, frozenset())
        r.require(bool(defs), ga, ga.loc(n.ast), "share number %s of the comparison is never bound" % lv)
        for did in sorted(defs):
            dn = cfg.nodes[did] if did >= 0 else None
            it = _unwrap(dn.ast.iter) if dn is not None and dn.kind == "iter" and isinstance(dn.ast.target, ast.Name) else None
            if not isinstance(it, ast.Name):
                r.violation(ga, ga.loc(n.ast), "the share number %s whose checkstring is compared is not the loop variable "
                            "over the surprise set" % lv)
                continue
            sets_seen.add(it.id)
    for S in sorted(sets_seen):
        r.site(ga, None, "surprise set %s" % S)
        _surprise_set_defs(r, ga, cfg, fnorm, S, ans, here, mine)
    if not sets_seen and not any(True for _ in r.violations):
        raise AnchorVanished("surprise set of _got_write_answer not found")
    # both proxies ask the server to read index i
    if indices:
        need = max(indices)
        lay = idx.module("allmydata.mutable.layout")
        n_sites = 0
        for (f, nd, _recv, kind) in _sweep(idx, REMOTE):
            if kind != "call" or f.module is not lay or f.cls is None:
                continue
            n_sites += 1
            r.site(f, nd, "read vector")
            rv = arg(nd, 3, "r_vector")
            tn = f.cfg().find(lambda x, _c=nd: any(c is _c for c in node_calls(x)))
            p = FlowNorm(f).norm(tn[0], rv) if (rv is not None and tn) else None
            if not p or not re.match(r"^self\.\w+$", p):
                r.violation(f, f.loc(nd), "%s sends the read vector %s: cannot establish that it reads the checkstring" % (
                    short(f), p))
                continue
            vals = [s.value for g in _class_funcs(f.cls) for s in func_own_nodes(g) if isinstance(s, ast.Assign)
                    and any(attr_path(t) == p for t in s.targets)]
            r.require(bool(vals), f, f.loc(nd), "%s is never set in %s" % (p, f.cls.name))
            for v in vals:
                r.require(isinstance(v, (ast.List, ast.Tuple)) and len(v.elts) > need, f, f.loc(v),
                          "%s = %s has no entry %d: _got_write_answer's read_data[shnum][%d] raises for every surprise "
                          "share and the answer is dropped" % (p, src(f, v), need, need))
        if n_sites < 2:
            raise AnchorVanished("expected the SDMF and MDMF write proxies to call %s" % REMOTE)


def _surprise_set_defs(r, ga, cfg, fnorm, S, ans, here, mine):
    bases = {norm_src(t % ans) for t in ("set(%s[1].keys())", "set(%s[1])", "%s[1].keys()", "frozenset(%s[1].keys())",
                                         "frozenset(%s[1])", "set(list(%s[1].keys()))", "list(%s[1].keys())", "list(%s[1])")}

    def split(v):
        if isinstance(v, ast.BinOp) and isinstance(v.op, ast.Sub):
            b, rem = split(v.left)
            return b, rem + [v.right]
        if isinstance(v, ast.Call) and isinstance(v.func, ast.Attribute) and v.func.attr == "difference" and not v.keywords:
            b, rem = split(v.func.value)
            return b, rem + list(v.args)
        return v, []

    def tied(n, cond):
        f = fnorm.at(n).cmp(cond, True)
        return bool(f) and f[0] == "==" and here in (f[1], f[2])

    def gated_here(n):
        g = _fact_gate(fnorm, lambda op, l, rr: op == "==" and here in (l, rr))
        return not find_path_avoiding(cfg, lambda x, _n=n: x is _n, gate_edge=g)

    def removal_ok(n, e, seen):
        e = _unwrap(e)
        if isinstance(e, (ast.List, ast.Tuple, ast.Set)):
            return all(fnorm.norm(n, x) == mine for x in e.elts)
        if isinstance(e, ast.Call) and isinstance(e.func, ast.Name) and e.func.id in _WRAPPERS and not e.args:
            return True
        if isinstance(e, _COMPS):
            return any(tied(n, c) for g in e.generators for c in g.ifs)
        if isinstance(e, ast.Subscript):
            return fnorm.norm(n, e.slice) == here
        if isinstance(e, ast.Call) and call_tail(e) in ("get", "pop", "setdefault") and e.args \
                and isinstance(e.func, ast.Attribute):
            return fnorm.norm(n, e.args[0]) == here
        if isinstance(e, ast.BinOp) and isinstance(e.op, (ast.BitOr, ast.Add)):
            return removal_ok(n, e.left, seen) and removal_ok(n, e.right, seen)
        if isinstance(e, ast.Name):
            if e.id in seen or e.id in ga.params:
                return False
            seen = seen | {e.id}
            found = False
            for m in cfg.nodes:
                if m.kind in ("iter", "with", "except") and e.id in node_stores(m):
                    return False
                if m.kind != "stmt":
                    continue
                if e.id in node_stores(m):
                    found = True
                    a = m.ast
                    if isinstance(a, ast.Assign) and all(isinstance(t, ast.Name) for t in a.targets):
                        v = a.value
                        if isinstance(v, (ast.List, ast.Set, ast.Tuple)) and not v.elts:
                            continue
                        if not removal_ok(m, v, seen):
                            return False
                    elif isinstance(a, ast.AugAssign) and isinstance(a.op, (ast.BitOr, ast.Add)):
                        if not removal_ok(m, a.value, seen):
                            return False
                    else:
                        return False
                for c in node_calls(m):
                    if isinstance(c.func, ast.Attribute) and isinstance(c.func.value, ast.Name) and c.func.value.id == e.id:
                        t = c.func.attr
                        if t in ("extend", "update", "union_update"):
                            if not all(removal_ok(m, x, seen) for x in c.args):
                                return False
                        elif t in ("append", "add"):
                            if not (c.args and (fnorm.norm(m, c.args[0]) == mine or gated_here(m))):
                                return False
            return found
        return False

    def removal(n, e, where):
        r.count(1)
        r.require(removal_ok(n, e, frozenset()), ga, ga.loc(where),
                  "the share numbers %s are withheld from the surprise comparison without being tied to the answering "
                  "server (an equality with %s) or being this writer's own share: a share of another version that the "
                  "server reports can go unnoticed" % (src(ga, e), here))

    n_defs = 0
    for n in cfg.nodes:
        a = n.ast
        if n.kind in ("iter", "with", "except") and S in node_stores(n):
            r.violation(ga, ga.loc(a), "the surprise set %s is rebound by a loop/with" % S)
        if n.kind != "stmt":
            continue
        if S in node_stores(n):
            n_defs += 1
            if isinstance(a, ast.Assign) and all(isinstance(t, ast.Name) for t in a.targets):
                base, rems = split(a.value)
                if not (isinstance(base, ast.Name) and base.id == S):
                    r.require(fnorm.norm(n, base) in bases, ga, ga.loc(a), "the surprise set starts from %s, not from every "
                              "share in the server's answer (%s[1])" % (src(ga, base), ans))
                for e in rems:
                    removal(n, e, a)
            elif isinstance(a, ast.AugAssign) and isinstance(a.op, ast.Sub):
                removal(n, a.value, a)
            elif isinstance(a, ast.AugAssign) and isinstance(a.op, ast.BitOr):
                pass
            else:
                r.violation(ga, ga.loc(a), "the surprise set %s is changed by %s" % (S, src(ga, a)))
        for c in node_calls(n):
            if isinstance(c.func, ast.Attribute) and isinstance(c.func.value, ast.Name) and c.func.value.id == S:
                t = c.func.attr
                if t == "difference_update":
                    for e in c.args:
                        removal(n, e, c)
                elif t in ("discard", "remove"):
                    r.require(bool(c.args) and (fnorm.norm(n, c.args[0]) == mine or gated_here(n)), ga, ga.loc(c),
                              "%s withholds a share from the surprise comparison without tying it to the answering server" % src(ga, c))
                elif t in ("clear", "pop", "intersection_update", "symmetric_difference_update"):
                    r.violation(ga, ga.loc(c), "%s drops shares from the surprise set" % src(ga, c))
    if not n_defs:
        raise AnchorVanished("surprise set %s has no definition" % S)


def _returns_only(r, fn, ok_value, what, why):
    """Every normal path through `fn` ends in a return whose value satisfies ok_value(node, value)."""
    cfg = fn.cfg()
    for (n, w) in find_path_avoiding(cfg, lambda n: n.kind == "exit", gate_node=is_return):
        r.violation(fn, fn.loc(), "%s can fall off its end and return None instead of %s: %s" % (short(fn), what, why), w)
    for n in cfg.find(is_return):
        r.require(n.ast.value is not None and ok_value(n, n.ast.value), fn, fn.loc(n.ast),
                  "%s returns %s instead of %s: %s" % (short(fn), src(fn, n.ast.value) if n.ast.value is not None else "None",
                                                        what, why))


def _answers_awaited(r, idx):
    fp = idx.func(PUB + ".finish_publishing")
    cfg = fp.cfg()
    dvars = []
    for n in cfg.nodes:
        if n.kind == "stmt" and isinstance(n.ast, ast.Assign) and isinstance(n.ast.value, ast.Call) \
                and call_tail(n.ast.value) == "finish_publishing" and len(n.ast.targets) == 1 \
                and isinstance(n.ast.targets[0], ast.Name) and call_name(n.ast.value) != "self.finish_publishing":
            dvars.append((n, n.ast.targets[0].id))
    if not dvars:
        raise AnchorVanished("no 'd = <writer>.finish_publishing()' in %s" % short(fp))
    lists = set()
    for (dn, dv) in dvars:
        r.site(fp, dn.ast, "writer Deferred collected")

        def collected(n, _dv=dv):
            for c in calls_at(n, "append"):
                if isinstance(c.func, ast.Attribute) and isinstance(c.func.value, ast.Name) and len(c.args) == 1 \
                        and isinstance(c.args[0], ast.Name) and c.args[0].id == _dv:
                    return c.func.value.id
            return None

        def transfer(n, lab, nxt, st, _dn=dn, _dv=dv):
            if lab == "exc":
                return None
            if n is not _dn and (n.kind in ("iter", "exit") or _dv in node_stores(n)):
                return None
            return st or bool(collected(n))
        visited, parent = explore(cfg, False, transfer, start=dn)
        r.count(len(visited))
        for (nid, st) in sorted(visited):
            nd = cfg.nodes[nid]
            if nd is not dn and not st and (nd.kind in ("iter", "exit") or dv in node_stores(nd)):
                w = witness(cfg, parent, (nid, st))
                r.violation(fp, fp.loc(dn.ast), "the writer Deferred %s is not added to the list finish_publishing waits for: "
                            "_push can report success before this server's answer has been examined (path: %s)" % (
                                dv, w.brief()), w)
                break
        for n in cfg.nodes:
            L = collected(n)
            if L:
                lists.add(L)
    for L in sorted(lists):
        app = lambda n, _L=L: any(isinstance(c.func, ast.Attribute) and isinstance(c.func.value, ast.Name)
                                  and c.func.value.id == _L for c in calls_at(n, "append"))
        for (s, w) in find_path_from_to_avoiding(cfg, app, lambda n: False, ends=stores(L)):
            r.violation(fp, fp.loc(s.ast), "the list %s of writer Deferreds is reset after Deferreds were added to it" % L, w)
    fnorm = FlowNorm(fp)

    def waits(n, v):
        v = fnorm.resolve(n, v)
        if not (isinstance(v, ast.Call) and call_tail(v) in ("DeferredList", "gatherResults") and v.args):
            return False
        a0 = v.args[0]
        if not (isinstance(a0, ast.Name) and a0.id in lists):
            return False
        early = kwarg(v, "fireOnOneCallback")
        if early is None and call_tail(v) == "DeferredList" and len(v.args) > 1:
            early = v.args[1]
        return early is None or (isinstance(early, ast.Constant) and not early.value)
    r.site(fp, None, "returns DeferredList of all writer Deferreds")
    _returns_only(r, fp, waits, "a DeferredList over every writer Deferred",
                  "success would be reported before all answers have been examined")
    # push_everything_else: _push only as a callback of finish_publishing()
    pe = idx.func(PUB + ".push_everything_else")
    r.site(pe, None, "_push chained after finish_publishing")
    pcfg = pe.cfg()
    pnorm = FlowNorm(pe)
    fin = [n for n in pcfg.nodes if any(call_name(c) == "self.finish_publishing" for c in node_calls(n))]
    if not fin:
        raise AnchorVanished("push_everything_else no longer calls self.finish_publishing()")
    for c in [c for t in ("_push", "_done") for c in calls_in_func(pe, t, into_lambda=True)]:
        r.violation(pe, pe.loc(c), "push_everything_else calls %s directly: success can be reported before the servers' "
                    "answers have been examined" % call_name(c))
    chained = False
    for reg in registrations(pe):
        if reg.kind in ("cb", "both") and attr_path(reg.target) == "self._push":
            dnodes = [n for n in pcfg.nodes if n.kind == "stmt" and reg.recv and reg.recv in node_stores(n)]
            ok = bool(dnodes) and all(
                isinstance(assign_value(n, reg.recv), ast.Call) and call_name(assign_value(n, reg.recv)) == "self.finish_publishing"
                for n in dnodes)
            r.require(ok, pe, pe.loc(reg.call), "_push is chained on %s, which is not the Deferred of self.finish_publishing()" % (
                reg.recv or "an anonymous Deferred"))
            chained = chained or ok
    r.require(chained, pe, pe.loc(), "push_everything_else no longer runs _push as a callback of self.finish_publishing()")


def _surprised_fails(r, push):
    cfg = push.cfg()
    fnorm = FlowNorm(push)
    seen = [False]

    def transfer(n, lab, nxt, st):
        sur, failed = st
        if lab == "exc":
            return None
        f = fnorm.edge_fact(n, lab)
        if f and f[0] == "truth" and f[1] == "self.surprised":
            seen[0] = True
            sur = True
        if any(call_name(c) == "self._failure" for c in node_calls(n)):
            failed = True
        return (sur, failed)
    visited, parent = explore(cfg, (False, False), transfer)
    r.count(len(visited))
    r.site(push, None, "surprised => _failure()")
    if not seen[0]:
        raise AnchorVanished("_push no longer tests self.surprised")
    for (nid, st) in sorted(visited):
        if cfg.nodes[nid].kind == "exit" and st[0] and not st[1]:
            w = witness(cfg, parent, (nid, st))
            r.violation(push, push.loc(), "_push can return after observing self.surprised without calling self._failure(): "
                        "the UncoordinatedWriteError is never delivered (path: %s)" % w.brief(), w)
            break


def _returned_calls(idx, fn, target, tail):
    """For the callable `target` (lambda / nested def / self.method) registered in `fn`: (callee FuncInfo, [calls of
    `tail` inside it], [those that are not the value of a return])."""
    info = _callable_info(idx, fn, target)
    if info is None:
        return None
    g = info[0]
    calls = list(calls_in_func(g, tail, into_lambda=True))
    if isinstance(target, ast.Lambda):
        body = target.body
        return g, calls, [c for c in calls if c is not body]
    cfg = g.cfg()
    fnorm = FlowNorm(g)
    ret = set()
    for n in cfg.find(is_return):
        if n.ast.value is not None:
            ret.add(id(fnorm.resolve(n, n.ast.value)))
    return g, calls, [c for c in calls if id(c) not in ret]


def _modify_chain_returns(r, idx):
    mr = idx.func(MFV + "._modify_and_retry")
    mo = idx.func(MFV + "._modify_once")
    rt = mr.nested.get("_retry")
    ap = mo.nested.get("_apply")
    if rt is None or ap is None:
        raise AnchorVanished("_modify_and_retry._retry / _modify_once._apply")
    lost = "a publish collision (UncoordinatedWriteError) is lost instead of reaching _retry / the caller"

    def is_var(dv, regs):
        def ok(n, v):
            if isinstance(v, ast.Name):
                return v.id == dv
            return any(v is x.call for x in regs if x.recv == dv)
        return ok
    # (i) _apply returns the upload
    r.site(ap, None, "_apply returns the upload")
    ups = list(calls_in_func(ap, "_upload"))
    if not ups:
        raise AnchorVanished("_apply no longer calls self._upload")
    acfg, anorm = ap.cfg(), FlowNorm(ap)
    returned = {id(anorm.resolve(n, n.ast.value)) for n in acfg.find(is_return) if n.ast.value is not None}
    for c in ups:
        r.require(id(c) in returned, ap, ap.loc(c), "_apply does not return the Deferred of %s: %s" % (src(ap, c), lost))
    # (ii) _modify_once returns the Deferred _apply is chained on
    regs = registrations(mo)
    areg = [x for x in regs if x.kind in ("cb", "both") and isinstance(x.target, ast.Name) and x.target.id == "_apply"]
    r.site(mo, None, "_modify_once returns the chained Deferred")
    if areg and areg[0].recv:
        _returns_only(r, mo, is_var(areg[0].recv, regs), "the Deferred that _apply is chained on", lost)
    else:
        r.violation(mo, mo.loc(), "_apply is not chained on a named Deferred in _modify_once")
    # (iii) the callbacks in _modify_and_retry return what they start
    regs = registrations(mr)
    r.site(mr, None, "callbacks return their calls")
    once = [x for x in regs if x.kind == "cb" and _calls_inside(idx, mr, x.target, "_modify_once")]
    for x in once:
        res = _returned_calls(idx, mr, x.target, "_modify_once")
        for c in (res[2] if res else []):
            r.violation(mr, mr.loc(c), "the callback that calls _modify_once does not return its Deferred: %s" % lost)
    r.site(mr, None, "_modify_and_retry returns its Deferred")
    if once and once[0].recv:
        _returns_only(r, mr, is_var(once[0].recv, regs), "the Deferred the attempt is chained on", lost)
    # (iv) _retry returns the Deferred of the next attempt
    rregs = registrations(rt)
    again = [x for x in rregs if x.kind in ("cb", "both") and _calls_inside(idx, rt, x.target, "_modify_and_retry")]
    r.site(rt, None, "_retry returns the next attempt")
    if not again:
        raise AnchorVanished("_retry no longer chains the next _modify_and_retry")
    for x in again:
        res = _returned_calls(idx, rt, x.target, "_modify_and_retry")
        for c in (res[2] if res else []):
            r.violation(rt, rt.loc(c), "the callback that starts the next attempt does not return its Deferred: the caller is "
                        "told the modification is done while the retry is still running, and its outcome is lost")
    if again[0].recv:
        _returns_only(r, rt, is_var(again[0].recv, rregs), "the Deferred of the next attempt",
                      "the caller is told the modification succeeded right after the collision, and the retry's outcome is lost")
    else:
        r.violation(rt, rt.loc(again[0].call), "the next attempt is chained on an anonymous Deferred")


def _nonempty_vector(r, fn):
    cfg = fn.cfg()
    fnorm = FlowNorm(fn)
    r.site(fn, None, "vector length >= 1")
    defs = all_defs(fn)
    for n in cfg.nodes:
        vecs = []
        v = assign_value(n, "self._testvs")
        if isinstance(v, ast.List):
            vecs += list(v.elts)
        for c in calls_at(n, "append"):
            if call_name(c) == "self._testvs.append" and c.args:
                vecs.append(c.args[0])
        for e in vecs:
            e2 = e.args[0] if isinstance(e, ast.Call) and call_name(e) == "tuple" and e.args else e
            if not (isinstance(e2, (ast.Tuple, ast.List)) and len(e2.elts) == 3 and isinstance(e2.elts[2], ast.Name)
                    and norm_plain(e2.elts[1]) == "len(%s)" % e2.elts[2].id):
                continue      # other shapes are C12.1 / C12.2's business
            cs = e2.elts[2].id
            names = {cs} | {d.id for d in defs.get(cs, []) if isinstance(d, ast.Name)}
            empty = norm_src("b''")

            def nonempty(op, l, rr, _names=names):
                if op == "truth" and l in _names:
                    return True
                if op == "!=" and ((l == empty and rr in _names) or (rr == empty and l in _names)):
                    return True
                lens = {"len(%s)" % x for x in _names}
                return (op in ("<", "!=") and l == "0" and rr in lens) or (op == "!=" and rr == "0" and l in lens) \
                    or (op == "<=" and l == "1" and rr in lens)

            def packed(m, _cs=cs):
                pv = assign_value(m, _cs)
                return isinstance(pv, ast.Call) and call_name(pv) == "struct.pack" and len(pv.args) >= 2
            r.count(len(cfg.nodes))
            for (t, w) in find_path_avoiding(cfg, lambda x, _n=n: x is _n, gate_edge=_fact_gate(fnorm, nonempty),
                                             gate_node=packed, kill=stores_any(names)):
                r.violation(fn, fn.loc(e), "%s can store the test vector (0, len(%s), %s) for an empty %s: (0, 0, b'') is "
                            "satisfied by any share contents, so the write overwrites whatever another writer put there "
                            "(path: %s)" % (short(fn), cs, cs, cs, w.brief()), w)


def _writer_server_attr(r, fn, ga):
    """_got_write_answer reads <writer>.server (an AttributeError there is swallowed like any other exception, and a wrong
    server would mis-direct the surprise comparison): every writer built by publish()/update() gets .server set to the
    server whose storage server it wraps before the loop moves on."""
    wr = first_positional_params(ga)[1]
    if not any(isinstance(x, ast.Attribute) and attr_path(x) == wr + ".server" for x in func_own_nodes(ga)):
        return
    cfg = fn.cfg()
    fnorm = FlowNorm(fn)
    creators = [n for n in cfg.nodes if n.kind == "stmt" and isinstance(n.ast, ast.Assign)
                and isinstance(n.ast.value, ast.Call) and len(n.ast.value.args) >= 2
                and isinstance(n.ast.value.args[1], ast.Call) and call_tail(n.ast.value.args[1]) == "get_storage_server"
                and isinstance(n.ast.value.args[1].func, ast.Attribute)]
    if not creators:
        raise AnchorVanished("%s: writer construction not found" % short(fn))
    for cn in creators:
        r.site(fn, cn.ast, "writer.server")
        t = cn.ast.targets[0]
        if len(cn.ast.targets) != 1 or not isinstance(t, ast.Name):
            r.violation(fn, fn.loc(cn.ast), "the writer is not bound to a plain local: cannot follow its .server attribute")
            continue
        W, S = t.id, fnorm.norm(cn, cn.ast.value.args[1].func.value)

        def sets(n, _W=W, _S=S):
            if n.kind == "stmt" and (_W + ".server") in node_stores(n):
                v = assign_value(n, _W + ".server")
                return v is not None and fnorm.norm(n, v) == _S
            return False

        def transfer(n, lab, nxt, st, _cn=cn):
            if lab == "exc" or (n is not _cn and n.kind in ("iter", "exit")):
                return None
            return st or sets(n)
        visited, parent = explore(cfg, False, transfer, start=cn)
        r.count(len(visited))
        for (nid, st) in sorted(visited):
            nd = cfg.nodes[nid]
            if nd is not cn and nd.kind in ("iter", "exit") and not st:
                w = witness(cfg, parent, (nid, st))
                r.violation(fn, fn.loc(cn.ast), "the writer %s can be left without %s.server = %s: _got_write_answer reads "
                            "writer.server, so its answer handler raises (swallowed by the DeferredList) or compares the "
                            "surprise shares against another server's writers (path: %s)" % (W, W, S, w.brief()), w)
                break
