"""C13 One client serialises operations on a mutable node.

Decided: the entry discipline of MutableFileNode (public operation =
`return self._do_serialized(self._impl, ...)`), the shape of the serialiser's
Deferred chain, the one-node-per-cap memo of NodeMaker and the rule that
directory edits reach the grid only through node.modify (DESIGN.md section 5,
C13), plus the rule that every work-carrying callback hangs on the returned Deferred (node level C13.6,
directory level C13.7; added after the mutation sweep), that the memo key is a function of the cap string the node
is built from (C13.8) and that nothing inside a serialised region re-enters the serialiser (C13.9; both added after
the seeded changes C13-C / C13-D), that methods split off an awaited function are awaited too (C13.10) and that the
dirnode module reaches its backing node's shares only through the serialised entry points (C13.11; both added after
the seeded changes C13-E / C13-F)."""
from sa.h import *

EXPLANATION = (
    "Decided (structural): (1) each of MutableFileNode.download_best_version/overwrite/upload/modify/get_servermap "
    "returns, on every path, self._do_serialized(self._<impl>, <its own parameters in order>) and does no grid work "
    "of its own; these five are exactly the methods that use _do_serialized; (2) who-may-call: each _impl is "
    "referenced only as the first argument of _do_serialized in its public sibling, with two listed exceptions "
    "(create_with_keys -> _upload on a node nobody else holds yet; _get_version_from_servermap -> _get_servermap, "
    "the read-only survey helper used inside the serialised region), and inside the class only the _impls call "
    "get_best_mutable_version/get_mutable_version; (3) _do_serialized (node and version class): the operation is an "
    "addCallback on self._serializer whose function returns cb(*args, **kwargs); after it an addBoth on "
    "self._serializer fires the caller's fresh Deferred with the result via eventually(d.callback, res); the chain "
    "is left clean (the firing function does not return the failure, or an errback follows); d is returned; "
    "self._serializer is bound once, in __init__, to an already-fired Deferred; (4) NodeMaker.create_from_cap looks "
    "up and stores under the same key, the key is built from the whole cap string and from no per-call argument, "
    "every node reporting is_mutable() on the miss path is stored, the stored object is the one returned; "
    "MutableFileNode is constructed only by the listed factory functions and cap->node creation is reachable only "
    "through create_from_cap; (5) every DirectoryNode mutator that touches the grid does so through "
    "self._node.modify(<modifier built on this dirnode>.modify) and returns that Deferred; no DirectoryNode code calls "
    "a writing or private method of the file node; (6) every function that runs inside the serialised region "
    "(the _impls, the MutableFileVersion operations they delegate to, and their callbacks) returns on every path the "
    "Deferred of each piece of grid work it starts, so the serialiser really waits for the whole operation; every "
    "callback that starts grid work (nested def, lambda, or self.<method> of the same class) is registered on the "
    "Deferred the enclosing function returns (directly, through a chain, or through a call whose Deferred is "
    "returned), never left unattached or hung on another Deferred; (7) the same two conditions for the "
    "DirectoryNode operations (the six mutators and set_uri/add_file/move_child_to): each returns on every path the "
    "Deferred of every edit it starts (self._node.modify, or a mutator of this or a parameter directory), and "
    "callbacks starting an edit hang on the returned Deferred; (8) in create_from_cap, writecap/readcap reach the memo "
    "key only through the one cap string handed to uri.from_string to build the node (same normal form, same reaching "
    "definitions), so the same cap string gives the same key whatever other arguments accompany it; (9) no re-entry: "
    "the functions queued with _do_serialized in MutableFileNode / MutableFileVersion, and every method, nested def and "
    "lambda they reach through self.<x>, never name a serialised entry point (a method that calls self._do_serialized) "
    "of their own object; and the code that runs while the node's serialiser is held - the MutableFileVersion methods "
    "the _impls call on their callback arguments, Publish/Retrieve/ServermapUpdater (constructed there), the directory "
    "modifiers' modify and the DirectoryNode helpers they use - never names self._node.<entry point of the node>. "
    "Undecided: fairness and ordering inside Twisted, nodes created by create_mutable_file (not memoised: outside "
    "'obtained through the same capability string'), callers that take a MutableFileVersion and write through it; "
    "whether an operation that is correctly queued and awaited does the right thing (which servermap mode a retry "
    "uses, whether the retry/backoff errback is present at all, read-only guards, the redundant-rename guard of "
    "move_child_to, the I/M prefix of the memo key, blacklist wrapping) - value-level or other properties; edits "
    "that stop an operation from starting any grid work (a deleted callback lambda, `return None` in place of the "
    "work) are functional failures, not ordering failures, and are not reported unless they leave a work-carrying "
    "named callback unattached. "
    "Added after the seeded changes C13-E / C13-F: (10) the awaited set of (6)/(7) is closed under self.<method>: every "
    "method of MutableFileNode / MutableFileVersion / DirectoryNode that an awaited function names on self (as callback, "
    "errback, call or argument) and that starts grid work / a directory edit itself - known by what its body does, not by "
    "its name - must satisfy the same two conditions, so an operation cut into methods is still one Deferred chain; a "
    "call self.<such a method>(..) counts as work whose Deferred must be returned; (11) code of the dirnode module uses, "
    "on its backing node (self._node, a modifier's self.node._node, or a local alias), only the serialised entry points "
    "(download_best_version for reads, modify for edits) to reach the file's shares: the MutableFileNode methods that "
    "reach a MutableFileVersion / Retrieve / Publish / ServermapUpdater construction without going through "
    "_do_serialized (derived by intra-class reachability: get_best_readable_version, get_readable_version, "
    "download_version, ...) are not used there; listed exception: the size probes get_current_size / "
    "get_size_of_best_version. Still undecided: unserialised reads by other holders of a file node (web GET, SFTP and the "
    "repairer use get_best_readable_version / download_version by design), self._node.check/check_and_repair (C14), work "
    "split off into module-level functions or other classes, and a file node handed to a helper that reads it. "
    "Shapes read as equivalent (added after the refactors seeded as C20-I / C19-I): in (6)/(7)/(10) a function decorated with "
    "inlineCallbacks waits for exactly the Deferreds it yields (`yield d`, `x = yield d`, `d = ..; yield d`), so there a "
    "piece of work must be yielded - merely starting it, or returning its Deferred as the generator's result, is reported; "
    "in (4) a method reached through getattr(self, <name>) counts as used by that code when <name> is the loop variable over "
    "one column of a module-level constant table that is used for nothing else (any other getattr(self, ..) in NodeMaker is "
    "an analysis error), and private NodeMaker methods used only from inside _create_from_single_cap count as part of it. "
    "In (3) a _do_serialized decorated with inlineCallbacks (possibly inherited from a shared mixin) hands each caller a fresh "
    "Deferred by construction; there the queue discipline is checked on the CFG instead: exactly one binding of "
    "self._serializer, to a fresh Deferred kept in a local, before the first yield; the previous tail (read into a local "
    "before that binding) is yielded on every path to cb; cb(*args, **kwargs) is yielded inside a try and its result is what "
    "the generator returns; the new tail is fired with a constant (eventually(t.callback, c) / t.callback(c)) on every normal "
    "and exceptional way out after the binding. "
    "Not followed (analysis error, not a verdict): create_from_cap split into helper methods (memo lookup through "
    "self._node_cache.get, key / node built in helpers).")
TECHNIQUE = ("static analysis: return-shape and who-may-call sweeps, Deferred registration model, CFG path rules, "
             "reaching definitions, normal-form value identity, intra-class reachability")

MFN = "mutable.filenode:MutableFileNode"
MFV = "mutable.filenode:MutableFileVersion"
NM = "nodemaker:NodeMaker"
DN = "dirnode:DirectoryNode"

# public operation -> serialised sibling
OPS = {
    "download_best_version": "_download_best_version",
    "overwrite": "_overwrite",
    "upload": "_upload",
    "modify": "_modify",
    "get_servermap": "_get_servermap",
}
# direct calls of an _impl that are allowed (listed exceptions, with the reason)
DIRECT_CALL_EXCEPTIONS = {
    ("_upload", "create_with_keys"): "initial publish of a node that is not yet shared with anybody",
    ("_get_servermap", "_get_version_from_servermap"): "read-only survey helper used by the _impls inside the "
                                                       "serialised region and by the version getters",
}
# methods of MutableFileNode that start grid work or hand out writable versions
GRID_METHODS = {"get_best_mutable_version", "get_mutable_version", "get_best_readable_version", "get_readable_version",
                "_get_version_from_servermap", "_update_servermap", "download_version", "get_size_of_best_version",
                "get_current_size", "check", "check_and_repair", "repair"} | set(OPS) | set(OPS.values())
# who inside MutableFileNode may ask for a writable version
MUTABLE_VERSION_CALLERS = {"get_best_mutable_version", "get_mutable_version", "_overwrite", "_modify",
                           "_download_best_version"}
# file-node methods a DirectoryNode must never call: writers other than modify, and private methods
DIRNODE_FORBIDDEN = {"overwrite", "upload", "update", "get_best_mutable_version", "get_mutable_version", "repair"}
DIRNODE_MUTATORS = ("set_metadata_for", "set_children", "set_node", "set_nodes", "delete", "create_subdirectory")
DIRNODE_DELEGATORS = {"set_uri": {"set_node"}, "add_file": {"set_node"}, "move_child_to": {"set_node", "delete"}}
MODIFIER_CLASSES = {"Adder", "Deleter", "MetadataSetter"}
MFN_FACTORIES = {NM + "._create_mutable": "cap -> node, reached only through the memo",
                 NM + ".create_mutable_file": "brand-new file, no cap string exists yet",
                 MFN + ".get_readonly": "read-only twin of a node (different cap, cannot write)"}


# functions that run inside the serialised region: their Deferred must cover all the work they start
AWAITED_IN = {
    MFN: ("_download_best_version", "_overwrite", "_upload", "_modify", "_get_servermap", "_update_servermap"),
    MFV: ("_overwrite", "_modify", "_modify_and_retry", "_modify_once", "_upload", "_read", "_update",
          "_do_modify_update", "_do_update_update", "_build_uploadable_and_finish", "_try_to_download_data",
          "_update_servermap", "overwrite", "modify", "read", "update", "download_to_data"),
}
# calls that start grid work and return its Deferred
WORK_TAILS = {"publish", "update", "download", "_upload", "_modify_once", "_modify_and_retry", "_modify", "_overwrite",
              "_update", "modify", "overwrite", "read", "download_to_data", "_update_servermap", "_try_to_download_data",
              "_read", "get_best_mutable_version", "get_best_readable_version", "get_mutable_version",
              "get_readable_version", "_get_version_from_servermap", "_get_servermap", "_do_modify_update",
              "_do_update_update", "_do_serialized", "maybeDeferred", "gatherResults"}
AMBIGUOUS_TAILS = {"read", "update", "download", "modify", "overwrite"}
WORK_RECEIVERS = {"self", "mfv", "version", "p", "r", "u"}


# ------------------------------------------------------------------ helpers
def _class_funcs(ci):
    out, stack = [], list(ci.methods.values())
    while stack:
        f = stack.pop()
        out.append(f)
        stack.extend(v for k, v in f.nested.items() if not k.startswith("<lambda"))
    return out


def _in_class(fn, ci):
    return fn.cls is not None and ci in fn.cls.mro()


def _sweep(idx, name):
    """Every call ``X.name(..)`` and every other load of an attribute ``X.name`` in the package, *including
    lambda bodies* (the engine's call-graph sweeps do not enter lambdas): (fn, node, receiver expr, 'call'|'ref')."""
    cache = idx.__dict__.setdefault("_lambda_sweep_cache", {})
    out = []
    for fn in idx.funcs.values():
        if name not in fn.module.source:
            continue
        ent = cache.get(fn.qual)
        if ent is None:
            nodes = [n for n in func_own_nodes(fn, into_lambda=True) if isinstance(n, (ast.Call, ast.Attribute))]
            callfuncs = {id(n.func) for n in nodes if isinstance(n, ast.Call)}
            ent = cache[fn.qual] = (nodes, callfuncs)
        nodes, callfuncs = ent
        for n in nodes:
            if isinstance(n, ast.Call):
                if isinstance(n.func, ast.Attribute) and n.func.attr == name:
                    out.append((fn, n, n.func.value, "call"))
            elif n.attr == name and isinstance(n.ctx, ast.Load) and id(n) not in callfuncs:
                out.append((fn, n, n.value, "ref"))
    return out


def _name_uses(idx, name):
    """Calls ``name(..)`` (the Call node) and other loads of the plain name (the Name node), lambdas included."""
    out = []
    for fn in idx.funcs.values():
        if name not in fn.module.source:
            continue
        nodes = list(func_own_nodes(fn, into_lambda=True))
        callee = {id(n.func) for n in nodes if isinstance(n, ast.Call)}
        for n in nodes:
            if isinstance(n, ast.Call) and isinstance(n.func, ast.Name) and n.func.id == name:
                out.append((fn, n))
            elif isinstance(n, ast.Name) and n.id == name and isinstance(n.ctx, ast.Load) and id(n) not in callee:
                out.append((fn, n))
    return out


def _is_type_test_arg(fn, name_node):
    """The class name is only used inside isinstance()/issubclass()."""
    for c in func_own_nodes(fn, into_lambda=True):
        if isinstance(c, ast.Call) and isinstance(c.func, ast.Name) and c.func.id in ("isinstance", "issubclass"):
            if any(x is name_node for a in c.args for x in ast.walk(a)):
                return True
    return False


def _method_uses(idx, cg, tail, owner, foreign_prefix="allmydata"):
    """Calls and bare attribute references ``X.tail`` that can denote `owner`'s method: receiver ``self``
    inside the owner class (or a subclass), or any non-self receiver inside `foreign_prefix`."""
    out = []
    for (fn, node, recv, kind) in _sweep(idx, tail):
        if isinstance(recv, ast.Name) and recv.id == "self":
            if fn.cls is not None and owner in fn.cls.mro():
                out.append((fn, node, kind))
        elif fn.module.name.startswith(foreign_prefix):
            out.append((fn, node, kind))
    return out


def _region_private_methods(idx, cg, ci, roots):
    """`roots` plus the private methods of `ci` that are used (called or passed as a callback) only from code already in
    the set: a step split off one of the roots runs exactly where the root runs."""
    inside = set(roots)
    cand = {nm for nm, m in ci.methods.items() if _is_func(m) and nm.startswith("_") and not nm.startswith("__")
            and nm != "_do_serialized" and nm not in OPS.values()}
    uses = {}
    changed = True
    while changed:
        changed = False
        for nm in sorted(cand - inside):
            if nm not in uses:
                uses[nm] = _method_uses(idx, cg, nm, ci)
            us = uses[nm]
            if us and all(_in_class(f, ci) and _top_method(f).name in inside for (f, _nd, _k) in us):
                inside.add(nm)
                changed = True
    return inside


def _top_method(fn):
    while fn.parent is not None:
        fn = fn.parent
    return fn


def _callable_info(idx, fn, target):
    if isinstance(target, ast.Lambda):
        lf = idx.lambda_func(fn, target)
        ps = first_positional_params(lf)
        return (lf, ps[0] if ps else None)
    if isinstance(target, ast.Name):
        p = fn
        while p is not None:
            if target.id in p.nested:
                g = p.nested[target.id]
                ps = first_positional_params(g)
                return (g, ps[0] if ps else None)
            p = p.parent
        return None
    if isinstance(target, ast.Attribute) and isinstance(target.value, ast.Name) and target.value.id == "self" \
            and fn.cls is not None:
        g = fn.cls.lookup(target.attr)
        if g is not None:
            ps = first_positional_params(g)
            return (g, ps[0] if ps else None)
    return None


def _unique_def(cfg, rd, node, name):
    """Value expression of the single definition of local `name` reaching `node` (None otherwise)."""
    ds = rd.get(node.id, {}).get(name, frozenset())
    if len(ds) != 1:
        return None
    (d,) = tuple(ds)
    if d < 0:
        return None
    return assign_value(cfg.nodes[d], name)


def _serialized_call(fn, fnorm, n, v):
    """If expression v (at node n) is self._do_serialized(self.X, ...), return the Call."""
    rv = fnorm.resolve(n, v) if v is not None else None
    if isinstance(rv, ast.Call) and call_name(rv) == "self._do_serialized":
        return rv
    return None


def run(ctx: Context):
    idx = ctx.idx
    cg = get_callgraph(idx)
    mfn = idx.cls(MFN)
    mfv = idx.cls(MFV)

    # -- 1. public operations enter through the serialiser -------------------
    with ctx.rule("C13.1", "R12", "MutableFileNode public operations are `return self._do_serialized(self._impl, "
                  "<own params>)` on every path and do no grid work themselves; they are exactly the users of "
                  "_do_serialized", expected=5) as r:
        for pubname, impl in OPS.items():
            fn = idx.func(MFN + "." + pubname)
            idx.func(MFN + "." + impl)
            r.site(fn, None, "-> " + impl)
            cfg = fn.cfg()
            fnorm = FlowNorm(fn)
            params = first_positional_params(fn)

            def good_return(n, _fn=fn, _fnorm=fnorm, _impl=impl, _params=params):
                if not is_return(n):
                    return False
                c = _serialized_call(_fn, _fnorm, n, n.ast.value)
                if c is None or not c.args or attr_path(c.args[0]) != "self." + _impl:
                    return False
                passed = []
                for a in c.args[1:]:
                    a = _fnorm.resolve(n, a)
                    passed.append(a.id if isinstance(a, ast.Name) else None)
                kws = {k.arg: (k.value.id if isinstance(k.value, ast.Name) else None) for k in c.keywords}
                if any(k is None or k != v for k, v in kws.items()):
                    return False
                return passed + list(kws) == _params
            rets = cfg.find(is_return)
            for n in rets:
                if not good_return(n):
                    c = _serialized_call(fn, fnorm, n, n.ast.value)
                    if c is None:
                        msg = "%s returns %s instead of entering the serialiser" % (pubname, src(fn, n.ast.value))
                    elif not c.args or attr_path(c.args[0]) != "self." + impl:
                        msg = "%s serialises %s, not self.%s" % (pubname, src(fn, c.args[0]) if c.args else "nothing", impl)
                    else:
                        msg = "%s passes %s to %s; expected its own parameters (%s) in order" % (
                            pubname, src(fn, c), impl, ", ".join(params))
                    r.violation(fn, fn.loc(n.ast), msg)
            r.count(len(cfg.nodes))
            for (n, w) in find_path_avoiding(cfg, lambda n: n.kind == "exit", gate_node=good_return):
                r.violation(fn, fn.loc(), "%s can finish without returning the serialiser's Deferred (path: %s)" % (
                    pubname, w.brief()), w)
                break
            # no grid work of its own
            for c in calls_in_func(fn, None, into_lambda=True):
                nm = call_name(c)
                if nm.startswith("self.") and nm.count(".") == 1 and call_tail(c) in GRID_METHODS:
                    r.violation(fn, fn.loc(c), "%s calls self.%s outside the serialiser" % (pubname, call_tail(c)))
        # exactly these five use _do_serialized
        users = {}
        for (f, nd, kind) in _method_uses(idx, cg, "_do_serialized", mfn):
            users.setdefault(_top_method(f).name, []).append((f, nd))
        for name, lst in users.items():
            if name not in OPS:
                for (f, nd) in lst:
                    r.violation(f, f.loc(nd), "%s uses _do_serialized but is not in the table of serialised operations; "
                                "add it (and its _impl) to the rule table after review" % short(f))

    # -- 2. who may call the _impl methods -------------------------------------
    with ctx.rule("C13.2", "R4", "each _impl is referenced only as the first argument of _do_serialized in its public "
                  "sibling (listed exceptions: create_with_keys->_upload, _get_version_from_servermap->_get_servermap); "
                  "only the _impls ask for a writable version", expected=7) as r:
        rev = {v: k for k, v in OPS.items()}
        for impl, pubname in rev.items():
            uses = _method_uses(idx, cg, impl, mfn)
            sib = idx.func(MFN + "." + pubname)
            n_ok = 0
            for (f, nd, kind) in uses:
                top = _top_method(f)
                if kind == "ref" and f is sib:
                    # must be args[0] of self._do_serialized(...)
                    okpos = any(isinstance(c, ast.Call) and call_name(c) == "self._do_serialized" and c.args and c.args[0] is nd
                                for c in calls_in_func(f, "_do_serialized"))
                    if okpos:
                        n_ok += 1
                        r.site(f, nd, "serialised entry of " + impl)
                        continue
                    r.violation(f, f.loc(nd), "%s uses self.%s other than as the function given to _do_serialized" % (
                        pubname, impl))
                    continue
                if kind == "call" and _in_class(f, mfn) and (impl, top.name) in DIRECT_CALL_EXCEPTIONS:
                    r.site(f, nd, "listed exception: " + DIRECT_CALL_EXCEPTIONS[(impl, top.name)])
                    continue
                r.violation(f, f.loc(nd), "%s %s %s directly: the operation bypasses the node's serialiser" % (
                    short(f), "calls" if kind == "call" else "takes a reference to", impl))
            if n_ok < 1:
                raise AnchorVanished("%s is not given to _do_serialized by %s" % (impl, pubname))
        # writable versions are requested only from inside the serialised region
        inside = _region_private_methods(idx, cg, mfn, MUTABLE_VERSION_CALLERS)
        for tail in ("get_best_mutable_version", "get_mutable_version"):
            for (f, nd, kind) in _method_uses(idx, cg, tail, mfn, foreign_prefix="\0none"):
                top = _top_method(f)
                r.require(top.name in inside, f, f.loc(nd), "%s asks for a writable version (%s) outside the "
                          "serialised _impl methods" % (short(f), tail))

    # -- 3. the serialiser itself ------------------------------------------------
    with ctx.rule("C13.3", "E7/R4", "_do_serialized: addCallback(returns cb(*args, **kwargs)) then addBoth(fires the "
                  "caller's Deferred via eventually) on self._serializer, chain left clean, d returned; _serializer bound "
                  "only in __init__ to an already-fired Deferred", expected=4) as r:
        for q in (MFN, MFV):
            _serializer_shape(r, idx, idx.func(q + "._do_serialized"))
        for ci in (mfn, mfv):
            n_st = 0
            for (f, nd) in cg.attr_stores("_serializer"):
                if not (_in_class(f, ci) or (f.cls is not None and f.cls in ci.mro())):
                    continue
                if f is ci.lookup("_do_serialized") and _inline_yields(f) is not None:
                    # the generator form installs its own tail (checked, with its uniqueness, by _serializer_shape_inline)
                    r.site(f, nd, "_serializer tail installed by the inlineCallbacks serialiser")
                    continue
                n_st += 1
                r.site(f, nd, "_serializer binding")
                r.require(f.name == "__init__" and f.parent is None, f, f.loc(nd),
                          "%s re-binds self._serializer: operations queued on the old chain are no longer ordered with "
                          "later ones" % short(f))
                for n in f.cfg().nodes:
                    v = assign_value(n, "self._serializer")
                    if v is not None:
                        ok = isinstance(v, ast.Call) and call_tail(v) == "succeed"
                        r.require(ok, f, f.loc(n.ast), "self._serializer starts as %s, not an already-fired Deferred: "
                                  "nothing queued on it would ever run" % src(f, v))
            if n_st < 1:
                raise AnchorVanished("%s no longer binds self._serializer" % ci.name)

    # -- 4. one node object per cap string ----------------------------------------
    with ctx.rule("C13.4", "R1/R4", "NodeMaker.create_from_cap: lookup and store use the same key built from the whole "
                  "cap string only; every is_mutable() node created on the miss path is stored and returned; "
                  "MutableFileNode construction is confined to the listed factories", expected=4) as r:
        _memo_rule(r, idx, cg)

    # -- 5. directory edits go through node.modify ----------------------------------
    with ctx.rule("C13.5", "R4/R2", "DirectoryNode mutators reach the grid only through self._node.modify(<modifier on "
                  "this dirnode>.modify) and return that Deferred; no DirectoryNode code calls a writing or private "
                  "file-node method", expected=10) as r:
        _dirnode_rule(r, idx)

    # -- 6. the serialised region covers all the work ---------------------------------
    groups = _awaited_groups(idx)
    with ctx.rule("C13.6", "R2/E7", "functions running inside the serialised region return (on every path) the Deferred of "
                  "every piece of grid work they start, directly or through their callbacks", expected=20) as r:
        _awaited_rule(r, idx, groups)

    # -- 7. directory operations cover the edits they start ---------------------------------
    with ctx.rule("C13.7", "R2/E7", "DirectoryNode operations (mutators and the operations built on them) return, on every "
                  "path, the Deferred of each directory edit they start; callbacks that start an edit hang on the returned "
                  "Deferred", expected=9) as r:
        _dirnode_awaited_rule(r, idx, groups)

    # -- 8. the memo key is a function of the cap string the node is built from ----------------
    with ctx.rule("C13.8", "E2/E6", "NodeMaker.create_from_cap: writecap/readcap enter the memo key only through the one cap "
                  "string that is given to uri.from_string to build the node (same cap string => same key => same node "
                  "object, whatever else the caller passed)", expected=2) as r:
        _memo_key_rule(r, idx)

    # -- 9. nothing inside a serialised region re-enters the serialiser ---------------------------
    with ctx.rule("C13.9", "R4/E4", "code that runs while a serialiser is held (the _impls of MutableFileNode / "
                  "MutableFileVersion and everything they reach on self; the version, Publish/Retrieve/ServermapUpdater and "
                  "directory-modifier code they run) never invokes a serialised entry point of the same object, nor of the "
                  "node whose serialiser is held: such a call queues behind the operation that waits for it (deadlock)",
                  expected=18) as r:
        _reentrancy_rule(r, idx)

    # -- 10. methods split off an awaited function are awaited too ----------------------------------
    with ctx.rule("C13.10", "R2/E7", "every method that an awaited function (C13.6 / C13.7, transitively) names through "
                  "self.<method> - as a callback, an errback or a call - and that starts grid work / a directory edit itself "
                  "returns, on every path, the Deferred of that work, and hangs work-carrying callbacks on the Deferred it "
                  "returns: an operation stays one Deferred chain however it is cut into methods", expected=6) as r:
        _split_off_rule(r, idx, groups)

    # -- 11. directory reads enter through the node's serialiser --------------------------------------
    with ctx.rule("C13.11", "R4", "code of the dirnode module touches the shares of its backing mutable file only through the "
                  "node's serialised entry points (download_best_version for reads, modify for edits); the unserialised "
                  "version getters / downloaders of MutableFileNode (derived: methods reaching a MutableFileVersion / "
                  "Retrieve / Publish / ServermapUpdater construction without _do_serialized) are not used on self._node "
                  "(listed exception: get_current_size)", expected=10) as r:
        _dirnode_read_rule(r, idx)


# --------------------------------------------------------------- rule bodies
def _grid_work(c):
    """`c` is a call that starts grid work on the mutable file and returns its Deferred."""
    if not (isinstance(c, ast.Call) and isinstance(c.func, ast.Attribute) and call_tail(c) in WORK_TAILS):
        return False
    if call_tail(c) in AMBIGUOUS_TAILS:
        # file-like .read()/dict .update() are not grid work: only on the objects that carry the operation
        recv = c.func.value
        return isinstance(recv, ast.Name) and recv.id in WORK_RECEIVERS
    return True


def _dirnode_work(top):
    """Calls that start a directory edit: self._node.modify(..) and the DirectoryNode mutators invoked on a
    directory node (self, or a directory handed in as a parameter) - not the synchronous Adder.set_node."""
    dirs = {"self"} | set(top.params)
    tails = set(DIRNODE_MUTATORS) | set(DIRNODE_DELEGATORS)

    def is_work(c):
        if not (isinstance(c, ast.Call) and isinstance(c.func, ast.Attribute)):
            return False
        if call_name(c) == "self._node.modify":
            return True
        recv = c.func.value
        return c.func.attr in tails and isinstance(recv, ast.Name) and recv.id in dirs
    return is_work


def _bodies(top):
    bodies, stack = [top], [top]
    while stack:
        g = stack.pop()
        for k, v in g.nested.items():
            if not k.startswith("<lambda"):
                bodies.append(v)
                stack.append(v)
    return bodies


def _self_call_tail(c):
    """X for a call ``self.X(..)``, else None."""
    if isinstance(c, ast.Call) and isinstance(c.func, ast.Attribute) and isinstance(c.func.value, ast.Name) \
            and c.func.value.id == "self":
        return c.func.attr
    return None


def _work_methods(ci, is_work):
    """Names of the methods defined by class `ci` that start work: their body (nested defs and lambdas included)
    contains a work call, or calls self.<such a method> (fixpoint).  Derived from the code, so that a method that
    was split off an operation is known by what it does and not by its name."""
    meths = {nm: m for nm, m in ci.methods.items() if _is_func(m)}
    out = {nm for nm, m in meths.items() if any(is_work(x) for x in ast.walk(m.node))}
    calls = {nm: {_self_call_tail(x) for x in ast.walk(m.node)} - {None} for nm, m in meths.items()}
    changed = True
    while changed:
        changed = False
        for nm in meths:
            if nm not in out and calls[nm] & out:
                out.add(nm)
                changed = True
    return out


def _with_self_methods(is_work, workmeths):
    """is_work, extended with the calls ``self.X(..)`` of a method of the same object that starts work."""
    def ext(c):
        return is_work(c) or _self_call_tail(c) in workmeths
    return ext


def _awaited_group(r, idx, grp, pending):
    """Check the queued (top, via) bodies of one group; methods of the same class that an awaited body names through
    self.<method> (registered as a callback, called, or passed along) and that start work themselves run inside the
    same operation: they are appended to `pending` so that their Deferred is checked like the listed ones."""
    ci, make_is_work, label, what, seen = grp["ci"], grp["make"], grp["label"], grp["what"], grp["seen"]
    queue, pending[:] = list(pending), []
    for (top, via) in queue:
        r.site(top, None, label if via is None else "%s: split off / run inside %s" % (label, via))
        is_work = make_is_work(top)
        for g in _bodies(top):
            _awaited_body(r, idx, top, g, is_work, what)
        workmeths = make_is_work(top, names_only=True)
        for g in _bodies(top):
            for x in func_own_nodes(g, into_lambda=True):
                if isinstance(x, ast.Attribute) and isinstance(x.ctx, ast.Load) and isinstance(x.value, ast.Name) \
                        and x.value.id == "self" and x.attr in workmeths and x.attr not in seen:
                    m = ci.lookup(x.attr)
                    if _is_func(m) and m.name != "_do_serialized":
                        seen.add(x.attr)
                        pending.append((m, short(top)))


def _awaited_groups(idx):
    """The three groups of awaited functions: [{ci, make, label, what, seen, pending}]."""
    groups = []
    for q, names in AWAITED_IN.items():
        ci = idx.cls(q)
        workmeths = _work_methods(ci, _grid_work)
        is_work = _with_self_methods(_grid_work, workmeths)

        def make(top, names_only=False, _w=workmeths, _f=is_work):
            return _w if names_only else _f
        groups.append({"ci": ci, "make": make, "label": "awaited", "what": "the serialised operation",
                       "seen": set(names), "pending": [(idx.func(q + "." + nm), None) for nm in names]})
    dn = idx.cls(DN)
    cache = {}

    def make_dn(top, names_only=False):
        if top.qual not in cache:
            base = _dirnode_work(top)
            wm = _work_methods(dn, base)
            cache[top.qual] = (wm, _with_self_methods(base, wm))
        return cache[top.qual][0 if names_only else 1]
    names = DIRNODE_MUTATORS + tuple(DIRNODE_DELEGATORS)
    groups.append({"ci": dn, "make": make_dn, "label": "directory operation", "what": "the directory operation",
                   "seen": set(names), "pending": [(idx.func(DN + "." + nm), None) for nm in names]})
    return groups


def _awaited_rule(r, idx, groups):
    for grp in groups[:2]:
        _awaited_group(r, idx, grp, grp["pending"])


def _dirnode_awaited_rule(r, idx, groups):
    n_work = 0
    for nm in DIRNODE_MUTATORS + tuple(DIRNODE_DELEGATORS):
        top = idx.func(DN + "." + nm)
        is_work = _dirnode_work(top)
        n_work += sum(1 for x in ast.walk(top.node) if is_work(x))
    if n_work < len(DIRNODE_MUTATORS) + len(DIRNODE_DELEGATORS):
        raise AnchorVanished("DirectoryNode operations no longer start their edits through self._node.modify / "
                             "the mutators (found %d edit calls)" % n_work)
    _awaited_group(r, idx, groups[2], groups[2]["pending"])


def _split_off_rule(r, idx, groups):
    """C13.10: the transitive remainder - methods reached from the awaited functions through self.<method>."""
    for grp in groups:
        while grp["pending"]:
            _awaited_group(r, idx, grp, grp["pending"])


# --------------------------------------------------------------- C13.11
FILE_WORKERS = {"MutableFileVersion", "Retrieve", "Publish", "ServermapUpdater"}
# unserialised file-node methods a directory may still use, with the reason
_SIZE_PROBE = ("size probe (servermap survey only, hands back a number, no contents and no version object): not one of "
               "the whole-file operations of the property")
DIRNODE_UNSERIALISED_OK = {"get_current_size": _SIZE_PROBE, "get_size_of_best_version": _SIZE_PROBE}


def _unserialised_node_methods(idx, mfn, entries):
    """Methods of MutableFileNode that start work on the file's shares (construct a MutableFileVersion / Retrieve /
    Publish / ServermapUpdater, or name - on self - a method that does) without entering through _do_serialized."""
    meths = {nm: m for nm, m in mfn.methods.items() if _is_func(m)}
    stop = set(entries) | {"_do_serialized"}
    out = set()
    for nm, m in meths.items():
        if nm in stop:
            continue
        for x in ast.walk(m.node):
            if isinstance(x, ast.Call) and isinstance(x.func, ast.Name) and x.func.id in FILE_WORKERS:
                out.add(nm)
                break
    if not out:
        raise AnchorVanished("no MutableFileNode method constructs %s" % sorted(FILE_WORKERS))
    refs = {nm: {x.attr for (_g, x) in _self_refs(m)} for nm, m in meths.items() if nm not in stop}
    changed = True
    while changed:
        changed = False
        for nm, rs in refs.items():
            if nm not in out and rs & out:
                out.add(nm)
                changed = True
    return out


def _denotes_backing_node(g, e, depth=3):
    """Expression `e` in body `g` is the directory's backing file node: self._node, a modifier's self.node._node, or a
    local all of whose definitions (here or in an enclosing body) are that."""
    if attr_path(e) in ("self._node", "self.node._node"):
        return True
    if isinstance(e, ast.Name) and depth > 0:
        p = g
        while p is not None:
            ds = all_defs(p).get(e.id)
            if ds:
                return all(d is not None and _denotes_backing_node(p, d, depth - 1) for d in ds)
            p = p.parent
    return False


def _dirnode_read_rule(r, idx):
    mfn = idx.cls(MFN)
    entries = set(_serialised_entries(idx, mfn))
    unser = _unserialised_node_methods(idx, mfn, entries)
    private = {m for m in mfn.methods if m.startswith("_") and not m.startswith("__")}
    covered_by_5 = DIRNODE_FORBIDDEN | private
    mod = idx.module("allmydata.dirnode")
    n_entry, n_read = 0, 0
    for g in idx.funcs.values():
        if g.module is not mod or g.name.startswith("<lambda"):
            continue
        for x in func_own_nodes(g, into_lambda=True):
            if not (isinstance(x, ast.Attribute) and isinstance(x.ctx, ast.Load)):
                continue
            if not (x.attr in entries or x.attr in unser) or not _denotes_backing_node(g, x.value):
                continue
            if x.attr in entries:
                n_entry += 1
                n_read += x.attr == "download_best_version"
                r.site(g, x, "serialised entry %s" % x.attr)
            elif x.attr in DIRNODE_UNSERIALISED_OK:
                r.site(g, x, "listed exception %s: %s" % (x.attr, DIRNODE_UNSERIALISED_OK[x.attr]))
            elif x.attr not in covered_by_5:
                r.violation(g, g.loc(x), "%s uses %s.%s, which works on the shares of the mutable file without entering the "
                            "node's serialiser (unlike %s): a directory read requested after an edit starts at once "
                            "instead of waiting its turn and can return the contents from before the edit" % (
                                short(g), src(g, x.value), x.attr, "/".join(sorted(entries))))
    r.count(len(unser))
    r.site("unserialised MutableFileNode methods: %s" % ", ".join(sorted(unser)))
    rd_fn = idx.func(DN + "._read")
    r.site(rd_fn, None, "directory read")
    if n_read < 1 and not r.violations:
        raise AnchorVanished("no DirectoryNode code reads the directory through self._node.download_best_version any more, "
                             "and no unserialised read was found in its place")


def _stmt_of(parent, x):
    while x is not None and not isinstance(x, ast.stmt):
        x = parent.get(id(x))
    return x


def _inline_yields(g):
    """The ``yield`` expressions of `g` when it is a ``@defer.inlineCallbacks`` generator (the decorator drives the
    generator and waits for every Deferred it yields before resuming it: ``yield d`` / ``x = yield d`` is the sequencing
    form of returning / chaining d), else None.  An undecorated generator is not such a function."""
    node = getattr(g, "node", None)
    if not isinstance(node, ast.FunctionDef):
        return None
    decorated = False
    for dec in node.decorator_list:
        if isinstance(dec, ast.Call):
            dec = dec.func
        p = attr_path(dec) or ""
        if p.split(".")[-1] == "inlineCallbacks":
            decorated = True
    if not decorated:
        return None
    ys = [x for x in func_own_nodes(g) if isinstance(x, ast.Yield) and x.value is not None]
    return ys or None


def _awaited_body(r, idx, top, g, is_work, what):
    cfg = g.cfg()
    rets = cfg.find(is_return)
    returned_names = set()
    for n in rets:
        if n.ast.value is not None:
            returned_names |= {x.id for x in ast.walk(n.ast.value) if isinstance(x, ast.Name)}
    inline_ys = _inline_yields(g)
    if inline_ys is not None:
        # an inlineCallbacks generator: the Deferreds that are waited for are the yielded ones, not the returned value
        # (`return d` hands a Deferred back as a plain result without waiting for it)
        returned_names = set()
        for y in inline_ys:
            e = y.value
            while isinstance(e, ast.Call) and isinstance(e.func, ast.Attribute) and e.func.attr in (
                    "addCallback", "addErrback", "addBoth", "addCallbacks"):
                e = e.func.value
            if isinstance(e, ast.Name):
                returned_names.add(e.id)
    work = []
    attached = []          # registration calls that hang a work-carrying callback on the returned Deferred

    def scan(body_root, in_lambda):
        for x in own_nodes(body_root):
            if isinstance(x, ast.Lambda) and x is not body_root:
                # a lambda's value is its body: work started there must be (in) the body expression's value
                for c in own_nodes(x.body):
                    if is_work(c):
                        if not _in_value_position(x.body, c):
                            r.violation(g, g.loc(c), "%s: a callback starts %s but does not return its Deferred; %s "
                                        "would be reported finished while that work is still running" % (
                                            short(top), call_name(c) or call_tail(c), what))
            elif is_work(x):
                work.append(x)
    for st in g.body:
        if isinstance(st, (ast.FunctionDef, ast.AsyncFunctionDef, ast.ClassDef)):
            continue          # nested defs are bodies of their own
        scan(st, False)
    # -- callbacks that carry work must hang on the Deferred this function returns ---------------------------
    # carriers: nested defs / lambdas of g whose body (at any depth) starts work
    def_carriers = {k: v for k, v in g.nested.items() if not k.startswith("<lambda")
                    and any(is_work(x) for x in ast.walk(v.node))}
    own = list(func_own_nodes(g))
    lam_carriers = {id(x): x for x in own if isinstance(x, ast.Lambda) and any(is_work(y) for y in ast.walk(x.body))}
    meth_carriers = {}
    if top.cls is not None:
        for x in own:
            if isinstance(x, ast.Attribute) and isinstance(x.value, ast.Name) and x.value.id == "self" \
                    and isinstance(x.ctx, ast.Load) and x.attr not in meth_carriers:
                m = top.cls.lookup(x.attr)
                meth_carriers[x.attr] = m if (m is not None and hasattr(m, "node")
                                              and any(is_work(y) for y in ast.walk(m.node))) else None
        meth_carriers = {k: v for k, v in meth_carriers.items() if v is not None}
    if def_carriers or lam_carriers or meth_carriers:
        parent = {}
        for x in own:
            if isinstance(x, (ast.FunctionDef, ast.AsyncFunctionDef, ast.ClassDef, ast.Lambda)):
                continue
            for ch in ast.iter_child_nodes(x):
                parent[id(ch)] = x
        defs = all_defs(g)

        def carrier_of(a, depth=3):
            """The work-carrying callable that expression `a` denotes (through local name copies), else None."""
            if isinstance(a, ast.Lambda):
                return ("<lambda>", a) if id(a) in lam_carriers else None
            if isinstance(a, ast.Attribute) and isinstance(a.value, ast.Name) and a.value.id == "self":
                return ("self." + a.attr, meth_carriers[a.attr].node) if a.attr in meth_carriers else None
            if isinstance(a, ast.Name):
                if a.id in def_carriers and not any(isinstance(dv, ast.expr) for dv in defs.get(a.id, [])):
                    return (a.id, def_carriers[a.id].node)
                if depth > 0:
                    for dv in defs.get(a.id, []):
                        if dv is not None:
                            c = carrier_of(dv, depth - 1)
                            if c is not None:
                                return c
            return None
        used = set()
        for x in own:
            if not isinstance(x, ast.Call):
                continue
            if isinstance(x.func, ast.Name):
                cr = carrier_of(x.func)
                if cr is not None:              # called on the spot: the call is the work
                    used.add(id(cr[1]))
                    if x not in work:
                        work.append(x)
            for a in list(x.args) + [k.value for k in x.keywords]:
                cr = carrier_of(a)
                if cr is None:
                    continue
                used.add(id(cr[1]))
                if isinstance(x.func, ast.Attribute) and x.func.attr in ("addCallback", "addErrback", "addBoth", "addCallbacks"):
                    base = x.func.value
                    while isinstance(base, ast.Call) and isinstance(base.func, ast.Attribute) and base.func.attr in (
                            "addCallback", "addErrback", "addBoth", "addCallbacks"):
                        base = base.func.value
                    ok = isinstance(base, ast.Name) and base.id in returned_names
                    if not ok:
                        st = _stmt_of(parent, x)
                        if inline_ys is not None and any(_in_chain(y.value, x) for y in inline_ys):
                            ok = True
                        elif inline_ys is None and isinstance(st, ast.Return) and st.value is not None and _in_chain(st.value, x):
                            ok = True
                        elif isinstance(st, ast.Assign) and _in_chain(st.value, x) and any(
                                isinstance(t, ast.Name) and t.id in returned_names for t in st.targets):
                            ok = True
                    if ok:
                        attached.append(x)
                    r.require(ok, g, g.loc(x), "%s hangs the callback %s, which starts grid work, on %s - not on the Deferred "
                              "it returns: %s would be reported finished (and the next one started) while that work is "
                              "still running" % (short(g), cr[0], src(g, base), what))
                elif x not in work:
                    work.append(x)              # e.g. maybeDeferred(cb, ..): that call's Deferred carries the work
        for k, v in def_carriers.items():
            if id(v.node) not in used:
                r.violation(g, g.loc(v.node), "%s defines the callback %s, which starts grid work, but never attaches it to "
                            "the Deferred it returns: the work is either never done or runs outside %s" % (short(g), k, what))
        for k, lam in lam_carriers.items():
            if k not in used:
                st = _stmt_of(parent, lam)
                if isinstance(st, ast.Return) or (isinstance(st, ast.Assign) and any(
                        isinstance(t, ast.Name) and t.id in defs for t in st.targets)):
                    continue                    # a callable handed back / a named lambda accounted for through its name
                r.violation(g, g.loc(lam), "%s builds a callback that starts grid work but does not attach it to the Deferred "
                            "it returns" % short(g))
    if not work and not attached and g is not top:
        return
    for c in work:
        ok = False
        if inline_ys is not None:
            ok = any(_in_value_position(y.value, c) for y in inline_ys)
        for n in rets:
            if inline_ys is None and n.ast.value is not None and _in_value_position(n.ast.value, c):
                ok = True
        if not ok:
            # d = <work>; ...; return d   (possibly through d.addCallback chains)
            for st in func_own_nodes(g):
                if isinstance(st, ast.Assign) and st.value is not None and _in_value_position(st.value, c):
                    if any(isinstance(t, ast.Name) and t.id in returned_names for t in st.targets):
                        ok = True
        r.require(ok, g, g.loc(c), "%s starts %s but does not return its Deferred: %s would be "
                  "reported finished (and the next one started) while that work is still running" % (
                      short(g), call_name(c) or call_tail(c), what))
    if (work or attached) and inline_ys is None:
        def valued_return(n):
            return is_return(n) and n.ast.value is not None and not (isinstance(n.ast.value, ast.Constant)
                                                                      and n.ast.value.value is None)
        r.count(len(cfg.nodes))
        for (n, w) in find_path_avoiding(cfg, lambda n: n.kind == "exit", gate_node=valued_return):
            # a path that started no work may end without a value (e.g. "no changes": nothing to wait for)
            started = any(any(cc is c for cc in node_calls(x)) for (x, _l) in w.path for c in work + attached
                          if x.ast is not None)
            if started:
                r.violation(g, g.loc(), "%s can finish without returning the Deferred of the work it started "
                            "(path: %s)" % (short(g), w.brief()), w)
                break


def _in_chain(expr, call):
    """`call` is `expr` itself or a link of the .addCallback/.addErrback/.addBoth chain whose value `expr` is."""
    e = expr
    while isinstance(e, ast.Call):
        if e is call:
            return True
        if isinstance(e.func, ast.Attribute):
            e = e.func.value
        else:
            return False
    return False


def _in_value_position(expr, call):
    """`call`'s result is the value of `expr`: expr is the call, or a .addCallback/.addErrback/.addBoth chain on it."""
    e = expr
    while True:
        if e is call:
            return True
        if isinstance(e, ast.Call) and isinstance(e.func, ast.Attribute) and e.func.attr in (
                "addCallback", "addErrback", "addBoth", "addCallbacks"):
            e = e.func.value
            continue
        if isinstance(e, ast.Await):
            e = e.value
            continue
        return False


def _reach(cfg, start_ids, blocked):
    """Ids of the nodes reachable from `start_ids` (inclusive) along any edge, never entering a node of `blocked`."""
    seen, stack = set(), [i for i in start_ids if i not in blocked]
    while stack:
        i = stack.pop()
        if i in seen:
            continue
        seen.add(i)
        for (j, _lab) in cfg.succ.get(i, ()):
            if j not in blocked and j not in seen:
                stack.append(j)
    return seen


def _node_yields(n):
    return [x for e in node_exprs(n) for x in own_nodes(e) if isinstance(x, ast.Yield)]


def _serializer_shape_inline(r, idx, fn, cbp, va, kw):
    """_do_serialized written as an ``@inlineCallbacks`` generator.  The decorator hands every caller a fresh Deferred
    that fires with the generator's return value, so what is checked is the queue discipline: (a) a fresh Deferred is
    installed as self._serializer before the first yield (a later caller queues behind this one); (b) the previous tail,
    read before the installation, is yielded before cb runs; (c) cb(*args, **kwargs) is yielded and its result returned;
    (d) the new tail is fired, with a plain value, on every way out after the installation."""
    cfg = fn.cfg()
    rd = C.reaching_defs(cfg)
    exits = {n.id for n in cfg.nodes if n.kind in ("exit", "raise")}

    def fresh(v):
        return isinstance(v, ast.Call) and call_tail(v) == "Deferred" and not v.args and not v.keywords

    def defs_at(n, name):
        return rd.get(n.id, {}).get(name, frozenset())

    # (a) the installation
    installs = [n for n in cfg.nodes if assign_value(n, "self._serializer") is not None]
    other_stores = [n for n in cfg.nodes if n not in installs and stores("self._serializer")(n)]
    if len(installs) != 1 or other_stores:
        r.violation(fn, fn.loc(), "%s binds self._serializer %d times; expected exactly one installation of this "
                    "operation's own tail Deferred" % (short(fn), len(installs) + len(other_stores)))
        return
    inst = installs[0]
    v = assign_value(inst, "self._serializer")
    tails = {}                      # local name of the new tail -> id of the node that must be its reaching definition
    if fresh(v):
        for t in inst.ast.targets:
            if isinstance(t, ast.Name):
                tails[t.id] = inst.id
    elif isinstance(v, ast.Name) and fresh(_unique_def(cfg, rd, inst, v.id)):
        (d,) = tuple(defs_at(inst, v.id))
        tails[v.id] = d
    else:
        r.violation(fn, fn.loc(inst.ast), "%s installs %s as self._serializer, not a fresh Deferred of its own: later "
                    "operations would not wait for this one" % (short(fn), src(fn, v)))
        return
    if not tails:
        r.violation(fn, fn.loc(inst.ast), "%s keeps no handle on the tail Deferred it installs, so it can never fire it"
                    % short(fn))
        return
    ynodes = [n for n in cfg.nodes if _node_yields(n)]
    before = _reach(cfg, [cfg.entry.id if hasattr(cfg.entry, "id") else cfg.entry], {inst.id})
    for n in ynodes:
        if n.id in before:
            r.violation(fn, fn.loc(n.ast), "%s yields (%s) before it installed its own tail in self._serializer: every "
                        "operation requested while it waits queues behind the same old tail, and they are all released "
                        "together" % (short(fn), src(fn, n.ast)))
    # (b) the previous tail is awaited before cb runs
    ahead_nodes = []
    for n in ynodes:
        for y in _node_yields(n):
            if isinstance(y.value, ast.Name):
                dv = _unique_def(cfg, rd, n, y.value.id)
                if isinstance(dv, ast.Attribute) and attr_path(dv) == "self._serializer":
                    (d,) = tuple(defs_at(n, y.value.id))
                    # read before the installation: the read is not reachable from the installation
                    if d not in _reach(cfg, [inst.id], set()) and d in before:
                        ahead_nodes.append(n)
    cb_nodes = [n for n in cfg.nodes
                if any(isinstance(c.func, ast.Name) and c.func.id == cbp for c in node_calls(n))]
    if not cb_nodes:
        r.violation(fn, fn.loc(), "%s no longer runs cb(*args, **kwargs)" % short(fn))
        return
    if not ahead_nodes:
        r.violation(fn, fn.loc(), "%s does not wait (yield) for the previous tail of self._serializer, read before its own "
                    "tail was installed: the operation would start while the previous one is still running" % short(fn))
        return
    unwaited = _reach(cfg, [cfg.entry.id if hasattr(cfg.entry, "id") else cfg.entry], {n.id for n in ahead_nodes})
    for n in cb_nodes:
        r.require(n.id not in unwaited, fn, fn.loc(n.ast), "%s can run cb before the previous operation finished (the "
                  "previous tail is not awaited on every path to this call)" % short(fn))

    # (c) cb(*args, **kwargs) is yielded, and what the generator returns is the result of that yield
    def is_cb_call(c):
        return isinstance(c, ast.Call) and isinstance(c.func, ast.Name) and c.func.id == cbp \
            and any(isinstance(s, ast.Starred) and isinstance(s.value, ast.Name) and s.value.id == va for s in c.args) \
            and any(k.arg is None and isinstance(k.value, ast.Name) and k.value.id == kw for k in c.keywords)

    def yields_cb(n, e):
        if not isinstance(e, ast.Yield) or e.value is None:
            return False
        if is_cb_call(e.value):
            return True
        return isinstance(e.value, ast.Name) and is_cb_call(_unique_def(cfg, rd, n, e.value.id))
    for n in cb_nodes:
        for c in node_calls(n):
            if isinstance(c.func, ast.Name) and c.func.id == cbp:
                r.require(is_cb_call(c), fn, fn.loc(c), "the operation is run as %s, not cb(*args, **kwargs)" % src(fn, c))
    waited = [n for n in ynodes if any(yields_cb(n, y) for y in _node_yields(n))]
    if not waited:
        r.violation(fn, fn.loc(), "%s does not yield the Deferred of cb(*args, **kwargs): its tail would fire (and the next "
                    "operation start) while this operation is still running" % short(fn))
        return
    for n in cfg.find(is_return):
        e = n.ast.value
        ok = yields_cb(n, e)
        if not ok and isinstance(e, ast.Name):
            ds = defs_at(n, e.id)
            ok = bool(ds) and all(d >= 0 and yields_cb(cfg.nodes[d], assign_value(cfg.nodes[d], e.id)) for d in ds)
        r.require(ok, fn, fn.loc(n.ast), "%s returns %s, not the result of the awaited operation" % (
            short(fn), src(fn, e) if e is not None else "None"))
    for (n, w) in find_path_avoiding(cfg, lambda n: n.kind == "exit", gate_node=is_return):
        r.violation(fn, fn.loc(), "%s can finish without handing back the operation's result" % short(fn), w)
        break

    # (d) the new tail fires, with a plain value, on every way out once it is installed
    def fire(n):
        for c in node_calls(n):
            tgt = None
            if call_tail(c) == "eventually" and len(c.args) == 2 and not c.keywords:
                tgt, val = c.args[0], c.args[1]
            elif isinstance(c.func, ast.Attribute) and len(c.args) == 1 and not c.keywords:
                tgt, val = c.func, c.args[0]
            if isinstance(tgt, ast.Attribute) and tgt.attr == "callback" and isinstance(tgt.value, ast.Name) \
                    and tgt.value.id in tails and isinstance(val, ast.Constant) \
                    and defs_at(n, tgt.value.id) == frozenset([tails[tgt.value.id]]):
                return True
        return False
    fires = {n.id for n in cfg.nodes if fire(n)}
    if not fires:
        r.violation(fn, fn.loc(), "%s never fires the tail Deferred it installed: every later operation on this node would "
                    "wait forever" % short(fn))
        return
    after = _reach(cfg, [j for (j, _l) in cfg.succ.get(inst.id, ())], fires)
    # the operation may fail: where it is run / awaited an exception must have somewhere to go that still fires the tail
    # (the CFG gives a statement an exceptional edge only inside a try; without one the failure leaves the generator at once)
    for n in cb_nodes + [w for w in waited if w not in cb_nodes]:
        if n.id in after and not any(lab == "exc" for (_j, lab) in cfg.succ.get(n.id, ())):
            r.violation(fn, fn.loc(n.ast), "%s: when the operation fails at %s the generator is left without firing the tail "
                        "Deferred it installed (no try/finally around it): every later operation on this node would wait "
                        "forever" % (short(fn), src(fn, n.ast)))
    r.require(not (after & exits), fn, fn.loc(inst.ast), "%s can finish (or fail) without firing the tail Deferred it "
              "installed in self._serializer: every later operation on this node would wait forever" % short(fn))
    r.count(len(cfg.nodes))


def _serializer_shape(r, idx, fn):
    r.site(fn, None, "serialiser chain")
    ps = fn.params
    a = fn.node.args
    if len(ps) < 2 or a.vararg is None or a.kwarg is None:
        raise AnchorVanished("%s(self, cb, *args, **kwargs) signature changed" % short(fn))
    cbp, va, kw = ps[1], a.vararg.arg, a.kwarg.arg
    if _inline_yields(fn) is not None:
        return _serializer_shape_inline(r, idx, fn, cbp, va, kw)
    cfg = fn.cfg()
    fnorm = FlowNorm(fn)
    # the caller's Deferred
    rets = cfg.find(is_return)
    dnames = set()
    rd = C.reaching_defs(cfg)
    for n in rets:
        v = n.ast.value
        rv = _unique_def(cfg, rd, n, v.id) if isinstance(v, ast.Name) else None
        ok = isinstance(v, ast.Name) and isinstance(rv, ast.Call) and call_tail(rv) == "Deferred" and not rv.args
        r.require(ok, fn, fn.loc(n.ast), "%s returns %s, not a fresh Deferred for this caller" % (short(fn), src(fn, v)))
        if ok:
            dnames.add(v.id)
    for (n, w) in find_path_avoiding(cfg, lambda n: n.kind == "exit", gate_node=is_return):
        r.violation(fn, fn.loc(), "%s can return None" % short(fn), w)
    if len(dnames) != 1:
        r.violation(fn, fn.loc(), "%s: caller's Deferred not identified" % short(fn))
        return
    dv = dnames.pop()
    regs = registrations(fn)
    on_ser = [x for x in regs if x.recv == "self._serializer"]

    def runs_cb(x):
        """The registered function returns cb(*args, **kwargs) on every normal path."""
        info = _callable_info(idx, fn, x.target)
        if info is None:
            return None
        g = info[0]

        def ret_cb(n):
            if not is_return(n) or not isinstance(n.ast.value, ast.Call):
                return False
            c = n.ast.value
            return isinstance(c.func, ast.Name) and c.func.id == cbp \
                and any(isinstance(s, ast.Starred) and isinstance(s.value, ast.Name) and s.value.id == va for s in c.args) \
                and any(k.arg is None and isinstance(k.value, ast.Name) and k.value.id == kw for k in c.keywords)
        calls = [c for c in calls_in_func(g, None) if isinstance(c.func, ast.Name) and c.func.id == cbp]
        if not calls:
            return None
        bad = find_path_avoiding(g.cfg(), lambda n: n.kind == "exit", gate_node=ret_cb)
        return not bad

    def fires(x):
        """(fires d with its argument on every path, returns-clean) or None when it does not fire d at all."""
        info = _callable_info(idx, fn, x.target)
        if info is None or info[1] is None:
            return None
        g, p = info

        def fire(n):
            for c in node_calls(n):
                if call_tail(c) == "eventually" and len(c.args) >= 2 and attr_path(c.args[0]) == dv + ".callback" \
                        and isinstance(c.args[1], ast.Name) and c.args[1].id == p:
                    return True
                if call_name(c) == dv + ".callback" and len(c.args) == 1 and isinstance(c.args[0], ast.Name) \
                        and c.args[0].id == p:
                    return True
            return False
        gcfg = g.cfg()
        if not gcfg.find(fire):
            return None
        always = not find_path_avoiding(gcfg, lambda n: n.kind == "exit", gate_node=fire, kill=stores(p))
        clean = True
        for n in gcfg.find(is_return):
            v = n.ast.value
            if v is None or (isinstance(v, ast.Constant) and v.value is None):
                continue
            if isinstance(v, ast.Call) and call_tail(v) in ("eventually", "callback"):
                continue     # eventually()/callback() return None
            clean = False
        return (always, clean)

    i_cb = None
    for i, x in enumerate(on_ser):
        if x.kind == "cb" and runs_cb(x) is not None:
            i_cb = i
            break
    # the operation registered with another kind / on another Deferred
    if i_cb is None:
        others = [x for x in regs if runs_cb(x) is not None]
        if others:
            x = others[0]
            r.violation(fn, fn.loc(x.call), "the operation is registered with %s on %s; it must be an addCallback on "
                        "self._serializer so that it starts only after the previous operation finished" % (
                            x.call.func.attr, x.recv or "another Deferred"))
        else:
            r.violation(fn, fn.loc(), "%s no longer queues cb(*args, **kwargs) on self._serializer" % short(fn))
        return
    r.require(runs_cb(on_ser[i_cb]) is True, fn, fn.loc(on_ser[i_cb].call), "the queued function does not return "
              "cb(*args, **kwargs): the chain would not wait for the operation's Deferred before starting the next one")
    i_fire = None
    for i, x in enumerate(on_ser):
        if i > i_cb and fires(x) is not None:
            i_fire = i
            break
    if i_fire is None:
        r.violation(fn, fn.loc(), "the caller's Deferred %s is not fired from self._serializer after the operation" % dv)
        return
    x = on_ser[i_fire]
    always, clean = fires(x)
    r.require(x.kind == "both", fn, fn.loc(x.call), "the caller's Deferred is fired with %s, not addBoth: when the operation "
              "fails the caller never hears about it" % x.call.func.attr)
    r.require(always, fn, fn.loc(x.call), "the firing function does not fire %s on every path" % dv)
    later_eb = [y for y in on_ser[i_fire + 1:] if y.kind in ("eb", "both")]
    swallowing = [y for y in later_eb if y.target_name() in ("log.err",) or (
        _callable_info(idx, fn, y.target) is not None and _never_returns_param(_callable_info(idx, fn, y.target)))]
    r.require(clean or bool(swallowing), fn, fn.loc(x.call), "after firing the caller's Deferred the failure stays in "
              "self._serializer (the function returns it and no errback follows): the next queued operation would be "
              "skipped")
    # nothing between the operation and the firing may delay/replace the chain on the serializer
    for y in on_ser[i_cb + 1:i_fire]:
        r.violation(fn, fn.loc(y.call), "%r sits between the operation and the firing of the caller's Deferred" % y)


def _never_returns_param(info):
    g, p = info
    for n in g.cfg().find(is_return):
        v = n.ast.value
        if isinstance(v, ast.Name) and v.id == p:
            return False
    return True


def _memo_rule(r, idx, cg):
    cf = idx.func(NM + ".create_from_cap")
    cfg = cf.cfg()
    fnorm = FlowNorm(cf)
    rd = C.reaching_defs(cfg)
    loads, stores_ = [], []
    for n in cfg.nodes:
        for e in node_exprs(n):
            for x in own_nodes(e):
                if isinstance(x, ast.Subscript) and attr_path(x.value) == "self._node_cache":
                    if isinstance(x.ctx, ast.Load):
                        loads.append((n, x))
                    elif isinstance(x.ctx, ast.Store):
                        stores_.append((n, x))
    if not loads:
        raise AnchorVanished("create_from_cap no longer looks nodes up in self._node_cache")
    for (n, x) in loads:
        r.site(cf, x, "memo lookup")
    if not stores_:
        r.site(cf, None, "memo store (missing)")
        r.violation(cf, cf.loc(), "create_from_cap never stores into self._node_cache: every call builds a new node object "
                    "with its own serialiser")
        return
    params = set(cf.params)
    for (sn, sx) in stores_:
        r.site(cf, sx, "memo store")
        for (ln, lx) in loads:
            same = fnorm.norm(sn, sx.slice) == fnorm.norm(ln, lx.slice)
            if same and isinstance(sx.slice, ast.Name):
                same = rd.get(sn.id, {}).get(sx.slice.id) == rd.get(ln.id, {}).get(lx.slice.id)
            r.require(same, cf, cf.loc(sx), "the node is stored under %s but looked up under %s" % (
                fnorm.norm(sn, sx.slice), fnorm.norm(ln, lx.slice)))
        # key: whole cap string, no per-call argument
        deps = depends_on(cf, sx.slice)
        extra = (deps & params) - {"writecap", "readcap", "deep_immutable", "self"}
        r.require(not extra, cf, cf.loc(sx), "the memo key depends on per-call argument(s) %s: the same cap string can map "
                  "to several node objects" % sorted(extra))
        r.require({"writecap", "readcap"} <= deps, cf, cf.loc(sx), "the memo key does not depend on the cap string "
                  "(depends on %s)" % sorted(deps))
        key_exprs = [sx.slice]
        if isinstance(sx.slice, ast.Name):
            key_exprs = [d for d in all_defs(cf).get(sx.slice.id, []) if d is not None] or [sx.slice]
        # the names that hold a whole cap string: the two cap parameters, and - by role, whatever it is called - every
        # local all of whose definitions are such a name, a selection between them (a or b, a if c else b) or a
        # concatenation / tuple that contains one whole
        capnames = {nm for nm in ("writecap", "readcap") if nm in deps}
        adefs = all_defs(cf)
        grown = True
        while grown:
            grown = False
            for nm in sorted(deps - capnames - params):
                ds = adefs.get(nm)
                if ds and all(d is not None and _whole_operand(d, capnames) for d in ds):
                    capnames.add(nm)
                    grown = True
        for ke in key_exprs:
            r.require(_whole_operand(ke, capnames), cf, cf.loc(ke), "memo key %s does not contain the whole cap string" % src(cf, ke))
        # stored value is the object that is returned
        val = sn.ast.value if isinstance(sn.ast, ast.Assign) else None
        r.require(isinstance(val, ast.Name), cf, cf.loc(sx), "stored value is %s" % src(cf, val))
        if isinstance(val, ast.Name):
            created = fnorm.resolve(sn, val)
            r.require(isinstance(created, ast.Call) and call_tail(created) == "_create_from_single_cap", cf, cf.loc(sx),
                      "the memo stores %s, not the node just created" % src(cf, created))
            for n in cfg.find(is_return):
                if any(x is sn for x in _preds_closure(cfg, n)):
                    names = {y.id for y in ast.walk(n.ast.value) if isinstance(y, ast.Name)} if n.ast.value is not None else set()
                    r.require(val.id in names, cf, cf.loc(n.ast), "after storing %s the function returns %s" % (
                        val.id, src(cf, n.ast.value)))
            for (ln, lx) in loads:
                tgt = [attr_path(t) for t in ln.ast.targets] if isinstance(ln.ast, ast.Assign) else []
                r.require(val.id in tgt, cf, cf.loc(lx), "the cached object is bound to %s but %s is what gets stored/returned" % (
                    tgt, val.id))
    # miss path: every is_mutable() node is stored
    handlers = [n for n in cfg.nodes if n.kind == "except"]
    starts = handlers or [cfg.entry]
    r.site(cf, None, "miss path")
    is_store = lambda n: any(n is sn for (sn, _x) in stores_)
    for h in starts:
        def transfer(n, lab, nxt, st):
            mut, stored = st
            f = fnorm.edge_fact(n, lab)
            if f and f[0] == "truth" and f[2] is None and f[1].endswith(".is_mutable()"):
                mut = True
            if is_store(n) and lab != "exc":
                stored = True
            return (mut, stored)
        visited, parent = explore(cfg, (False, False), transfer, start=h)
        r.count(len(visited))
        saw_mut = any(st[0] for (_n, st) in visited)
        for (nid, st) in sorted(visited):
            if cfg.nodes[nid].kind == "exit" and st[0] and not st[1]:
                w = witness(cfg, parent, (nid, st))
                r.violation(cf, cf.loc(), "a node reporting is_mutable() can leave create_from_cap without being memoised "
                            "(path: %s)" % w.brief(), w)
                break
        if not saw_mut:
            # no is_mutable() test: then every created node must be stored
            for (nid, st) in sorted(visited):
                if cfg.nodes[nid].kind == "exit" and not st[1]:
                    created_path = witness(cfg, parent, (nid, st))
                    if any(has_call("_create_from_single_cap")(x) for (x, _l) in created_path.path):
                        r.violation(cf, cf.loc(), "a created node can leave create_from_cap without being memoised", created_path)
                        break
    # who may construct MutableFileNode / reach the single-cap factory
    allowed = {"allmydata." + k for k in MFN_FACTORIES}
    n_c = 0
    for (f, nd) in _name_uses(idx, "MutableFileNode"):
        if isinstance(nd, ast.Call):
            n_c += 1
            if f.qual not in allowed:
                r.violation(f, f.loc(nd), "%s constructs a MutableFileNode outside the memoising NodeMaker path" % short(f))
        elif not _is_type_test_arg(f, nd):
            r.violation(f, f.loc(nd), "%s passes the MutableFileNode class around (a node could be built outside the "
                        "memoising NodeMaker path)" % short(f))
    r.site("MutableFileNode constructions: %d" % n_c)
    if n_c < 2:
        raise AnchorVanished("MutableFileNode constructions not found")
    for (f, nd, _recv, kind) in _sweep(idx, "filenode_class"):
        if kind == "call":
            r.violation(f, f.loc(nd), "%s constructs a file node through filenode_class" % short(f))
    nm = idx.cls(NM)
    # methods looked up by name: getattr(self, <name from a constant module-level table>) denotes each listed method
    disp = _getattr_dispatch(idx, nm)
    for (g, x, names, _inv) in disp:
        if names is None:
            raise AnchorVanished("%s looks a method of the NodeMaker up with %s, whose name is not drawn from a constant "
                                 "module-level table: who reaches the node factories cannot be decided" % (short(g), src(g, x)))

    def uses_of(tail):
        return _method_uses(idx, cg, tail, nm) + [(g, x, "call" if inv else "ref") for (g, x, names, inv) in disp
                                                  if tail in names]
    # steps split off the single-cap factory (private methods used only from inside it) run exactly where it runs
    inside_single = {"_create_from_single_cap": True}

    def in_single(k, trail=()):
        if k not in inside_single:
            m = nm.methods.get(k)
            ok = _is_func(m) and k.startswith("_") and not k.startswith("__") and k not in trail
            if ok:
                us = uses_of(k)
                ok = bool(us) and all(kind == "call" and _in_class(f, nm) and in_single(_top_method(f).name, trail + (k,))
                                      for (f, _nd, kind) in us)
            if trail and not ok:
                return False            # may only be a cycle artefact: do not memoise
            inside_single[k] = ok
        return inside_single[k]

    class _Callers:
        def __init__(self, extra):
            self.extra = extra

        def __contains__(self, k):
            return k in self.extra or in_single(k)
    for tail, ok_callers in (("_create_mutable", _Callers(())),
                             ("_create_from_single_cap", _Callers(("create_from_cap",)))):
        uses = uses_of(tail)
        if not uses:
            raise AnchorVanished("no caller of NodeMaker.%s" % tail)
        for (f, nd, kind) in uses:
            r.require(kind == "call" and _in_class(f, nm) and _top_method(f).name in ok_callers, f, f.loc(nd),
                      "%s reaches %s without going through create_from_cap's memo" % (short(f), tail))


def _table_strings(g, e, nodes):
    """The strings expression `e` (in body `g`) can denote: a string constant, or a loop / comprehension variable that
    runs over one column of a module-level table (list / tuple of rows, or a dict through .items() / its keys) which is
    bound once and used for nothing but such iteration.  None when that cannot be established."""
    if isinstance(e, ast.Constant) and isinstance(e.value, str):
        return frozenset([e.value])
    if not isinstance(e, ast.Name):
        return None
    binders = []
    for x in nodes:
        if isinstance(x, ast.For):
            binders.append((x.target, x.iter))
        elif isinstance(x, (ast.ListComp, ast.SetComp, ast.GeneratorExp, ast.DictComp)):
            binders += [(c.target, c.iter) for c in x.generators]
    stores_ = [x for x in nodes if isinstance(x, ast.Name) and x.id == e.id and isinstance(x.ctx, ast.Store)]
    hits = [(t, it) for (t, it) in binders if any(y is st for st in stores_ for y in ast.walk(t))]
    if len(stores_) != 1 or len(hits) != 1 or e.id in g.params:
        return None
    target, it = hits[0]
    if isinstance(target, ast.Name):
        col = None
    elif isinstance(target, (ast.Tuple, ast.List)):
        cols = [i for i, t in enumerate(target.elts) if isinstance(t, ast.Name) and t.id == e.id]
        if len(cols) != 1:
            return None
        col = cols[0]
    else:
        return None
    via = None
    if isinstance(it, ast.Call) and isinstance(it.func, ast.Attribute) and not it.args and not it.keywords \
            and it.func.attr in ("items", "keys"):
        via, it = it.func.attr, it.func.value
    if not isinstance(it, ast.Name):
        return None
    mod = g.module
    shadow = g
    while shadow is not None:           # the table name must be the module-level one
        if it.id in shadow.params or any(isinstance(y, ast.Name) and y.id == it.id and isinstance(y.ctx, ast.Store)
                                         for y in func_own_nodes(shadow, into_lambda=True)):
            return None
        shadow = shadow.parent
    vals = mod.assigns.get(it.id) or []
    if len(vals) != 1 or it.id in mod.imports:
        return None
    # every other use of the table in the module must be an iteration of the same kind (no .append, no re-export)
    iter_ids = set()
    for y in ast.walk(mod.tree):
        its = []
        if isinstance(y, ast.For):
            its = [y.iter]
        elif isinstance(y, (ast.ListComp, ast.SetComp, ast.GeneratorExp, ast.DictComp)):
            its = [c.iter for c in y.generators]
        for z in its:
            if isinstance(z, ast.Call) and isinstance(z.func, ast.Attribute) and z.func.attr in ("items", "keys", "values"):
                z = z.func.value
            iter_ids.add(id(z))
    for y in ast.walk(mod.tree):
        if isinstance(y, ast.Name) and y.id == it.id and isinstance(y.ctx, ast.Load) and id(y) not in iter_ids:
            return None
    table = vals[0]
    if isinstance(table, ast.Dict):
        if via == "items" and col == 0 or via == "keys" and col is None or via is None and col is None:
            cells = table.keys
        elif via == "items" and col == 1:
            cells = table.values
        else:
            return None
    elif isinstance(table, (ast.List, ast.Tuple)) and via is None:
        if col is None:
            cells = table.elts
        else:
            if not all(isinstance(row, (ast.Tuple, ast.List)) and len(row.elts) > col for row in table.elts):
                return None
            cells = [row.elts[col] for row in table.elts]
    else:
        return None
    if not cells or not all(isinstance(c, ast.Constant) and isinstance(c.value, str) for c in cells):
        return None
    return frozenset(c.value for c in cells)


def _getattr_dispatch(idx, ci):
    """[(body, the getattr Call, frozenset of method names | None, result called on the spot)] for every
    ``getattr(self, <name>, ..)`` in the methods of `ci`."""
    out = []
    for m in ci.methods.values():
        if not _is_func(m):
            continue
        for g in _bodies(m):
            nodes = list(func_own_nodes(g, into_lambda=True))
            invoked = {id(c.func) for c in nodes if isinstance(c, ast.Call)}
            for x in nodes:
                if isinstance(x, ast.Call) and isinstance(x.func, ast.Name) and x.func.id == "getattr" and len(x.args) >= 2 \
                        and isinstance(x.args[0], ast.Name) and x.args[0].id == "self":
                    out.append((g, x, _table_strings(g, x.args[1], nodes), id(x) in invoked))
    return out


def _preds_closure(cfg, n):
    seen, stack = set(), [n.id]
    while stack:
        x = stack.pop()
        for (p, _l) in cfg.pred[x]:
            if p not in seen:
                seen.add(p)
                stack.append(p)
    return [cfg.nodes[i] for i in seen]


def _whole_operand(e, capnames):
    """One of the cap-string names occurs in `e` as a whole operand of +, a tuple element or an or/if alternative."""
    if isinstance(e, ast.Name):
        return e.id in capnames
    if isinstance(e, ast.BinOp) and isinstance(e.op, ast.Add):
        return _whole_operand(e.left, capnames) or _whole_operand(e.right, capnames)
    if isinstance(e, (ast.Tuple, ast.List)):
        return any(_whole_operand(x, capnames) for x in e.elts)
    if isinstance(e, ast.BoolOp):
        return all(_whole_operand(x, capnames) for x in e.values)
    if isinstance(e, ast.IfExp):
        return _whole_operand(e.body, capnames) and _whole_operand(e.orelse, capnames)
    return False


def _dirnode_rule(r, idx):
    dn = idx.cls(DN)
    mfn = idx.cls(MFN)
    private = {m for m in mfn.methods if m.startswith("_") and not m.startswith("__")}
    n_node_calls = 0
    for g in _class_funcs(dn):
        for c in calls_in_func(g, None, into_lambda=True):
            nm = call_name(c)
            if nm.startswith("self._node."):
                n_node_calls += 1
                t = call_tail(c)
                if t in DIRNODE_FORBIDDEN or t in private:
                    r.violation(g, g.loc(c), "%s calls self._node.%s: a directory edit that does not go through "
                                "node.modify can lose a concurrent edit" % (short(g), t))
        # the node's methods must not be taken as values either (e.g. d.addCallback(self._node.overwrite))
        for x in func_own_nodes(g, into_lambda=True):
            if isinstance(x, ast.Attribute) and isinstance(x.ctx, ast.Load) and attr_path(x.value) == "self._node" \
                    and (x.attr in DIRNODE_FORBIDDEN or x.attr in private):
                if not any(isinstance(c, ast.Call) and c.func is x for c in calls_in_func(g, None, into_lambda=True)):
                    r.violation(g, g.loc(x), "%s passes self._node.%s around" % (short(g), x.attr))
    r.site("calls on self._node in DirectoryNode: %d" % n_node_calls)
    if n_node_calls < 6:
        raise AnchorVanished("DirectoryNode no longer talks to self._node")
    for mname in DIRNODE_MUTATORS:
        fn = idx.func(DN + "." + mname)
        r.site(fn, None, "mutator")
        # the mutator, its nested defs, and the private DirectoryNode methods it runs through self.<method>
        bodies, seen_m, stack = [], {mname}, [fn]
        while stack:
            top = stack.pop()
            for g in _bodies(top):
                bodies.append(g)
                for x in func_own_nodes(g, into_lambda=True):
                    if isinstance(x, ast.Attribute) and isinstance(x.ctx, ast.Load) and attr_path(x.value) == "self" \
                            and x.attr.startswith("_") and x.attr not in seen_m:
                        seen_m.add(x.attr)
                        m = dn.lookup(x.attr)
                        if _is_func(m):
                            stack.append(m)
        mods = []
        for g in bodies:
            for c in calls_in_func(g, "modify"):
                if call_name(c) == "self._node.modify":
                    mods.append((g, c))
        if not mods:
            r.violation(fn, fn.loc(), "%s no longer edits the directory through self._node.modify" % mname)
            continue
        for (g, c) in mods:
            gn = FlowNorm(g)
            node = [n for n in g.cfg().nodes if any(cc is c for cc in node_calls(n))]
            a0 = arg(c, 0, "modifier")
            if a0 is not None and node:
                a0 = gn.resolve(node[0], a0)
            ok = False
            what = src(g, a0) if a0 is not None else "nothing"
            if isinstance(a0, ast.Attribute) and a0.attr == "modify" and isinstance(a0.value, ast.Name) and node:
                ctor = gn.resolve(node[0], a0.value)
                ok = isinstance(ctor, ast.Call) and call_tail(ctor) in MODIFIER_CLASSES and ctor.args \
                    and isinstance(ctor.args[0], ast.Name) and ctor.args[0].id == "self"
                what = src(g, ctor)
            r.require(ok, g, g.loc(c), "%s gives node.modify %s, not the modify method of an Adder/Deleter/MetadataSetter "
                      "built on this directory" % (mname, what))
            # the Deferred of node.modify is what the body returns
            if node:
                gcfg = g.cfg()
                dvs = [attr_path(t) for t in node[0].ast.targets] if isinstance(node[0].ast, ast.Assign) else []
                rets = [n for n in gcfg.find(is_return) if any(x is node[0] for x in _preds_closure(gcfg, n))]
                for n in rets:
                    v = n.ast.value
                    okr = (isinstance(v, ast.Name) and v.id in dvs) or (v is not None and any(cc is c for cc in ast.walk(v))) \
                        or (isinstance(v, ast.Call) and isinstance(v.func, ast.Attribute) and attr_path(v.func.value) in dvs)
                    r.require(okr, g, g.loc(n.ast), "%s returns %s, not the Deferred of self._node.modify: the caller would "
                              "continue before the edit is done" % (mname, src(g, v)))
                r.require(bool(rets), g, g.loc(c), "%s does not return the Deferred of self._node.modify" % mname)
    for mname, targets in DIRNODE_DELEGATORS.items():
        fn = idx.func(DN + "." + mname)
        r.site(fn, None, "delegating mutator")
        called = {call_tail(c) for c in calls_in_func(fn, None, into_lambda=True) if call_tail(c) in DIRNODE_MUTATORS}
        for g in fn.nested.values():
            called |= {call_tail(c) for c in calls_in_func(g, None, into_lambda=True) if call_tail(c) in DIRNODE_MUTATORS}
        r.require(targets <= called, fn, fn.loc(), "%s no longer delegates to %s (calls %s)" % (
            mname, sorted(targets), sorted(called)))


# --------------------------------------------------------------- C13.8
def _node_of(cfg, x):
    """The CFG node in which AST node `x` is evaluated."""
    for n in cfg.nodes:
        for e in node_exprs(n):
            if any(y is x for y in ast.walk(e)):
                return n
    return None


def _memo_key_rule(r, idx):
    cf = idx.func(NM + ".create_from_cap")
    cfg = cf.cfg()
    fnorm = FlowNorm(cf)
    rd = C.reaching_defs(cfg)
    params = set(cf.params)
    caps = {"writecap", "readcap"} & params
    if len(caps) != 2:
        raise AnchorVanished("create_from_cap(writecap, readcap, ..) signature changed")
    # the cap string the node is built from: first argument of the uri.from_string(..) that feeds _create_from_single_cap
    built = []
    for n in cfg.nodes:
        for c in node_calls(n):
            if call_tail(c) == "_create_from_single_cap":
                a = arg(c, 0, "cap")
                ra = fnorm.resolve(n, a) if a is not None else None
                if not (isinstance(ra, ast.Call) and call_tail(ra) == "from_string"):
                    raise AnchorVanished("create_from_cap no longer builds the node from uri.from_string(<cap string>) "
                                         "(found %s)" % src(cf, ra))
                e = arg(ra, 0, "u")
                nfs = _node_of(cfg, ra)
                if e is None or nfs is None:
                    raise AnchorVanished("uri.from_string call without a cap-string argument")
                built.append((nfs, ra, e))
    if not built:
        raise AnchorVanished("create_from_cap no longer calls self._create_from_single_cap")
    forms = {fnorm.norm(nfs, e) for (nfs, _c, e) in built}
    r.site(cf, built[0][1], "cap string the node is built from: %s" % sorted(forms))
    if len(forms) != 1:
        r.violation(cf, cf.loc(built[0][1]), "nodes are built from different cap strings on different paths: %s" % sorted(forms))
        return
    (s_e,) = tuple(forms)
    nfs0, _c0, e0 = built[0]
    r.require(caps <= depends_on(cf, e0), cf, cf.loc(e0), "the cap string the node is built from (%s) no longer depends on both "
              "writecap and readcap" % s_e)
    stores_ = []
    for n in cfg.nodes:
        for e in node_exprs(n):
            for x in own_nodes(e):
                if isinstance(x, ast.Subscript) and attr_path(x.value) == "self._node_cache" and isinstance(x.ctx, ast.Store):
                    stores_.append((n, x))
    if not stores_:
        raise AnchorVanished("create_from_cap never stores into self._node_cache (reported by C13.4)")
    local_defs = {}
    for n in cfg.nodes:
        if n.kind == "stmt" and isinstance(n.ast, (ast.Assign, ast.AnnAssign)):
            for nm in node_stores(n):
                v = assign_value(n, nm)
                if v is not None:
                    local_defs.setdefault(nm, []).append((n, v))

    def same_value(n, x):
        """Expression x (evaluated at n) is the cap string given to uri.from_string."""
        if fnorm.norm(n, x) != s_e:
            return False
        for y in ast.walk(x):       # a local that is re-bound between the two places is not the same value
            if isinstance(y, ast.Name) and y.id not in params:
                if rd.get(n.id, {}).get(y.id) != rd.get(nfs0.id, {}).get(y.id):
                    return False
        return True

    # when the cap string is `a or b`: a alone is that value where a is known true, b alone where a is known false
    re0 = fnorm.resolve(nfs0, e0)
    alt = None
    if isinstance(re0, ast.BoolOp) and isinstance(re0.op, ast.Or) and len(re0.values) == 2 \
            and all(isinstance(v, ast.Name) and v.id in params for v in re0.values):
        alt = (re0.values[0].id, re0.values[1].id)

    def guarded(n, name):
        if alt is None or name not in alt:
            return False
        want = "truth" if name == alt[0] else "false"
        first = norm_src(alt[0])

        def gate(m, lab):
            f = fnorm.edge_fact(m, lab)
            return bool(f) and f[0] == want and f[1] == first and f[2] is None
        return not find_path_avoiding(cfg, lambda m: m is n, gate_edge=gate, kill=stores(alt[0]))

    def direct_caps(n, x, depth, seen):
        """(node, Name) occurrences of writecap/readcap that reach the value of x other than through the cap string."""
        if same_value(n, x):
            return []
        if alt is not None and isinstance(x, ast.IfExp) and isinstance(x.test, ast.Name) and x.test.id == alt[0] \
                and isinstance(x.body, ast.Name) and x.body.id == alt[0] \
                and isinstance(x.orelse, ast.Name) and x.orelse.id == alt[1]:
            return []           # `a if a else b` is `a or b`
        if isinstance(x, ast.Name):
            if x.id in caps:
                return [] if guarded(n, x.id) else [(n, x)]
            out = []
            if depth > 0 and x.id in local_defs:
                reaching = rd.get(n.id, {}).get(x.id, frozenset())
                for (dn, dv) in local_defs[x.id]:
                    if dn.id in reaching and (dn.id, x.id) not in seen:
                        out += direct_caps(dn, dv, depth - 1, seen | {(dn.id, x.id)})
            return out
        out = []
        for ch in ast.iter_child_nodes(x):
            if isinstance(ch, ast.expr):
                out += direct_caps(n, ch, depth, seen)
            elif isinstance(ch, (ast.keyword, ast.comprehension, ast.FormattedValue)):
                for sub in ast.iter_child_nodes(ch):
                    if isinstance(sub, ast.expr):
                        out += direct_caps(n, sub, depth, seen)
        return out
    r.count(len(cfg.nodes))
    for (sn, sx) in stores_:
        r.site(cf, sx, "memo key")
        bad = direct_caps(sn, sx.slice, 6, frozenset())
        reported = set()
        for (bn, bx) in bad:
            if bx.id in reported:
                continue
            reported.add(bx.id)
            other = sorted(caps - {bx.id})
            r.violation(cf, cf.loc(bx), "the memo key %s uses %s directly and not through %s, the cap string the node is built "
                        "from: the same cap string requested with a different %s gets another key, hence a second node "
                        "object with its own serialiser" % (fnorm.norm(sn, sx.slice), bx.id, s_e, "/".join(other) or "argument"))


# --------------------------------------------------------------- C13.9
WORKER_CLASSES = ("mutable.publish:Publish", "mutable.retrieve:Retrieve", "mutable.servermap:ServermapUpdater")
MODIFIER_QUALS = ("dirnode:Adder", "dirnode:Deleter", "dirnode:MetadataSetter")


def _is_func(m):
    return m is not None and hasattr(m, "node") and hasattr(m, "body")


def _serialised_entries(idx, ci):
    """{name of a method that queues work with self._do_serialized: [the queued FuncInfo, ..]} for class `ci`."""
    out = {}
    for nm, m in ci.methods.items():
        if nm == "_do_serialized":
            continue
        for g in _bodies(m):
            for c in calls_in_func(g, "_do_serialized", into_lambda=True):
                if call_name(c) != "self._do_serialized":
                    continue
                tgt = c.args[0] if c.args else None
                q = None
                if isinstance(tgt, ast.Attribute) and isinstance(tgt.value, ast.Name) and tgt.value.id == "self":
                    q = ci.lookup(tgt.attr)
                elif isinstance(tgt, ast.Name):
                    info = _callable_info(idx, g, tgt)
                    q = info[0] if info else None
                if not _is_func(q):
                    raise AnchorVanished("%s queues %s with _do_serialized: not a method of the same object" % (
                        short(g), src(g, tgt) if tgt is not None else "nothing"))
                out.setdefault(nm, []).append(q)
    return out


def _self_refs(m):
    """(body, Attribute) for every load of self.<attr> in method m, its nested defs and lambdas."""
    for g in _bodies(m):
        for x in func_own_nodes(g, into_lambda=True):
            if isinstance(x, ast.Attribute) and isinstance(x.ctx, ast.Load) and isinstance(x.value, ast.Name) \
                    and x.value.id == "self":
                yield g, x


def _reaching_entries(ci, entries):
    """Names of ci's methods through which a caller ends up in a serialised entry point (fixpoint over self.X)."""
    bad = set(entries) | {"_do_serialized"}
    refs = {nm: {x.attr for (_g, x) in _self_refs(m)} for nm, m in ci.methods.items()}
    changed = True
    while changed:
        changed = False
        for nm, rs in refs.items():
            if nm not in bad and nm != "_do_serialized" and rs & bad:
                # a method that only *names* an entry as the function queued is not there (none today)
                bad.add(nm)
                changed = True
    return bad


def _region_walk(r, starts, policy, what):
    """Walk everything reachable from `starts` [(ClassInfo, FuncInfo, label)] following self.X (and the policy's
    hops / constructor calls); report forbidden uses.  Returns the list of (ClassInfo, FuncInfo) reached."""
    seen, order, parent = {}, [], {}
    queue = []

    def push(ci, m, frm, via):
        key = (ci.qual, m.qual)
        if key in seen:
            return
        seen[key] = (ci, m)
        parent[key] = (frm, via)
        queue.append((ci, m))

    def chain(key):
        names = []
        while key is not None:
            frm, via = parent[key]
            names.append(via)
            key = frm
        return " -> ".join(reversed(names))
    for (ci, m, label) in starts:
        push(ci, m, None, label)
    while queue:
        ci, m = queue.pop(0)
        key = (ci.qual, m.qual)
        order.append((ci, m))
        pol = policy(ci)
        for g in _bodies(m):
            for x in func_own_nodes(g, into_lambda=True):
                if isinstance(x, ast.Call) and isinstance(x.func, ast.Name) and x.func.id in pol.get("ctors", {}):
                    tci = pol["ctors"][x.func.id]
                    for nm, t in tci.methods.items():
                        push(tci, t, key, "%s.%s" % (tci.name, nm))
                    continue
                if not (isinstance(x, ast.Attribute) and isinstance(x.ctx, ast.Load)):
                    continue
                base = attr_path(x.value)
                if base == "self":
                    if x.attr in pol.get("self_forbidden", ()):
                        r.violation(g, g.loc(x), "%s runs while %s is held (%s) but uses self.%s, which enters the serialiser "
                                    "of the same object: the call is queued behind the very operation that waits for it, so "
                                    "this operation and every later one on the object never complete" % (
                                        short(g), what, chain(key), x.attr))
                        continue
                    t = ci.lookup(x.attr)
                    if _is_func(t):
                        push(ci, t, key, x.attr)
                elif base is not None and base == pol.get("node_attr") and x.attr in pol.get("node_forbidden", ()):
                    r.violation(g, g.loc(x), "%s runs while %s is held (%s) but uses %s.%s, which enters that same "
                                "serialiser: the call is queued behind the operation that waits for it (deadlock)" % (
                                    short(g), what, chain(key), base, x.attr))
                elif base is not None and base in pol.get("hops", {}):
                    tci = pol["hops"][base]
                    t = tci.lookup(x.attr)
                    if _is_func(t):
                        push(tci, t, key, "%s.%s" % (tci.name, x.attr))
    r.count(len(order))
    return order


def _reentrancy_rule(r, idx):
    mfn, mfv, dn = idx.cls(MFN), idx.cls(MFV), idx.cls(DN)
    workers = [idx.cls(q) for q in WORKER_CLASSES]
    modifiers = [idx.cls(q) for q in MODIFIER_QUALS]
    ent_n = _serialised_entries(idx, mfn)
    ent_v = _serialised_entries(idx, mfv)
    if not ent_n or not ent_v:
        raise AnchorVanished("no method of %s uses self._do_serialized" % (mfn.name if not ent_n else mfv.name))
    # pass 1 / 2: inside one object's serialised region, no use of that object's own entry points
    reached_n = []
    for ci, ent, what in ((mfn, ent_n, "the node's serialiser"), (mfv, ent_v, "the version's serialiser")):
        starts = []
        for nm in sorted(ent):
            for q in ent[nm]:
                r.site(q, None, "queued by %s.%s" % (ci.name, nm))
                starts.append((ci, q, q.name))
        forb = set(ent) | {"_do_serialized"}
        order = _region_walk(r, starts, lambda _ci, _f=forb: {"self_forbidden": _f}, what)
        if ci is mfn:
            reached_n = order
    # pass 3: foreign code run while the *node's* serialiser is held must not come back into the node's entry points
    node_bad = _reaching_entries(mfn, ent_n)
    worker_by_name = {w.name: w for w in workers}
    starts, seen_tail = [], set()
    for (_ci, m) in reached_n:
        for g in _bodies(m):
            cbparams = set(g.params) - {"self"}
            nodes = list(func_own_nodes(g, into_lambda=True))
            for x in nodes:
                if isinstance(x, ast.Lambda):
                    cbparams |= {a.arg for a in x.args.args}
            for x in nodes:
                if isinstance(x, ast.Call) and isinstance(x.func, ast.Attribute) and isinstance(x.func.value, ast.Name) \
                        and x.func.value.id in cbparams and _is_func(mfv.lookup(x.func.attr)):
                    t = x.func.attr
                    if t not in seen_tail:
                        seen_tail.add(t)
                        r.site(g, x, "version method run inside the node's region")
                        starts.append((mfv, mfv.lookup(t), "%s: %s.%s" % (short(g), x.func.value.id, t)))
                elif isinstance(x, ast.Call) and isinstance(x.func, ast.Name) and x.func.id in worker_by_name:
                    w = worker_by_name[x.func.id]
                    for nm, t in w.methods.items():
                        starts.append((w, t, "%s: %s.%s" % (short(g), w.name, nm)))
    if len(seen_tail) < 3:
        raise AnchorVanished("the node's _impls no longer delegate to MutableFileVersion operations (found %s)" % sorted(seen_tail))
    for mc in modifiers:
        t = mc.lookup("modify")
        if not _is_func(t):
            raise AnchorVanished("%s.modify vanished" % mc.name)
        r.site(t, None, "directory modifier run inside node.modify")
        starts.append((mc, t, "%s.modify" % mc.name))
    mod_names = {m.qual for m in modifiers}

    def policy(ci):
        if ci.qual in mod_names:
            return {"hops": {"self.node": dn}}
        return {"node_attr": "self._node", "node_forbidden": node_bad, "ctors": worker_by_name}
    order = _region_walk(r, starts, policy, "the node's serialiser")
    reached_cls = {ci.qual for (ci, _m) in order}
    for w in workers:
        if w.qual not in reached_cls:
            raise AnchorVanished("%s is no longer constructed by the code that runs inside the node's serialised region" % w.name)
        n_use = sum(1 for m in w.methods.values() for g in _bodies(m) for x in func_own_nodes(g, into_lambda=True)
                    if isinstance(x, ast.Attribute) and attr_path(x.value) == "self._node")
        if n_use < 1:
            raise AnchorVanished("%s no longer keeps the file node as self._node" % w.name)
        r.site("%s: %d uses of self._node" % (w.name, n_use))
