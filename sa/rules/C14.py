"""C14 Mutable check and repair preserve the newest content.

Decided: the health verdict as a path-sensitive monitor over the checker's
branch facts, the refusal gates of the repairer, what the repair republishes,
and how bad shares reach the publisher's goal (DESIGN.md section 5, C14)."""
from sa.h import *

EXPLANATION = (
    "Decided (structural, all paths): (1) MutableChecker._make_checker_results: abstract interpretation over "
    "(healthy, |recoverable| in {0,1,many}, unrecoverable empty?, shares<N?) - CheckResults(healthy=..) is reached with "
    "healthy True only when no unrecoverable version, exactly one recoverable version and not (good shares < N) are all "
    "established on the path, and with healthy False only on paths on which a branch fact rules that case out (an unrecoverable "
    "version / a number of recoverable versions other than 1 / good shares < N); the summary text says 'Healthy' only on the "
    "verdict's true branch; good/expected are "
    "shares_available()[best][0]/[2] = (number of distinct shnums - a set that share numbers are added to, N of the verinfo); (2) _got_mapupdate_results leaves "
    "need_repair False only under the same three facts; check-and-repair never passes force; (3) "
    "Repairer._got_full_servermap reaches download_version / node.upload only with best version non-empty, "
    "(not unrecoverable_newer_versions() or force), (not needs_merge() or force); force travels "
    "unchanged from MutableFileNode.repair (default False); (4) what is republished is download_version(smap, "
    "smap.best_recoverable_version()) wrapped in MutableData and handed to node.upload with the same servermap; "
    "best_recoverable_version is the maximum of the recoverable versions; (5) Publish.publish adds every "
    "get_bad_shares() key to the goal and writes it with the recorded old checkstring; mark_bad_share records the "
    "checkstring and drops the share from the known shares, Retrieve._mark_bad_share also lists it in the verifier's result; update_goal() (homes for shares that have none, i.e. the missing "
    "shares a repair restores) runs on the built goal before the writers are made from it; (6) MutableChecker.check builds "
    "the verdict after the verify pass from the servermap the verifier marked bad shares in; the verify pass is registered "
    "unless the verify flag was found false, is skipped only when there is no best version, returns the Deferred of the "
    "verifier's download (so the verdict waits for it) and hands the bad shares to _process_bad_shares, which asks for "
    "repair whenever there are any; (7) ServerMap classifies a version by comparing "
    "the number of DISTINCT share numbers of its shares with k (field 5 of the verinfo): recoverable_versions() holds "
    "exactly the versions with k <= distinct, unrecoverable_versions() exactly those with distinct < k, "
    "unrecoverable_newer_versions() keeps every version with distinct < k whose seqnum exceeds the highest seqnum of the "
    "versions with k <= distinct (that bound is raised by recoverable versions only and starts below every seqnum), "
    "needs_merge() is True whenever two recoverable versions share a seqnum, and make_versionmap() puts the share number "
    "first in the per-version share tuples that are counted; (8) the servermap the repairer's refusal gates and the "
    "republish run on is always the result of the repairer's own ServermapUpdater(..).update() in a mode for which "
    "ServermapUpdater.update queries the full permuted server list on every path (MODE_REPAIR / MODE_CHECK; the mode tests "
    "are interpreted on both edges over the MODE_* constants of mutable.common): _got_full_servermap has "
    "no other caller or reference, nothing between update() and it replaces the map, MutableFileNode.repair goes "
    "through Repairer.start, and MutableChecker.check maps in an all-servers mode as well - for MutableChecker itself and "
    "for every subclass that inherits check() (the mode expression is folded per class). "
    "(9) the version the repairer asks MutableFileNode.download_version for is the version whose contents it gets: download_version "
    "hands its `version` to get_readable_version, that one to _get_version_from_servermap, that one to its selection callback; the "
    "selection callback (abstract interpretation over 'was a version asked for' x 'what the result variable holds', all paths) "
    "returns (servermap, v) with v still the requested version whenever one was asked for - a requested version that is not "
    "recoverable in the (re-fetched, narrower MODE_READ) servermap makes the request fail, it is never replaced by that map's best "
    "version; the MutableFileVersion is built for component 1 of that result, stores it as self._version (never re-bound) and "
    "_read hands self._version to Retrieve. "
    "(10) completion policy of the mapupdate in the all-servers modes (the modes for which (8) showed that every server is asked): "
    "ServermapUpdater._check_for_done, explored per mode with the self.mode tests folded on both edges, reaches self._done() in "
    "MODE_CHECK / MODE_REPAIR only on paths on which self._queries_outstanding was found empty, or self._must_query was found "
    "empty - the latter counts only for the modes in which ServermapUpdater.update makes _must_query the set of ALL servers it "
    "sends the initial queries to and leaves extra_servers empty (decided by the same per-mode exploration of update()); "
    "self._done is called / handed on only by _check_for_done and only _done fires _done_deferred with a result; a server is "
    "taken out of _must_query only by discard(<own server parameter>) inside the handlers registered on its own query Deferred "
    "in _do_query (_got_results, _query_failed), and in _got_results only behind the DeferredList of the per-share processing "
    "(a direct call only where the update was found stopped) - so no early exit (fast path, timer, early retirement) can end a "
    "check / repair mapupdate while an asked server has not answered, whose late answer would be dropped. "
    "(11) shape-independent provenance of the per-version share count: the ServerMap queries are evaluated symbolically from "
    "self._known_shares (helper methods are followed, a loop that files per-share values under the version via DictOfSets.add / "
    "setdefault(..).add|append / defaultdict gives a per-version collection, statement loops, comprehensions and dict comprehensions "
    "over a per-version dict are equivalent forms, every test inside a per-version loop must be 'count vs k' or 'seqnum vs highest "
    "recoverable seqnum'): element 0 of shares_available()[v] - which feeds count-shares-good and, in the refactored shape, the "
    "classifiers - is len() of a SET of share numbers (a list of share numbers, or a set of (shnum, server, ..) placements, is a "
    "violation), recoverable_versions() / unrecoverable_versions() evaluate to exactly the versions with k <= count / count < k, the "
    "bound of unrecoverable_newer_versions() is the maximum seqnum over exactly the recoverable versions with a default <= 0, and every "
    "version with count < k above it is kept.  When a query is no longer a statement loop over make_versionmap().items() the loop-shaped "
    "clauses of (1)/(7) hand over to this evaluation; if it cannot follow the code either, the result is ANALYSIS-ERROR. "
    "Undecided: post-repair share counts / placement beyond update_goal() being run (what update_goal chooses, whether the "
    "writes succeed, that get_results reports success unconditionally), an unrecoverable version with the same seqnum as the best one, "
    "the completion policy of the bounded modes (MODE_READ / MODE_WRITE / MODE_ANYTHING), that a query is always answered or "
    "fails (a server that never does either stalls the all-servers update; that is a liveness, not a verdict, matter), that "
    "Retrieve decodes the verinfo it is given (C-properties of the retrieve path), that the requested version is checked for "
    "recoverability before it is returned (a miss there makes the download fail, it does not change contents). "
    "FIXED FINDING (C14.8, construct allmydata.mutable.checker:MutableCheckAndRepairer, repo commit 08c5e2f): SERVERMAP_MODE was "
    "MODE_WRITE, a bounded search (N+k initial servers, stops after k empty servers past the last share), so check_and_repair() "
    "reported 'Healthy' and started no repair while another version sat on servers beyond the boundary; it now maps in MODE_REPAIR.")
TECHNIQUE = "static analysis: CFG x abstract-state monitor (constant propagation over branch facts), must-precede gates, Deferred chain order, who-may-call, symbolic evaluation of the servermap queries through helper calls"

CHK = "mutable.checker:MutableChecker"
CAR = "mutable.checker:MutableCheckAndRepairer"
REP = "mutable.repairer:Repairer"
SMAP = "mutable.servermap:ServerMap"
PUB = "mutable.publish:Publish"
NODE = "mutable.filenode:MutableFileNode"
RET = "mutable.retrieve:Retrieve"

ALL_REC = frozenset([0, 1, 2])      # 2 stands for "more than one"
ALL_UNREC = frozenset([0, 1])       # 0 empty, 1 non-empty


def _fact(fnorm, n, lab):
    f = fnorm.edge_fact(n, lab)
    return f if f else (None, None, None)


def _as_int(s):
    try:
        return int(s)
    except (TypeError, ValueError):
        return None


def _refine_len(cur, op, l, r, target, reps):
    """Refine the abstract cardinality `cur` (subset of reps keys) of the collection whose normal form is
    `target` by the canonical comparison (op, l, r).  Returns the new set, or cur when the fact is not about it."""
    ln = "len(%s)" % target
    if op in ("truth", "false") and l in (target, ln):
        keep = {v for v in cur if (v != 0) == (op == "truth")}
        return frozenset(keep)
    if op in ("==", "!=", "<", "<="):
        a, b = _as_int(l), _as_int(r)
        if l == ln and b is not None:
            f = {"==": lambda x: x == b, "!=": lambda x: x != b, "<": lambda x: x < b, "<=": lambda x: x <= b}[op]
        elif r == ln and a is not None:
            f = {"==": lambda x: a == x, "!=": lambda x: a != x, "<": lambda x: a < x, "<=": lambda x: a <= x}[op]
        else:
            return cur
        keep = set()
        for v in cur:
            if any(f(x) for x in reps[v]):
                keep.add(v)
        return frozenset(keep)
    return cur


REPS_REC = {0: (0,), 1: (1,), 2: (2, 3, 4, 5, 50)}
REPS_UNREC = {0: (0,), 1: (1, 2, 3, 50)}


def _shares_fact(op, l, r, s_re, n_re):
    """'lt' when the fact says good < expected, 'ge' when it says expected <= good, else None."""
    if op == "<" and s_re.match(l or "") and n_re.match(r or ""):
        return "lt"
    if op == "<=" and n_re.match(l or "") and s_re.match(r or ""):
        return "ge"
    if op == "==" and {bool(s_re.match(l or "")), bool(n_re.match(r or ""))} == {True} or \
            op == "==" and s_re.match(r or "") and n_re.match(l or ""):
        return "ge"
    return None


def _const_assign(n, target):
    """value of `target = <True|False|None>` at node n: (True, value) / (True, '?') for a non-constant / (False, None)."""
    v = assign_value(n, target)
    if v is None:
        if target in node_stores(n):
            return True, "?"
        return False, None
    if isinstance(v, ast.Constant) and v.value in (True, False, None):
        return True, v.value
    return True, "?"


def _uses_everywhere(idx, tail, module_prefix=None):
    """calls of / bare references to `tail`, including inside lambda bodies (the engine sweep skips lambdas)."""
    res, seen = [], set()
    for f in idx.funcs.values():
        if tail not in f.module.source:
            continue
        if module_prefix and not f.module.name.startswith(module_prefix):
            continue
        nodes = list(func_own_nodes(f, into_lambda=True))
        callee = {id(n.func) for n in nodes if isinstance(n, ast.Call)}
        for n in nodes:
            hit = None
            if isinstance(n, ast.Call) and call_tail(n) == tail:
                hit = True
            elif isinstance(n, ast.Attribute) and n.attr == tail and isinstance(n.ctx, ast.Load) and id(n) not in callee:
                hit = False
            if hit is not None and id(n) not in seen:
                seen.add(id(n))
                res.append((f, n, hit))
    return res


def _mro_attr(ci, e):
    """the class-level definitions `NAME = expr` that ``self.NAME`` / ``cls.NAME`` (the expression `e`) denotes for class `ci`."""
    if isinstance(e, ast.Attribute) and isinstance(e.value, ast.Name):
        for c in ci.mro():
            if e.attr in c.attrs:
                return list(c.attrs[e.attr])
    return []


GFS = "_got_full_servermap"


def _gfs_entries(st):
    """How Repairer.start hands (servermap, force) to _got_full_servermap: [(registration, force expr, use node)] for
    ``d.addCallback(self._got_full_servermap, force)`` and ``d.addCallback(lambda m: self._got_full_servermap(m, force))``."""
    out = []
    for x in registrations(st):
        t = x.target
        if isinstance(t, ast.Attribute) and attr_path(t) == "self." + GFS:
            out.append((x, x.args[0] if len(x.args) == 1 else None, t))
        elif isinstance(t, ast.Lambda) and len(t.args.args) == 1 and not x.args and isinstance(t.body, ast.Call) \
                and call_name(t.body) == "self." + GFS and len(t.body.args) == 2 and not t.body.keywords \
                and isinstance(t.body.args[0], ast.Name) and t.body.args[0].id == t.args.args[0].arg:
            out.append((x, t.body.args[1], t.body))
    return out


def _unchain_regs(e):
    """strip ``.addCallback(..)``-style layers: the expression the chain starts from."""
    while isinstance(e, ast.Call) and isinstance(e.func, ast.Attribute) and e.func.attr in ("addCallback", "addErrback", "addBoth", "addCallbacks"):
        e = e.func.value
    return e


def _res(fn, fnorm, n, e, defs=None):
    """follow plain-name copies; a name with one single definition in the function (also a list/set display) is followed too."""
    for _ in range(6):
        e2 = fnorm.resolve(n, e)
        if isinstance(e2, ast.Name):
            ds = (defs if defs is not None else all_defs(fn)).get(e2.id, [])
            if len(ds) == 1 and ds[0] is not None and e2.id not in fn.params:
                e2 = ds[0]
        if e2 is e:
            break
        e = e2
    return e


def _item0_of(target, elt):
    """`elt` is component 0 of the item bound to the loop / comprehension target `target`."""
    if isinstance(target, (ast.Tuple, ast.List)) and target.elts and isinstance(target.elts[0], ast.Name):
        return isinstance(elt, ast.Name) and elt.id == target.elts[0].id
    if isinstance(target, ast.Name):
        return isinstance(elt, ast.Subscript) and isinstance(elt.value, ast.Name) and elt.value.id == target.id \
            and isinstance(elt.slice, ast.Constant) and elt.slice.value == 0 and not isinstance(elt.slice.value, bool)
    return False


def _comp_of_item0(e, coll):
    """[x0 for (x0, ..) in coll] / {..} / (..): component 0 of every element of the collection named `coll`, unfiltered."""
    if isinstance(e, (ast.SetComp, ast.ListComp, ast.GeneratorExp)) and len(e.generators) == 1:
        g = e.generators[0]
        return not g.ifs and not g.is_async and isinstance(g.iter, ast.Name) and g.iter.id == coll and _item0_of(g.target, e.elt)
    return False


def _is_distinct_item0_count(fn, fnorm, n, e, coll, loop_ast):
    """`e` is len(S) with S the SET of component 0 (the share number) of the elements of `coll`."""
    defs = all_defs(fn)
    e = _res(fn, fnorm, n, e, defs)
    if not (isinstance(e, ast.Call) and call_name(e) == "len" and len(e.args) == 1 and not e.keywords):
        return False
    x = e.args[0]
    if isinstance(x, ast.Name) and len(defs.get(x.id, [])) >= 1 and all(
            isinstance(d, ast.Call) and call_name(d) == "set" and not d.args and not d.keywords for d in defs[x.id]):
        # s = set() inside the per-version loop, filled by s.add(shnum) in `for (shnum, ..) in coll`
        inside = {id(y) for y in ast.walk(loop_ast)}
        if not all(id(d) in inside for d in defs[x.id]):
            return False
        adds = [c for c in calls_in_func(fn, "add") if attr_path(c.func.value) == x.id]
        if not adds:
            return False
        fors = [y for y in ast.walk(loop_ast) if isinstance(y, ast.For) and y is not loop_ast
                and isinstance(y.iter, ast.Name) and y.iter.id == coll]
        for c in adds:
            host = [f for f in fors if any(z is c for z in ast.walk(f))]
            if not (host and len(c.args) == 1 and _item0_of(host[0].target, c.args[0])):
                return False
        return True
    x = _res(fn, fnorm, n, x, defs)
    if isinstance(x, ast.SetComp):
        return _comp_of_item0(x, coll)
    if isinstance(x, ast.Call) and call_name(x) in ("set", "frozenset") and len(x.args) == 1 and not x.keywords:
        return _comp_of_item0(_res(fn, fnorm, n, x.args[0], defs), coll)
    return False


def _loop_iterations(cfg, head, init, step):
    """Explore ONE iteration of the loop headed by `head`: from its 'iter' edge until control is back at the head (or left
    the loop).  step(node, label, state) -> state | None.  Returns (visited, parent, [(state, witness)] back at the head)."""
    def tr(n, lab, nxt, st):
        if lab == "exc":
            return None
        if n is head:
            return init if (lab == "iter" and st == "start") else None
        if st == "start":
            return None
        return step(n, lab, st)
    visited, parent = explore(cfg, "start", tr, start=head)
    back = [(st, witness(cfg, parent, (nid, st))) for (nid, st) in sorted(visited, key=lambda x: (x[0], str(x[1])))
            if nid == head.id and st != "start"]
    return visited, parent, back


def _versionmap_loop(fn, fnorm):
    """the loop `for (verinfo, shares) in self.make_versionmap().items()` of a ServerMap method."""
    cfg = fn.cfg()
    heads = [n for n in cfg.nodes if n.kind == "iter" and re.match(
        r"^(list\()?self\.make_versionmap\(\)\.items\(\)\)?$", fnorm.norm(n, n.ast.iter))]
    if len(heads) != 1:
        raise AnchorVanished("loop over self.make_versionmap().items() in %s" % short(fn))
    t = heads[0].ast.target
    if not (isinstance(t, ast.Tuple) and len(t.elts) == 2 and all(isinstance(e, ast.Name) for e in t.elts)):
        raise AnchorVanished("(verinfo, shares) loop target in %s" % short(fn))
    return cfg, heads[0], t.elts[0].id, t.elts[1].id


def _recoverability_tests(r, fn, fnorm, cfg, head, vname, sname):
    """test nodes that compare something with k = verinfo[5]: {node id: normal form of the other side}.  The other side has
    to be the number of distinct share numbers of the version's shares."""
    kstr = "%s[5]" % vname
    tests = {}
    for n in cfg.nodes:
        if n.kind != "test":
            continue
        t = n.ast
        while isinstance(t, ast.UnaryOp) and isinstance(t.op, ast.Not):
            t = t.operand
        if not (isinstance(t, ast.Compare) and len(t.ops) == 1):
            continue
        sides = [t.left, t.comparators[0]]
        ns = [fnorm.norm(n, x) for x in sides]
        if ns.count(kstr) != 1:
            continue
        ci = 1 - ns.index(kstr)
        r.site(fn, t, "count vs k")
        if not _is_distinct_item0_count(fn, fnorm, n, sides[ci], sname, head.ast):
            r.violation(fn, fn.loc(t), "%s decides whether a version is recoverable from %s, which is not the number of distinct "
                        "share numbers among the version's shares (copies of one share number on several servers must count once)" % (
                            short(fn), src(fn, sides[ci])))
        tests[n.id] = ns[ci]
    return kstr, tests


def _cls_step(fnorm, tests, kstr, n, lab, cur):
    """refine the class of the version of this iteration: '?' unknown, 'lt' distinct < k, 'ge' k <= distinct, 'mixed'."""
    if n.kind != "test" or n.id not in tests or not isinstance(lab, tuple):
        return cur
    op, l, rr = _fact(fnorm, n, lab)
    c = tests[n.id]
    if (op, l, rr) == ("<", c, kstr):
        new = "lt"
    elif (op, l, rr) in (("<=", kstr, c), ("<", kstr, c)) or (op == "==" and {l, rr} == {c, kstr}):
        new = "ge"
    else:
        new = "mixed"
    if cur in ("?", "mixed"):
        return new
    if new == "mixed" or new == cur:
        return cur
    return None     # contradictory facts: infeasible


CLS_TXT = {"?": "its distinct share count was not compared with k", "lt": "it has fewer than k distinct shares",
           "ge": "it has at least k distinct shares", "mixed": "it may have fewer than k as well as k or more distinct shares"}


def _returned_name(fn, cfg):
    names = set()
    for n in cfg.find(is_return):
        v = n.ast.value
        if not isinstance(v, ast.Name):
            raise AnchorVanished("%s returns %s, not a local collection" % (short(fn), src(fn, v) if v is not None else "None"))
        names.add(v.id)
    if len(names) != 1:
        raise AnchorVanished("single returned collection of %s" % short(fn))
    return names.pop()


def _adds_to(n, coll, item):
    return any(isinstance(c.func, ast.Attribute) and c.func.attr == "add" and attr_path(c.func.value) == coll and len(c.args) == 1
               and isinstance(c.args[0], ast.Name) and c.args[0].id == item for c in node_calls(n))


def _strip_wrappers(e, names=("list", "sorted", "set", "tuple", "frozenset")):
    while isinstance(e, ast.Call) and call_name(e) in names and len(e.args) == 1 and not e.keywords:
        e = e.args[0]
    return e


def _all_server_modes(idx, r):
    """The mode constants for which ServermapUpdater.update sends its initial queries to the full permuted server list on
    EVERY path.  The mode tests are interpreted over the finite universe of the MODE_* constants of mutable.common, on both
    edges (so ``not in`` / a negated test / an ``else`` branch are followed, and a test that is not understood keeps all modes)."""
    folder = get_folder(idx)
    up = idx.func("mutable.servermap:ServermapUpdater.update")
    cfg = up.cfg()
    un = FlowNorm(up)
    common = idx.module("allmydata.mutable.common")
    universe = set()
    for nm in sorted(common.assigns):
        if nm.startswith("MODE_"):
            universe.add(folder.module_const("mutable.common", nm))
    universe = frozenset(universe)
    if len(universe) < 2:
        raise AnchorVanished("the MODE_* constants of allmydata.mutable.common")
    sends = [n for n in cfg.find(has_call("_send_initial_requests"))]
    qs = set()
    for n in sends:
        for c in calls_at(n, "_send_initial_requests"):
            if len(c.args) == 1 and isinstance(c.args[0], ast.Name):
                qs.add(c.args[0].id)
    if len(qs) != 1:
        raise AnchorVanished("self._send_initial_requests(<list>) in ServermapUpdater.update")
    q = qs.pop()
    full_re = re.compile(r"^(list\()*self\._storage_broker\.get_servers_for_psi\(self\._storage_index\)\)*$")

    def mode_test(n):
        """(set S, True when the test says `mode in S` / False when it says `mode not in S`) for the atomic test n."""
        t = n.ast
        if not (isinstance(t, ast.Compare) and len(t.ops) == 1):
            return None
        a, b = t.left, t.comparators[0]
        op = t.ops[0]
        try:
            if isinstance(op, (ast.In, ast.NotIn)) and un.norm(n, a) == "self.mode" and isinstance(b, (ast.Tuple, ast.List, ast.Set)):
                return frozenset(folder.fold(e, up.module, up.cls) for e in b.elts), isinstance(op, ast.In)
            if isinstance(op, (ast.Eq, ast.NotEq, ast.Is, ast.IsNot)):
                pos = isinstance(op, (ast.Eq, ast.Is))
                if un.norm(n, a) == "self.mode":
                    return frozenset([folder.fold(b, up.module, up.cls)]), pos
                if un.norm(n, b) == "self.mode":
                    return frozenset([folder.fold(a, up.module, up.cls)]), pos
        except NotConstant:
            return None
        return None

    def tr(n, lab, nxt, st):
        modes, qd = st
        if lab == "exc":
            return None
        if n.kind == "test" and isinstance(lab, tuple) and lab[0] in ("T", "F"):
            m = mode_test(n)
            if m is not None:
                S, pos = m
                modes = (modes & S) if (pos == (lab[0] == "T")) else (modes - S)
                if not modes:
                    return None
        if n.kind in ("stmt", "iter", "with") and "self.mode" in node_stores(n):
            modes = universe
        if n.kind in ("stmt", "iter", "with") and q in node_stores(n):
            v = assign_value(n, q) if n.kind == "stmt" else None
            qd = "full" if (v is not None and full_re.match(un.norm(n, v))) else "other"
        return (modes, qd)
    visited, _parent = explore(cfg, (universe, "?"), tr)
    r.count(len(visited))
    full, other = set(), set()
    for (nid, (modes, qd)) in visited:
        if cfg.nodes[nid] in sends:
            (full if qd == "full" else other).update(modes)
    # the attribute that is tested is the constructor argument
    ini = idx.func("mutable.servermap:ServermapUpdater.__init__")
    vals = [assign_value(n, "self.mode") for n in ini.cfg().nodes if "self.mode" in node_stores(n)]
    if not vals or not all(isinstance(v, ast.Name) and v.id == "mode" for v in vals) or "mode" not in ini.params:
        raise AnchorVanished("self.mode = mode in ServermapUpdater.__init__")
    return full - other


# ---- the requested version (C14.9) ------------------------------------------------------------------------------
# Abstract values of a local with respect to the version the caller asked for (`orig`, the value of the tracked
# parameter / free variable on entry):
#   "orig"  equal to the requested value
#   "sub"   equal to the requested value whenever that one is truthy (a fallback may have been substituted for "none asked")
#   "none"  None / a falsy constant
#   absent  anything else
# and `req`: what the path has established about the request: "T" a version was asked for, "F" none was, "?" untested.

def _is_none_const(e):
    return isinstance(e, ast.Constant) and (e.value is None or e.value is False)


def _req_abs(e, env):
    if isinstance(e, ast.Name):
        return env.get(e.id, "other")
    if isinstance(e, ast.Constant):
        return "none" if (e.value is None or e.value is False) else "other"
    if isinstance(e, ast.BoolOp) and isinstance(e.op, ast.Or) and _req_abs(e.values[0], env) in ("orig", "sub"):
        return "sub"                 # `v or fallback`
    if isinstance(e, ast.IfExp):
        t, a, b = e.test, e.body, e.orelse
        if isinstance(t, ast.UnaryOp) and isinstance(t.op, ast.Not):
            t, a, b = t.operand, b, a
        nm = _req_tested_name(t)
        if nm is not None:
            name, pol = nm
            if not pol:
                a, b = b, a
            if env.get(name) in ("orig", "sub") and _req_abs(a, env) in ("orig", "sub"):
                return "sub"         # `v if v else fallback`
        va, vb = _req_abs(a, env), _req_abs(b, env)
        if va == vb:
            return va
    return "other"


def _req_tested_name(t):
    """(name, polarity): the atomic test `t` is true exactly when `name` is (polarity True) / is not (False) a version."""
    if isinstance(t, ast.Name):
        return t.id, True
    if isinstance(t, ast.Compare) and len(t.ops) == 1 and isinstance(t.ops[0], (ast.Is, ast.IsNot, ast.Eq, ast.NotEq)):
        a, b = t.left, t.comparators[0]
        if isinstance(b, ast.Name) and _is_none_const(a) and a.value is None:
            a, b = b, a
        if isinstance(a, ast.Name) and isinstance(b, ast.Constant) and b.value is None:
            return a.id, isinstance(t.ops[0], (ast.IsNot, ast.NotEq))
    return None


def _request_monitor(fn, tracked, targets):
    """Follow the requested version `tracked` (a parameter or a free variable of `fn`) through fn on every path.
    targets(node) -> [(expr, what)]: expressions that have to denote the requested version at that node whenever a version
    was asked for.  Returns (number of product states, [(node, expr, what, abstract value, req, witness)])."""
    cfg = fn.cfg()

    def transfer(n, lab, nxt, st):
        req, envt = st
        if lab == "exc":
            return None
        env = dict(envt)
        if n.kind == "test" and isinstance(lab, tuple) and lab[0] in ("T", "F"):
            tn = _req_tested_name(n.ast)
            if tn is not None:
                name, pol = tn
                pol = pol == (lab[0] == "T")
                a = env.get(name)
                if a == "orig":
                    if req != "?" and (req == "T") != pol:
                        return None
                    req = "T" if pol else "F"
                elif a == "none":
                    if pol:
                        return None
                elif a == "sub" and not pol:
                    if req == "T":
                        return None
                    req = "F"
        elif n.kind in ("stmt", "iter", "with", "except"):
            a = n.ast
            simple = None
            if n.kind == "stmt" and isinstance(a, ast.Assign) and len(a.targets) == 1 and isinstance(a.targets[0], ast.Name):
                simple = (a.targets[0].id, _req_abs(a.value, env))
            elif n.kind == "stmt" and isinstance(a, ast.AnnAssign) and isinstance(a.target, ast.Name) and a.value is not None:
                simple = (a.target.id, _req_abs(a.value, env))
            for s in node_stores(n):
                env.pop(s, None)
            if n.kind == "stmt" and isinstance(a, (ast.FunctionDef, ast.AsyncFunctionDef, ast.ClassDef)):
                env.pop(a.name, None)
            if simple is not None and simple[1] != "other":
                env[simple[0]] = simple[1]
        return (req, tuple(sorted(env.items())))
    init = ("?", ((tracked, "orig"),))
    visited, parent = explore(cfg, init, transfer)
    bad, seen = [], set()
    for (nid, st) in sorted(visited, key=lambda x: (x[0], str(x[1]))):
        n = cfg.nodes[nid]
        req, envt = st
        if req == "F":
            continue
        env = dict(envt)
        for (e, what) in targets(n):
            v = _req_abs(e, env) if e is not None else "missing"
            if v in ("orig", "sub"):
                continue
            if (nid, what) in seen:
                continue
            seen.add((nid, what))
            bad.append((n, e, what, v, req, witness(cfg, parent, (nid, st))))
    return len(visited), bad


REQ_TXT = {"none": "None", "other": "a different value", "missing": "nothing"}


def _tuple_component(fn, fnorm, n, e, param, i):
    """`e` denotes component i of the parameter `param` (``(a, b) = param`` / ``param[i]``)."""
    e = _res(fn, fnorm, n, e)
    return isinstance(e, ast.Subscript) and isinstance(e.value, ast.Name) and e.value.id == param \
        and isinstance(e.slice, ast.Constant) and e.slice.value == i and not isinstance(e.slice.value, bool) \
        and not any(param in node_stores(m) for m in fn.cfg().nodes)


# ------------------------------------------------- completion policy of the mapupdate (C14.10)
UPD = "mutable.servermap:ServermapUpdater"
OUT = "self._queries_outstanding"
MUST = "self._must_query"


def _mode_universe(idx):
    folder = get_folder(idx)
    common = idx.module("allmydata.mutable.common")
    universe = frozenset(folder.module_const("mutable.common", nm) for nm in sorted(common.assigns) if nm.startswith("MODE_"))
    if len(universe) < 2:
        raise AnchorVanished("the MODE_* constants of allmydata.mutable.common")
    return universe


def _mode_refiner(idx, fn, fnorm):
    """refine(n, lab, modes) -> the subset of `modes` for which the edge (n, lab) can be taken (self.mode tests are folded
    over the MODE_* constants on both edges; any other test keeps all modes)."""
    folder = get_folder(idx)

    def mode_test(n):
        t = n.ast
        if not (isinstance(t, ast.Compare) and len(t.ops) == 1):
            return None
        a, b = t.left, t.comparators[0]
        op = t.ops[0]
        try:
            if isinstance(op, (ast.In, ast.NotIn)) and fnorm.norm(n, a) == "self.mode":
                b = fnorm.resolve(n, b)
                if isinstance(b, (ast.Tuple, ast.List, ast.Set)):
                    return frozenset(folder.fold(e, fn.module, fn.cls) for e in b.elts), isinstance(op, ast.In)
            if isinstance(op, (ast.Eq, ast.NotEq, ast.Is, ast.IsNot)):
                pos = isinstance(op, (ast.Eq, ast.Is))
                if fnorm.norm(n, a) == "self.mode":
                    return frozenset([folder.fold(b, fn.module, fn.cls)]), pos
                if fnorm.norm(n, b) == "self.mode":
                    return frozenset([folder.fold(a, fn.module, fn.cls)]), pos
        except NotConstant:
            return None
        return None

    def refine(n, lab, modes):
        if n.kind == "test" and isinstance(lab, tuple) and lab[0] in ("T", "F"):
            m = mode_test(n)
            if m is not None:
                S, pos = m
                return (modes & S) if (pos == (lab[0] == "T")) else (modes - S)
        return modes
    return refine


def _empty_fact(f, what):
    """Does the edge fact say that the set `what` is empty?"""
    if not f:
        return False
    op, l, r = f
    if op == "false" and l == what:
        return True
    ln = "len(%s)" % what
    if op == "==" and {l, r} == {ln, "0"}:
        return True
    if op == "<=" and l == ln and r == "0":
        return True
    if op == "<" and l == ln and r == "1":
        return True
    return False


def _must_query_is_everyone(idx, r, full):
    """The modes (among `full`, the all-servers modes) in which ServermapUpdater.update makes self._must_query the set of ALL
    the servers it sends a query to and leaves no extra server to be queried later: there `_must_query is empty` implies that
    no query is outstanding."""
    up = idx.func(UPD + ".update")
    cfg = up.cfg()
    un = FlowNorm(up)
    refine = _mode_refiner(idx, up, un)
    sends = cfg.find(has_call("_send_initial_requests"))
    qs = {c.args[0].id for n in sends for c in calls_at(n, "_send_initial_requests") if len(c.args) == 1 and isinstance(c.args[0], ast.Name)}
    if len(qs) != 1:
        raise AnchorVanished("self._send_initial_requests(<list>) in ServermapUpdater.update")
    q = qs.pop()
    mstores = [n for n in cfg.nodes if n.kind == "stmt" and MUST in node_stores(n)]
    if not mstores:
        raise AnchorVanished("self._must_query = .. in ServermapUpdater.update")

    def strip(e):
        while isinstance(e, ast.Call) and isinstance(e.func, ast.Name) and e.func.id in ("set", "list", "frozenset", "tuple", "sorted") \
                and len(e.args) == 1 and not e.keywords:
            e = e.args[0]
        if isinstance(e, ast.Subscript) and isinstance(e.slice, ast.Slice) and e.slice.lower is None and e.slice.upper is None \
                and e.slice.step is None:
            return strip(e.value)
        return e

    def val(n, name):
        v = assign_value(n, name) if n.kind == "stmt" else None
        if v is None:
            return "?"
        v = strip(v)
        if isinstance(v, (ast.List, ast.Tuple, ast.Set)) and not v.elts:
            return "[]"
        if isinstance(v, ast.Call) and isinstance(v.func, ast.Name) and v.func.id in ("set", "list") and not v.args:
            return "[]"
        return ast.dump(v)

    locs = set()
    for n in mstores:
        v = strip(assign_value(n, MUST)) if assign_value(n, MUST) is not None else None
        if isinstance(v, ast.Name):
            locs.add(v.id)
    qd0 = ast.dump(ast.Name(id=q, ctx=ast.Load()))

    def tr(n, lab, nxt, st):
        modes, env = st
        if lab == "exc":
            return None
        modes = refine(n, lab, modes)
        if not modes:
            return None
        if n.kind in ("stmt", "iter", "with"):
            sts = node_stores(n)
            env = dict(env)
            if "self.mode" in sts:
                modes = full
            for nm in ({q} | locs | {"self.extra_servers", MUST}) & sts:
                env[nm] = val(n, nm)
            env = tuple(sorted(env.items()))
        return (modes, env)
    visited, _p = explore(cfg, (frozenset(full), ()), tr)
    r.count(len(visited))
    good, bad = set(), set()
    for (nid, (modes, env)) in visited:
        if cfg.nodes[nid] not in sends:
            continue
        env = dict(env)
        m = env.get(MUST, "?")
        for _ in range(3):
            for nm in locs:
                if m == ast.dump(ast.Name(id=nm, ctx=ast.Load())):
                    m = env.get(nm, "?")
        qv = env.get(q, "?")
        ok = m != "?" and (m == qd0 or (qv != "?" and m == qv)) and env.get("self.extra_servers") == "[]"
        (good if ok else bad).update(modes)
    return good - bad


# ---- symbolic evaluation of the ServerMap version queries (C14.11) ------------------------------------------------
# The value of a no-argument ServerMap query is computed symbolically, by role: `self._known_shares` is the one
# source, helper calls self.m() are followed, a loop that files per-share values under the version (DictOfSets.add /
# setdefault(..).add|append / defaultdict) gives a per-version collection, a loop or comprehension over a per-version
# dict gives per-version values / a filtered set of versions.  Every test inside a per-version loop has to be a
# function of the "world" of the version - (k <= distinct ? , seqnum above the highest recoverable seqnum ?) -
# otherwise the evaluation is undecided (fail closed).
class _Undecided(Exception):
    pass


A_SERVER, A_SHNUM, A_VER, A_TS = ("server",), ("shnum",), ("ver",), ("ts",)
KSH = ("known_shares",)
W_ALL = frozenset((c, n) for c in ("ge", "lt") for n in (True, False))
W_GE = frozenset(w for w in W_ALL if w[0] == "ge")
W_LT = W_ALL - W_GE
W_NEWER = frozenset(w for w in W_ALL if w[1])
_EMPTY_CALLS = {"set": "set", "list": "list", "dict": "dict", "DictOfSets": "dos"}
_ORD = {ast.GtE: ">=", ast.Lt: "<", ast.Gt: ">", ast.LtE: "<="}
_FLIP = {">=": "<=", "<=": ">=", "<": ">", ">": "<"}


def _describe(v):
    if v == A_SHNUM:
        return "share numbers"
    if v == A_SERVER:
        return "servers"
    if v == A_VER:
        return "versions"
    if v == A_TS:
        return "timestamps"
    if v[0] == "tuple":
        return "(%s) tuples" % ", ".join(_describe(x).rstrip("s") if x[0] != "tuple" else _describe(x) for x in v[1])
    return str(v[-1])


class _SMEval:
    def __init__(self, idx):
        self.idx = idx
        self.memo = {}
        self.active = []
        self.problems = []          # (fn, node, message)
        self._pseen = set()

    def problem(self, fn, node, msg):
        key = (fn.qual, id(node), msg)
        if key not in self._pseen:
            self._pseen.add(key)
            self.problems.append((fn, node, msg))

    def und(self, fn, node, what):
        raise _Undecided("%s %s: %s is not followed" % (short(fn), fn.loc(node) if node is not None else "", what))

    # -- methods
    def method(self, name):
        if name in self.memo:
            v = self.memo[name]
            if isinstance(v, _Undecided):
                raise v
            return v
        if name in self.active:
            raise _Undecided("ServerMap.%s is recursive" % name)
        try:
            fn = self.idx.func(SMAP + "." + name)
        except AnchorVanished:
            raise _Undecided("ServerMap.%s is not a method of the class" % name)
        self.active.append(name)
        try:
            v = self.run_fn(fn)
        except _Undecided as e:
            self.memo[name] = e
            raise
        finally:
            self.active.pop()
        self.memo[name] = v
        return v

    def decided(self, name):
        try:
            self.method(name)
            return True
        except _Undecided:
            return False

    def run_fn(self, fn):
        if len(fn.params) != 1 or fn.node.args.vararg or fn.node.args.kwarg:
            self.und(fn, None, "a query that takes arguments")
        env = {}
        for st in fn.node.body:
            if isinstance(st, ast.Expr) and isinstance(st.value, ast.Constant):
                continue
            if isinstance(st, ast.Pass):
                continue
            if isinstance(st, ast.Return):
                if st.value is None:
                    self.und(fn, st, "a bare return")
                return self.ev(fn, st.value, env)
            if isinstance(st, ast.Assign) and len(st.targets) == 1 and isinstance(st.targets[0], (ast.Name, ast.Tuple, ast.List)):
                self.bind(fn, st.targets[0], self.ev(fn, st.value, env), env)
            elif isinstance(st, ast.For) and not st.orelse:
                self.loop(fn, st, env)
            else:
                self.und(fn, st, "the statement %s" % src(fn, st).split("\n")[0])
        self.und(fn, None, "a query without a final return")

    # -- values
    def bind(self, fn, tg, val, env):
        if isinstance(tg, ast.Name):
            env[tg.id] = val
            return
        if isinstance(tg, (ast.Tuple, ast.List)) and not any(isinstance(e, ast.Starred) for e in tg.elts):
            if val == A_VER:
                for i, t in enumerate(tg.elts):
                    self.bind(fn, t, ("verfield", i), env)
                return
            if val[0] == "tuple" and len(val[1]) == len(tg.elts):
                for t, v in zip(tg.elts, val[1]):
                    self.bind(fn, t, v, env)
                return
            if val[0] == "opaque":
                for t in tg.elts:
                    self.bind(fn, t, ("opaque", "a part of " + val[1]), env)
                return
        self.und(fn, tg, "the binding of %s" % src(fn, tg))

    def iterable(self, fn, node, v):
        """(element, worlds | None, level): what iterating over the value yields."""
        if v[0] == "iter":
            return v[1:]
        if v[0] == "pv":
            return (A_VER, W_ALL, "version")
        if v[0] == "pvf":
            return (A_VER, v[1], "version")
        if v[0] == "verset":
            return (A_VER, v[1], "version")
        if v[0] == "coll":
            return (v[2], None, "inner")
        if v == KSH:
            return (("tuple", (A_SERVER, A_SHNUM)), None, "share")
        self.und(fn, node, "iteration over %s" % src(fn, node))

    def ev(self, fn, e, env):
        if isinstance(e, ast.Name):
            return env.get(e.id, ("opaque", e.id))
        if isinstance(e, ast.Constant):
            return ("const", e.value)
        if isinstance(e, ast.UnaryOp) and isinstance(e.op, ast.USub) and isinstance(e.operand, ast.Constant) \
                and isinstance(e.operand.value, int):
            return ("const", -e.operand.value)
        if isinstance(e, ast.Attribute):
            if attr_path(e) == "self._known_shares":
                return KSH
            return ("opaque", src(fn, e))
        if isinstance(e, ast.Tuple):
            return ("tuple", tuple(self.ev(fn, x, env) for x in e.elts))
        if isinstance(e, (ast.List, ast.Set)) and not e.elts:
            return ("empty", "list" if isinstance(e, ast.List) else "set")
        if isinstance(e, ast.Dict) and not e.keys:
            return ("empty", "dict")
        if isinstance(e, ast.Subscript):
            v = self.ev(fn, e.value, env)
            i = e.slice
            if isinstance(i, ast.Constant) and isinstance(i.value, int) and not isinstance(i.value, bool) and i.value >= 0:
                if v == A_VER:
                    return ("verfield", i.value)
                if v[0] == "tuple" and i.value < len(v[1]):
                    return v[1][i.value]
            elif v[0] == "pv" and self.ev(fn, i, env) == A_VER:
                return v[1]
            return ("opaque", src(fn, e))
        if isinstance(e, ast.Call):
            return self.ev_call(fn, e, env)
        if isinstance(e, (ast.ListComp, ast.SetComp, ast.GeneratorExp, ast.DictComp)):
            return self.ev_comp(fn, e, env)
        return ("opaque", src(fn, e))

    def ev_call(self, fn, e, env):
        f = e.func
        plain = not e.keywords and not any(isinstance(a, ast.Starred) for a in e.args)
        if isinstance(f, ast.Attribute) and isinstance(f.value, ast.Name) and f.value.id == fn.params[0] and plain and not e.args:
            return self.method(f.attr)
        if isinstance(f, ast.Attribute) and f.attr in ("items", "keys", "values") and plain and not e.args:
            v = self.ev(fn, f.value, env)
            if v[0] in ("pv", "pvf"):
                W = W_ALL if v[0] == "pv" else v[1]
                V = v[-1]
                el = {"items": ("tuple", (A_VER, V)), "keys": A_VER, "values": V}[f.attr]
                return ("iter", el, W, "version")
            if v == KSH:
                k, val = ("tuple", (A_SERVER, A_SHNUM)), ("tuple", (A_VER, A_TS))
                return ("iter", {"items": ("tuple", (k, val)), "keys": k, "values": val}[f.attr], None, "share")
            return ("opaque", src(fn, e))
        name = f.id if isinstance(f, ast.Name) else (f.attr if isinstance(f, ast.Attribute) else None)
        if name in _EMPTY_CALLS and plain and not e.args:
            return ("empty", _EMPTY_CALLS[name])
        if name == "defaultdict" and plain and len(e.args) == 1 and isinstance(e.args[0], ast.Name) and e.args[0].id in ("set", "list"):
            return ("empty", "dd-" + e.args[0].id)
        if isinstance(f, ast.Name) and plain and len(e.args) == 1:
            a = self.ev(fn, e.args[0], env)
            if f.id in ("list", "tuple", "sorted"):
                if a[0] in ("iter", "coll", "verset", "seqs"):
                    return a
                if a[0] in ("pv", "pvf"):
                    return ("verset", W_ALL if a[0] == "pv" else a[1])
            if f.id in ("set", "frozenset"):
                if a[0] == "coll":
                    return ("coll", True, a[2])
                if a[0] == "verset":
                    return a
                if a[0] in ("pv", "pvf"):
                    return ("verset", W_ALL if a[0] == "pv" else a[1])
                if a[0] == "iter" and a[3] == "version" and a[1] == A_VER:
                    return ("verset", a[2])
            if f.id == "dict":
                if a[0] in ("pv", "pvf"):
                    return a
                if a[0] == "iter" and a[3] == "version" and a[1][0] == "tuple" and len(a[1][1]) == 2 and a[1][1][0] == A_VER:
                    return ("pv", a[1][1][1]) if a[2] == W_ALL else ("pvf", a[2], a[1][1][1])
            if f.id == "len":
                if a[0] == "coll":
                    if a[1] and a[2] == A_SHNUM:
                        return ("count", "distinct")
                    return ("count", "instances", "the number of elements of a %s of %s" % (
                        "set" if a[1] else "list", _describe(a[2])))
                if a[0] == "empty":
                    return ("count", "instances", "the size of a collection that nothing is put into")
        if isinstance(f, ast.Name) and f.id == "max" and len(e.args) == 1 and not isinstance(e.args[0], ast.Starred):
            a = self.ev(fn, e.args[0], env)
            d = [k for k in e.keywords if k.arg == "default"]
            if a[0] == "seqs" and len(d) == 1 and len(e.keywords) == 1:
                c = self.ev(fn, d[0].value, env)
                if c[0] == "const" and isinstance(c[1], int):
                    return ("maxseq", a[1], c[1])
        return ("opaque", src(fn, e))

    def ev_comp(self, fn, e, env):
        if len(e.generators) != 1 or e.generators[0].is_async:
            return ("opaque", src(fn, e))
        g = e.generators[0]
        el, W, level = self.iterable(fn, g.iter, self.ev(fn, g.iter, env))
        env2 = dict(env)
        self.bind(fn, g.target, el, env2)
        if level == "version":
            for c in g.ifs:
                W = W & self.truthset(fn, c, env2)
            if isinstance(e, ast.DictComp):
                if self.ev(fn, e.key, env2) != A_VER:
                    self.und(fn, e, "a dict keyed by %s" % src(fn, e.key))
                V = self.ev(fn, e.value, env2)
                return ("pv", V) if W == W_ALL else ("pvf", W, V)
            x = self.ev(fn, e.elt, env2)
            if x == A_VER:
                return ("verset", W)
            if x == ("verfield", 0):
                return ("seqs", W)
            if x[0] == "tuple" and len(x[1]) == 2 and x[1][0] == A_VER and not isinstance(e, ast.SetComp):
                return ("iter", x, W, "version")        # (version, value) pairs of the versions of W: dict(..) of it is per-version
            self.und(fn, e, "a collection of %s per version" % src(fn, e.elt))
        if level == "inner":
            if g.ifs or isinstance(e, ast.DictComp):
                self.und(fn, e, "a filtered / keyed selection of a version's shares")
            x = self.ev(fn, e.elt, env2)
            return ("coll", True if isinstance(e, ast.SetComp) else (x == el and self._coll_distinct(fn, g.iter, env)), x)
        self.und(fn, e, "a comprehension over all known shares")

    def _coll_distinct(self, fn, it, env):
        v = self.ev(fn, it, env)
        return v[0] == "coll" and v[1]

    # -- tests inside a per-version context
    def truthset(self, fn, t, env):
        if isinstance(t, ast.UnaryOp) and isinstance(t.op, ast.Not):
            return W_ALL - self.truthset(fn, t.operand, env)
        if isinstance(t, ast.BoolOp):
            sets = [self.truthset(fn, x, env) for x in t.values]
            out = sets[0]
            for s in sets[1:]:
                out = (out & s) if isinstance(t.op, ast.And) else (out | s)
            return out
        if isinstance(t, ast.Compare) and len(t.ops) == 1 and type(t.ops[0]) in _ORD:
            op = _ORD[type(t.ops[0])]
            l, r_ = self.ev(fn, t.left, env), self.ev(fn, t.comparators[0], env)
            if r_[0] == "count" or l[0] == "maxseq":
                l, r_, op = r_, l, _FLIP[op]
            if l[0] == "count":             # count OP k
                if r_[0] != "verfield":
                    self.und(fn, t, "the comparison of a share count with %s" % src(fn, t))
                if r_[1] != 5:
                    self.problem(fn, t, "%s compares the share count of a version with field %d of the verinfo, not with k (field 5)" % (
                        src(fn, t), r_[1]))
                if l[1] != "distinct":
                    self.problem(fn, t, "%s decides whether a version is recoverable from %s, which is not the number of DISTINCT share "
                                 "numbers among the version's shares (a share number held by two servers must count once)" % (src(fn, t), l[2]))
                if op in (">", "<="):
                    self.problem(fn, t, "%s does not separate the versions with k <= distinct shares from those with distinct < k "
                                 "(a version with exactly k distinct shares is recoverable)" % src(fn, t))
                return W_GE if op in (">=", ">") else W_LT
            if l == ("verfield", 0) and r_[0] == "maxseq":      # seqnum OP highest recoverable seqnum
                if r_[1] != W_GE:
                    self.problem(fn, t, "%s compares the seqnum with a bound that is the highest seqnum of versions %s, not of exactly "
                                 "the recoverable ones: an unrecoverable newer version can hide itself or another one" % (
                                     src(fn, t), _worlds_txt(r_[1])))
                if r_[2] > 0:
                    self.problem(fn, t, "the highest recoverable seqnum defaults to %d, which is not below every sequence number" % r_[2])
                return W_NEWER if op in (">", ">=") else (W_ALL - W_NEWER)
        self.und(fn, t, "the test %s (neither 'distinct share count vs k' nor 'seqnum vs highest recoverable seqnum')" % src(fn, t))

    # -- loops
    def _grouping(self, fn, c, env):
        """`c` files a per-share value under the version: (dict name, collection kind, value expr) or None."""
        f = c.func
        if not isinstance(f, ast.Attribute) or c.keywords:
            return None
        rv = f.value
        if f.attr == "add" and len(c.args) == 2 and isinstance(rv, ast.Name) and env.get(rv.id) == ("empty", "dos"):
            return (rv.id, "set", c.args[0], c.args[1])
        if f.attr in ("add", "append") and len(c.args) == 1:
            kind = "set" if f.attr == "add" else "list"
            if isinstance(rv, ast.Call) and isinstance(rv.func, ast.Attribute) and rv.func.attr == "setdefault" and len(rv.args) == 2 \
                    and not rv.keywords and isinstance(rv.func.value, ast.Name) \
                    and env.get(rv.func.value.id) in (("empty", "dict"), ("empty", "dos")) \
                    and self.ev(fn, rv.args[1], env) == ("empty", kind):
                return (rv.func.value.id, kind, rv.args[0], c.args[0])
            if isinstance(rv, ast.Subscript) and isinstance(rv.value, ast.Name) and env.get(rv.value.id) == ("empty", "dd-" + kind):
                return (rv.value.id, kind, rv.slice, c.args[0])
        return None

    def loop(self, fn, st, env):
        el, W, level = self.iterable(fn, st.iter, self.ev(fn, st.iter, env))
        if level == "share":
            loc = dict(env)
            self.bind(fn, st.target, el, loc)
            done = {}
            for s in st.body:
                if isinstance(s, ast.Pass):
                    continue
                if isinstance(s, ast.Assign) and len(s.targets) == 1 and isinstance(s.targets[0], (ast.Tuple, ast.List)):
                    self.bind(fn, s.targets[0], self.ev(fn, s.value, loc), loc)
                    continue
                g = self._grouping(fn, s.value, loc) if isinstance(s, ast.Expr) and isinstance(s.value, ast.Call) else None
                if g is None or g[0] in done or self.ev(fn, g[2], loc) != A_VER:
                    self.und(fn, s, "the statement %s in a loop over all known shares" % src(fn, s).split("\n")[0])
                done[g[0]] = ("pv", ("coll", g[1] == "set", self.ev(fn, g[3], loc)))
            env.update(done)
            return
        if level != "version":
            self.und(fn, st, "a loop over %s" % src(fn, st.iter))
        outer = {n for (n, v) in env.items() if v[0] in ("empty", "const")}     # what the loop may accumulate into
        effects = []            # (name, kind, payload, worlds)
        start = dict(env)
        self.bind(fn, st.target, el, start)
        self.block(fn, st.body, W, start, outer, effects)
        by = {}
        for (nm, kind, payload, w) in effects:
            by.setdefault(nm, []).append((kind, payload, w))
        for nm, effs in by.items():
            kinds = {k for (k, _p, _w) in effs}
            inc = frozenset().union(*[w for (_k, _p, w) in effs])
            pay = {p for (_k, p, _w) in effs}
            if len(kinds) != 1 or len(pay) != 1:
                self.und(fn, st, "the different things the loop does to %s" % nm)
            kind, p = kinds.pop(), pay.pop()
            if kind == "store":
                env[nm] = ("pv", p) if inc == W_ALL else ("pvf", inc, p)
            elif kind == "add":
                env[nm] = ("verset", inc)
            else:
                env[nm] = ("maxseq", inc, p)

    def block(self, fn, stmts, W, env, outer, effects):
        """Execute the statements for the versions of the worlds W; returns the states [(W, env)] that fall through."""
        states = [(W, env)]
        for s in stmts:
            nxt = []
            for (w, e) in states:
                nxt.extend(self.stmt(fn, s, w, e, outer, effects))
            states = nxt
        return states

    def _max_idiom(self, fn, s, env, outer):
        """``if seqnum > H: H = seqnum`` (H a running maximum that outlives the loop): (H, its initial constant) or None."""
        t = s.test
        if s.orelse or len(s.body) != 1 or not (isinstance(t, ast.Compare) and len(t.ops) == 1 and type(t.ops[0]) in _ORD):
            return None
        b = s.body[0]
        if not (isinstance(b, ast.Assign) and len(b.targets) == 1 and isinstance(b.targets[0], ast.Name) and b.targets[0].id in outer):
            return None
        h = b.targets[0].id
        cur = env.get(h)
        if not (cur is not None and cur[0] == "const" and isinstance(cur[1], int)) or self.ev(fn, b.value, env) != ("verfield", 0):
            return None
        op, l, r_ = _ORD[type(t.ops[0])], t.left, t.comparators[0]
        if isinstance(l, ast.Name) and l.id == h:
            op, l, r_ = _FLIP[op], r_, l
        if op in (">", ">=") and isinstance(r_, ast.Name) and r_.id == h and self.ev(fn, l, env) == ("verfield", 0):
            return (h, cur[1])
        return None

    def stmt(self, fn, s, W, env, outer, effects):
        if isinstance(s, ast.Pass) or (isinstance(s, ast.Expr) and isinstance(s.value, ast.Constant)):
            return [(W, env)]
        if isinstance(s, ast.Continue):
            return []
        if isinstance(s, ast.If):
            acc = self._max_idiom(fn, s, env, outer)
            if acc is not None:
                effects.append((acc[0], "max", acc[1], W))
                return [(W, env)]
            T = self.truthset(fn, s.test, env)
            out = []
            if W & T:
                out.extend(self.block(fn, s.body, W & T, dict(env), outer, effects))
            if W - T:
                out.extend(self.block(fn, s.orelse, W - T, dict(env), outer, effects))
            return out
        if isinstance(s, ast.Assign) and len(s.targets) == 1:
            tg = s.targets[0]
            if isinstance(tg, ast.Name) and tg.id in outer:
                v = s.value
                cur = env.get(tg.id)
                if isinstance(v, ast.Call) and isinstance(v.func, ast.Name) and v.func.id == "max" and len(v.args) == 2 and not v.keywords \
                        and cur is not None and cur[0] == "const" and isinstance(cur[1], int):
                    others = [a for a in v.args if not (isinstance(a, ast.Name) and a.id == tg.id)]
                    if len(others) == 1 and self.ev(fn, others[0], env) == ("verfield", 0):
                        effects.append((tg.id, "max", cur[1], W))
                        return [(W, env)]
                self.und(fn, s, "the update %s of a variable that outlives the loop" % src(fn, s))
            if isinstance(tg, (ast.Name, ast.Tuple, ast.List)):
                env = dict(env)
                self.bind(fn, tg, self.ev(fn, s.value, env), env)
                return [(W, env)]
            if isinstance(tg, ast.Subscript) and isinstance(tg.value, ast.Name) and tg.value.id in outer \
                    and env.get(tg.value.id) == ("empty", "dict") and self.ev(fn, tg.slice, env) == A_VER:
                effects.append((tg.value.id, "store", self.ev(fn, s.value, env), W))
                return [(W, env)]
        if isinstance(s, ast.Expr) and isinstance(s.value, ast.Call):
            c = s.value
            f = c.func
            if isinstance(f, ast.Attribute) and isinstance(f.value, ast.Name) and f.attr in ("add", "append") and len(c.args) == 1 \
                    and not c.keywords and f.value.id in outer and self.ev(fn, c.args[0], env) == A_VER \
                    and env.get(f.value.id) == ("empty", "set" if f.attr == "add" else "list"):
                effects.append((f.value.id, "add", None, W))
                return [(W, env)]
            if not any(isinstance(x, ast.Name) and isinstance(x.ctx, ast.Load) and env.get(x.id, ("opaque",))[0] != "opaque"
                       and env.get(x.id) not in (A_VER, A_SHNUM, A_SERVER, A_TS) and env.get(x.id)[0] not in ("verfield", "count", "const")
                       for x in ast.walk(c)):
                return [(W, env)]       # a call that touches none of the collections that are built (e.g. logging)
        if isinstance(s, ast.For) and not s.orelse:
            el, _w, level = self.iterable(fn, s.iter, self.ev(fn, s.iter, env))
            if level == "inner":
                loc = dict(env)
                self.bind(fn, s.target, el, loc)
                env = dict(env)
                filled = set()
                for b in s.body:
                    if isinstance(b, ast.Pass):
                        continue
                    c = b.value if isinstance(b, ast.Expr) and isinstance(b.value, ast.Call) else None
                    f = c.func if c is not None else None
                    if not (isinstance(f, ast.Attribute) and isinstance(f.value, ast.Name) and f.attr in ("add", "append")
                            and len(c.args) == 1 and not c.keywords and f.value.id not in outer and f.value.id not in filled
                            and env.get(f.value.id) == ("empty", "set" if f.attr == "add" else "list")):
                        self.und(fn, b, "the statement %s in a loop over a version's shares" % src(fn, b).split("\n")[0])
                    filled.add(f.value.id)
                    env[f.value.id] = ("coll", f.attr == "add", self.ev(fn, c.args[0], loc))
                return [(W, env)]
        self.und(fn, s, "the statement %s in a loop over the versions" % src(fn, s).split("\n")[0])


def _worlds_txt(W):
    cls = {c for (c, _n) in W}
    if cls == {"ge", "lt"}:
        return "of either class (k <= distinct as well as distinct < k)"
    if cls == {"lt"}:
        return "with fewer than k distinct shares"
    if cls == {"ge"}:
        return "with at least k distinct shares"
    return "of no class"


_SM_CACHE = {}


def _sm_eval(idx):
    if id(idx) not in _SM_CACHE:
        _SM_CACHE.clear()
        _SM_CACHE[id(idx)] = (idx, _SMEval(idx))
    return _SM_CACHE[id(idx)][1]


def _legacy_or_symbolic(idx, r, mname, nsites, check, *args):
    """Run the loop-shaped check of ServerMap.<mname>.  When the method is no longer written as a statement loop over
    self.make_versionmap().items() (anchor vanished), the clause is left to the symbolic evaluation of C14.11 - provided that
    one does decide the method; otherwise the anchor error stands (fail closed)."""
    try:
        check(*args)
    except AnchorVanished:
        if not _sm_eval(idx).decided(mname):
            raise
        fn = idx.func(SMAP + "." + mname)
        for _ in range(nsites):
            r.site(fn, None, "not loop-shaped: decided by the symbolic evaluation of C14.11")


def _shares_available_loop(idx, r):
    sa = idx.func(SMAP + ".shares_available")
    sn_ = FlowNorm(sa)
    _sacfg, sa_head, _sa_v, sa_shares = _versionmap_loop(sa, sn_)
    k = 0
    for n in sa.cfg().nodes:
        a = n.ast
        if n.kind == "stmt" and isinstance(a, ast.Assign) and len(a.targets) == 1 and isinstance(a.targets[0], ast.Subscript) \
                and isinstance(a.value, ast.Tuple) and len(a.value.elts) == 3:
            k += 1
            r.site(sa, a, "(distinct shares, k, N)")
            e0 = a.value.elts[0]
            ok0 = isinstance(e0, ast.Call) and call_name(e0) == "len" and len(e0.args) == 1
            if ok0:
                x = e0.args[0]
                if isinstance(x, ast.Name):
                    ds = [d for d in all_defs(sa).get(x.id, [])]
                    ok0 = bool(ds) and all(isinstance(d, (ast.SetComp,)) or (isinstance(d, ast.Call) and call_name(d) == "set") for d in ds)
                    # what goes into the set is the share number of the version's shares: component 0 of the loop
                    # target of a loop over the shares of this version (the local is found by that role, not by name)
                    adds = [c for c in calls_in_func(sa, "add") if attr_path(c.func.value) == x.id]
                    fors = [y for y in ast.walk(sa_head.ast) if isinstance(y, ast.For) and y is not sa_head.ast
                            and isinstance(y.iter, ast.Name) and y.iter.id == sa_shares]
                    for c in adds:
                        host = [f for f in fors if any(z is c for z in ast.walk(f))]
                        ok0 = ok0 and len(c.args) == 1 and bool(host) and _item0_of(host[0].target, c.args[0])
                    if any(isinstance(d, ast.Call) and call_name(d) == "set" and not d.args for d in ds) and not adds:
                        ok0 = False      # an empty set that nothing is added to: every version would count 0 good shares
                else:
                    ok0 = isinstance(x, (ast.SetComp,)) or (isinstance(x, ast.Call) and call_name(x) == "set")
            r.require(ok0, sa, sa.loc(a), "good-share count %s is not the number of distinct share numbers" % src(sa, e0))
            nn = sn_.norm(n, a.value.elts[2])
            kk = sn_.norm(n, a.value.elts[1])
            r.require(re.match(r"^\w+\[6\]$", nn) is not None and re.match(r"^\w+\[5\]$", kk) is not None, sa, sa.loc(a),
                      "(k, N) reported are (%s, %s), not fields 5 and 6 of the version" % (kk, nn))
    if not k:
        raise AnchorVanished("shares_available tuple store")


def _class_loop(idx, r, mname, want, other):
    fn = idx.func(SMAP + "." + mname)
    fnorm = FlowNorm(fn)
    cfg, head, vname, sname = _versionmap_loop(fn, fnorm)
    kstr, tests = _recoverability_tests(r, fn, fnorm, cfg, head, vname, sname)
    R = _returned_name(fn, cfg)
    if not any(_adds_to(n, R, vname) for n in cfg.nodes):
        raise AnchorVanished("%s.add(%s) in %s" % (R, vname, mname))

    def step(n, lab, st, _f=fnorm, _t=tests, _k=kstr, _R=R, _v=vname):
        cls, added = st
        cls = _cls_step(_f, _t, _k, n, lab, cls)
        if cls is None:
            return None
        if n.kind == "stmt" and _adds_to(n, _R, _v):
            added = True
        return (cls, added)
    visited, parent, back = _loop_iterations(cfg, head, ("?", False), step)
    r.count(len(visited))
    for (nid, st) in visited:
        if st != "start" and cfg.nodes[nid].kind == "exit":
            raise AnalysisError("%s leaves its version loop early (%s)" % (mname, witness(cfg, parent, (nid, st)).brief()))
    seen = set()
    for ((cls, added), w) in back:
        if added and cls != want and ("add", cls) not in seen:
            seen.add(("add", cls))
            r.violation(fn, fn.loc(head.ast), "%s() includes a version although %s (path: %s)" % (mname, CLS_TXT[cls], w.brief()), w)
        if not added and cls in (want, "mixed") and ("skip", cls) not in seen:
            seen.add(("skip", cls))
            r.violation(fn, fn.loc(head.ast), "%s() leaves a version out although %s (path: %s)" % (mname, CLS_TXT[cls], w.brief()), w)


def _newer_versions_loops(idx, r):
    fn = idx.func(SMAP + ".unrecoverable_newer_versions")
    fnorm = FlowNorm(fn)
    cfg, head, vname, sname = _versionmap_loop(fn, fnorm)
    kstr, tests = _recoverability_tests(r, fn, fnorm, cfg, head, vname, sname)
    D = _returned_name(fn, cfg)
    # second loop: the one whose body stores D[v2]
    body_of = {}
    for h in cfg.nodes:
        if h.kind == "iter" and h is not head:
            vis, _p, _b = _loop_iterations(cfg, h, 0, lambda n, lab, st: st)
            body_of[h.id] = {nid for (nid, st) in vis if st != "start"}

    def d_store(n, item):
        a = n.ast
        return n.kind == "stmt" and isinstance(a, ast.Assign) and len(a.targets) == 1 and isinstance(a.targets[0], ast.Subscript) \
            and attr_path(a.targets[0].value) == D and isinstance(a.targets[0].slice, ast.Name) and a.targets[0].slice.id == item
    head2 = None
    for h in cfg.nodes:
        if h.id in body_of and isinstance(h.ast.target, ast.Name) and any(d_store(cfg.nodes[i], h.ast.target.id) for i in body_of[h.id]):
            head2 = h
    if head2 is None:
        raise AnchorVanished("loop that fills the returned dict %s in unrecoverable_newer_versions" % D)
    v2 = head2.ast.target.id
    U = _strip_wrappers(head2.ast.iter)
    if not isinstance(U, ast.Name):
        raise AnchorVanished("collection of unrecoverable versions iterated in unrecoverable_newer_versions")
    U = U.id
    vis1, _p1, _b1 = _loop_iterations(cfg, head, 0, lambda n, lab, st: st)
    body1 = {nid for (nid, st) in vis1 if st != "start" and nid != head.id}
    stored1 = set()
    for i in body1:
        stored1 |= {x for x in node_stores(cfg.nodes[i]) if re.match(r"^\w+$", x)}
    read2 = set()
    for i in body_of[head2.id]:
        m = cfg.nodes[i]
        if m.kind == "test":
            read2 |= {x.id for x in ast.walk(m.ast) if isinstance(x, ast.Name)}
    stored2 = set()
    for i in body_of[head2.id]:
        stored2 |= node_stores(cfg.nodes[i])
    hs = (stored1 & read2) - stored2 - {vname, sname, v2}     # carried over, not a per-iteration local of the second loop
    if len(hs) != 1:
        raise AnchorVanished("the highest recoverable seqnum carried from the classification loop to the newer-than test (candidates %s)" % sorted(hs))
    H = hs.pop()
    V0, S2 = "%s[0]" % vname, "%s[0]" % v2
    r.site(fn, head2.ast, "newer-than loop over %s against %s" % (U, H))

    def h_store_ok(n):
        v = assign_value(n, H)
        if v is None:
            return False
        if fnorm.norm(n, v) == V0:
            return True
        if isinstance(v, ast.Call) and call_name(v) == "max" and len(v.args) == 2 and not v.keywords:
            return sorted(fnorm.norm(n, a) for a in v.args) == sorted([H, V0])
        return False

    def step1(n, lab, st):
        cls, added, hbad = st
        cls = _cls_step(fnorm, tests, kstr, n, lab, cls)
        if cls is None:
            return None
        if n.kind == "stmt" and _adds_to(n, U, vname):
            added = True
        if n.kind in ("stmt", "iter", "with") and H in node_stores(n):
            if not (n.kind == "stmt" and h_store_ok(n)):
                hbad = "value"
            elif cls != "ge":
                hbad = hbad or "class"
        return (cls, added, hbad)
    if not any(_adds_to(n, U, vname) for n in cfg.nodes):
        raise AnchorVanished("%s.add(%s) in unrecoverable_newer_versions" % (U, vname))
    visited, parent, back = _loop_iterations(cfg, head, ("?", False, ""), step1)
    r.count(len(visited))
    for (nid, st) in visited:
        if st != "start" and cfg.nodes[nid].kind == "exit":
            raise AnalysisError("unrecoverable_newer_versions leaves its version loop early")
    seen = set()
    for ((cls, added, hbad), w) in back:
        if not added and cls in ("lt", "mixed") and ("skip", cls) not in seen:
            seen.add(("skip", cls))
            r.violation(fn, fn.loc(head.ast), "unrecoverable_newer_versions() does not consider a version unrecoverable although %s: "
                        "repair without force would not refuse to discard it (path: %s)" % (CLS_TXT[cls], w.brief()), w)
        if not added and cls == "?" and not tests and "untested" not in seen:
            seen.add("untested")
            r.violation(fn, fn.loc(head.ast), "unrecoverable_newer_versions() never compares a version's distinct share count with k")
        if hbad == "value" and "hv" not in seen:
            seen.add("hv")
            r.violation(fn, fn.loc(head.ast), "%s is set to something other than max(%s, seqnum of the version) (path: %s)" % (H, H, w.brief()), w)
        if hbad == "class" and "hc" not in seen:
            seen.add("hc")
            r.violation(fn, fn.loc(head.ast), "%s is raised by a version of which %s: a newer unrecoverable version would hide itself "
                        "or another one from the newer-than test (path: %s)" % (H, CLS_TXT[cls], w.brief()), w)
    # H elsewhere: only constants below every seqnum
    for n in cfg.nodes:
        if n.id in body1 or H not in node_stores(n):
            continue
        v = assign_value(n, H) if n.kind == "stmt" else None
        try:
            c = ast.literal_eval(v) if v is not None else None
        except (ValueError, TypeError, SyntaxError):
            c = None
        r.require(isinstance(c, int) and not isinstance(c, bool) and c <= 0, fn, fn.loc(n.ast),
                  "%s is set to %s outside the classification loop: it must start below every sequence number and only grow with "
                  "recoverable versions" % (H, src(fn, v) if v is not None else "an opaque value"))

    def step2(n, lab, st):
        gated, stored = st
        if n.kind == "test" and isinstance(lab, tuple):
            op, l, rr = _fact(fnorm, n, lab)
            if (op, l, rr) in (("<=", S2, H), ("<", S2, H)) or (op == "==" and {l, rr} == {S2, H}):
                gated = True
        if d_store(n, v2):
            stored = True
        return (gated, stored)
    visited, parent, back = _loop_iterations(cfg, head2, (False, False), step2)
    r.count(len(visited))
    for (nid, st) in visited:
        if st != "start" and cfg.nodes[nid].kind == "exit":
            raise AnalysisError("unrecoverable_newer_versions leaves its second loop early")
    for ((gated, stored), w) in back:
        if not stored and not gated:
            r.violation(fn, fn.loc(head2.ast), "an unrecoverable version is left out of unrecoverable_newer_versions() without its seqnum "
                        "having been found <= the highest recoverable seqnum %s (path: %s)" % (H, w.brief()), w)
            break


def run(ctx: Context):
    idx = ctx.idx
    cg = get_callgraph(idx)

    # -- 1. the health verdict --------------------------------------------------
    with ctx.rule("C14.1", "R3/E3", "_make_checker_results: healthy=True reaches CheckResults only with no unrecoverable "
                  "version, exactly one recoverable version and not (good shares < N); healthy=False never with all three",
                  expected=5) as r:
        fn = idx.func(CHK + "._make_checker_results")
        smap = first_positional_params(fn)[0]
        cfg = fn.cfg()
        fnorm = FlowNorm(fn)
        REC = "%s.recoverable_versions()" % smap
        UNREC = "%s.unrecoverable_versions()" % smap
        base = r"^self\._count_shares\(%s, %s\.best_recoverable_version\(\)\)" % (re.escape(smap), re.escape(smap))
        s_re = re.compile(base + r"\['count-shares-good'\]$")
        n_re = re.compile(base + r"\['count-shares-expected'\]$")

        def is_target(n):
            return n.kind == "stmt" and any(call_tail(c) == "CheckResults" and kwarg(c, "healthy") is not None for c in node_calls(n))
        tn = cfg.find(is_target)
        if not tn:
            raise AnchorVanished("CheckResults(.., healthy=..) in _make_checker_results")
        hv = None
        for n in tn:
            c = [c for c in node_calls(n) if call_tail(c) == "CheckResults"][0]
            h = kwarg(c, "healthy")
            r.site(fn, c, "verdict")
            if not isinstance(h, ast.Name):
                r.violation(fn, fn.loc(c), "healthy=%s is not the computed verdict variable" % src(fn, h))
                continue
            hv = h.id
            rec_kw = kwarg(c, "recoverable")
            r.require(rec_kw is not None and fnorm.norm(n, rec_kw) in ("bool(%s)" % REC, "(0 < len(%s))" % REC, "(0 != len(%s))" % REC),
                      fn, fn.loc(c), "recoverable=%s is not 'some version is recoverable'" % (src(fn, rec_kw) if rec_kw is not None else "?"))
        if hv is None:
            raise AnchorVanished("verdict variable")

        def transfer(n, lab, nxt, st):
            healthy, rec, unrec, sn = st
            if lab == "exc":
                return None
            if n.kind == "stmt":
                isdef, val = _const_assign(n, hv)
                if isdef:
                    healthy = {True: "T", False: "F"}.get(val, "?")
            if n.kind == "test" and isinstance(lab, tuple):
                op, l, rr = _fact(fnorm, n, lab)
                rec = _refine_len(rec, op, l, rr, REC, REPS_REC)
                unrec = _refine_len(unrec, op, l, rr, UNREC, REPS_UNREC)
                if not rec or not unrec:
                    return None          # infeasible
                sf = _shares_fact(op, l, rr, s_re, n_re)
                if sf:
                    sn = sf
                if op in ("truth", "false") and l == hv:
                    if healthy in ("T", "F") and (healthy == "T") != (op == "truth"):
                        return None
            return (healthy, rec, unrec, sn)
        visited, parent = explore(cfg, ("?", ALL_REC, ALL_UNREC, "?"), transfer)
        r.count(len(visited))
        good = lambda rec, unrec, sn: rec == frozenset([1]) and unrec == frozenset([0]) and sn == "ge"
        reported = set()
        for (nid, st) in sorted(visited, key=lambda x: (x[0], str(x[1]))):
            n = cfg.nodes[nid]
            if not is_target(n):
                continue
            healthy, rec, unrec, sn = st
            w = witness(cfg, parent, (nid, st))
            if healthy == "?":
                if "opaque" not in reported:
                    reported.add("opaque")
                    raise AnalysisError("the verdict variable %s is not assigned a constant on the path %s" % (hv, w.brief()))
            elif healthy == "T" and not good(rec, unrec, sn):
                why = []
                if unrec != frozenset([0]):
                    why.append("unrecoverable versions may exist")
                if rec != frozenset([1]):
                    why.append("the number of recoverable versions may be %s" % "/".join(
                        {0: "0", 1: "1", 2: ">1"}[v] for v in sorted(rec)))
                if sn != "ge":
                    why.append("the best version may have fewer than N distinct shares")
                key = ("T", tuple(why))
                if key not in reported:
                    reported.add(key)
                    r.violation(fn, fn.loc(n.ast), "file is reported healthy although %s (path: %s)" % ("; ".join(why), w.brief()), w)
            elif healthy == "F" and 1 in rec and 0 in unrec and sn != "lt":
                # "exactly when": every way to the verdict False has to pass a branch fact that rules the good case out
                # (an unrecoverable version exists / the number of recoverable versions is not 1 / good shares < N)
                if "F" not in reported:
                    reported.add("F")
                    r.violation(fn, fn.loc(n.ast), "file is reported unhealthy on a path on which nothing rules out a single recoverable "
                                "version with N distinct shares and no other version (path: %s)" % w.brief(), w)
        # the one-line summary handed to CheckResults says "Healthy" only on the verdict's true branch
        for n in tn:
            c = [c for c in node_calls(n) if call_tail(c) == "CheckResults"][0]
            sk = kwarg(c, "summary")
            if not isinstance(sk, ast.Name):
                continue
            for m in cfg.nodes:
                v = assign_value(m, sk.id) if m.kind == "stmt" else None
                if isinstance(v, ast.Constant) and isinstance(v.value, str) and v.value.strip().lower().startswith("healthy"):
                    r.site(fn, v, "summary says healthy")
                    for (t, w) in find_path_avoiding(cfg, lambda x, _m=m: x is _m,
                                                     gate_edge=lambda x, lab: _fact(fnorm, x, lab)[:2] == ("truth", hv),
                                                     kill=stores(hv))[:1]:
                        r.violation(fn, fn.loc(m.ast), "the summary of the check results is set to %r without the verdict %s having been "
                                    "found true (path: %s)" % (v.value, hv, w.brief()), w)
        # the counters that are compared
        cs = idx.func(CHK + "._count_shares")
        cp = first_positional_params(cs)
        cn = FlowNorm(cs)
        want = {"count-shares-good": 0, "count-shares-needed": 1, "count-shares-expected": 2}
        found = {}
        for n in cs.cfg().nodes:
            a = n.ast
            if n.kind == "stmt" and isinstance(a, ast.Assign) and len(a.targets) == 1 and isinstance(a.targets[0], ast.Subscript) \
                    and isinstance(a.targets[0].slice, ast.Constant) and a.targets[0].slice.value in want:
                key = a.targets[0].slice.value
                found[key] = (n, a)
        for key, i in want.items():
            if key not in found:
                if key == "count-shares-needed":
                    continue
                raise AnchorVanished("counters[%r] in _count_shares" % key)
            n, a = found[key]
            r.site(cs, a, key)
            got = cn.norm(n, a.value)
            r.require(got == "%s.shares_available()[%s][%d]" % (cp[0], cp[1], i), cs, cs.loc(a),
                      "%s is %s, not element %d of shares_available()[version]" % (key, got, i))
        _legacy_or_symbolic(idx, r, "shares_available", 1, _shares_available_loop, idx, r)

    # -- 2. need_repair ------------------------------------------------------------
    with ctx.rule("C14.2", "R3/E3", "_got_mapupdate_results leaves need_repair unset only with no unrecoverable version, exactly "
                  "one recoverable version and not (distinct shares < N); check-and-repair repairs iff need_repair, never forced",
                  expected=3) as r:
        fn = idx.func(CHK + "._got_mapupdate_results")
        sm = first_positional_params(fn)[0]
        cfg = fn.cfg()
        fnorm = FlowNorm(fn)
        REC = "%s.recoverable_versions()" % sm
        UNREC = "%s.unrecoverable_versions()" % sm
        BEST = "%s.best_recoverable_version()" % sm
        s_re = re.compile(r"^%s\.shares_available\(\)\[self\.best_version\]\[0\]$" % re.escape(sm))
        n_re = re.compile(r"^%s\.shares_available\(\)\[self\.best_version\]\[2\]$" % re.escape(sm))
        init = idx.func(CHK + ".__init__")
        iv = [assign_value(n, "self.need_repair") for n in init.cfg().nodes if "self.need_repair" in node_stores(n)]
        if not iv:
            raise AnchorVanished("need_repair initialisation")
        r.site(init, iv[0], "need_repair initial")
        r.require(all(isinstance(v, ast.Constant) and v.value is False for v in iv), init, init.loc(iv[0]),
                  "need_repair does not start as False")

        def transfer(n, lab, nxt, st):
            need, rec, unrec, sn, bv = st
            if lab == "exc":
                return None
            if n.kind == "stmt":
                isdef, val = _const_assign(n, "self.need_repair")
                if isdef:
                    need = {True: "T", False: "F"}.get(val, "?")
                if "self.best_version" in node_stores(n):
                    v = assign_value(n, "self.best_version")
                    if isinstance(v, ast.Constant) and v.value is None:
                        bv = "none"
                    elif v is not None and fnorm.norm(n, v) == BEST:
                        bv = "best"
                    else:
                        bv = "?"
                    sn = "?"
            if n.kind == "test" and isinstance(lab, tuple):
                op, l, rr = _fact(fnorm, n, lab)
                rec = _refine_len(rec, op, l, rr, REC, REPS_REC)
                unrec = _refine_len(unrec, op, l, rr, UNREC, REPS_UNREC)
                if op in ("truth", "false", "is", "is not") and l == "self.best_version" or (
                        op in ("is", "is not") and {l, rr} == {"None", "self.best_version"}):
                    truthy_edge = op in ("truth", "is not")
                    if bv == "none" and truthy_edge:
                        return None
                    if bv == "best":
                        rec = frozenset(v for v in rec if (v != 0) == truthy_edge)
                if not rec or not unrec:
                    return None
                sf = _shares_fact(op, l, rr, s_re, n_re)
                if sf and bv == "best":
                    sn = sf
            return (need, rec, unrec, sn, bv)
        visited, parent = explore(cfg, ("F", ALL_REC, ALL_UNREC, "?", "?"), transfer)
        r.count(len(visited))
        r.site(fn, None, "exit states")
        reported = set()
        for (nid, st) in sorted(visited, key=lambda x: (x[0], str(x[1]))):
            n = cfg.nodes[nid]
            if n.kind != "exit":
                continue
            need, rec, unrec, sn, bv = st
            if need == "T":
                continue
            w = witness(cfg, parent, (nid, st))
            if need == "?":
                raise AnalysisError("need_repair is assigned a non-constant (path %s)" % w.brief())
            why = []
            if unrec != frozenset([0]):
                why.append("unrecoverable versions may exist")
            if rec != frozenset([1]):
                why.append("the number of recoverable versions may be %s" % "/".join({0: "0", 1: "1", 2: ">1"}[v] for v in sorted(rec)))
            if sn != "ge":
                why.append("the best version may have fewer than N distinct shares")
            if why and tuple(why) not in reported:
                reported.add(tuple(why))
                r.violation(fn, fn.loc(), "no repair is requested although %s (path: %s)" % ("; ".join(why), w.brief()), w)
        # _maybe_repair: repair is reached unless need_repair is false / read-only; never with force
        mr = idx.func(CAR + "._maybe_repair")
        mcfg = mr.cfg()
        mn = FlowNorm(mr)
        rep = mcfg.find(has_call("repair"))
        if not rep:
            raise AnchorVanished("node.repair call in _maybe_repair")
        for n in rep:
            c = calls_at(n, "repair")[0]
            r.site(mr, c, "repair call")
            f = kwarg(c, "force") or arg(c, 1)
            r.require(f is None or (isinstance(f, ast.Constant) and f.value is False), mr, mr.loc(c),
                      "check-and-repair passes force=%s: it would discard newer unrecoverable or competing versions" % src(mr, f))
            for (t, w) in find_path_avoiding(mcfg, lambda x, _n=n: x is _n,
                                             gate_edge=lambda x, lab: _fact(mn, x, lab)[:2] == ("truth", "self.need_repair")):
                r.violation(mr, mr.loc(t.ast), "repair is started although the check did not ask for it", w)
        # must-follow: with need_repair true and a writable node the repair is attempted (no early exit skips it)
        for (t, w) in find_path_avoiding(mcfg, lambda x: x.kind == "exit",
                                         gate_node=lambda x: x in rep,
                                         gate_edge=lambda x, lab: _fact(mn, x, lab)[:2] in (("false", "self.need_repair"),
                                                                                         ("truth", "self._node.is_readonly()"))):
            r.violation(mr, mr.loc(), "_maybe_repair can return without repairing an unhealthy writable file (path: %s)" % w.brief(), w)

    # -- 3. repair refusal gates -----------------------------------------------
    with ctx.rule("C14.3", "R1", "_got_full_servermap: download_version / node.upload only with a best version, (not "
                  "unrecoverable_newer_versions() or force), (not needs_merge() or force)", expected=3) as r:
        fn = idx.func(REP + "._got_full_servermap")
        ps = first_positional_params(fn)
        if len(ps) < 2:
            raise AnchorVanished("_got_full_servermap(smap, force)")
        smap, force = ps[0], ps[1]
        cfg = fn.cfg()
        fnorm = FlowNorm(fn)

        def is_target(n):
            if n.kind not in ("stmt", "test"):
                return False
            for e in node_exprs(n):
                for x in own_nodes(e, into_lambda=True):
                    if isinstance(x, ast.Attribute) and x.attr in ("download_version", "upload", "overwrite", "publish", "_upload"):
                        return True
            return False
        tn = cfg.find(is_target)
        names = set()
        for n in tn:
            for e in node_exprs(n):
                for x in own_nodes(e, into_lambda=True):
                    if isinstance(x, ast.Attribute) and x.attr in ("download_version", "upload"):
                        names.add(x.attr)
        if names != {"download_version", "upload"}:
            raise AnchorVanished("download_version / upload in _got_full_servermap (found %s)" % sorted(names))
        forced = lambda op, l: (op == "truth" and l == force)
        gates = [
            ("a recoverable best version exists",
             lambda op, l, rr: (op == "truth" and l == "%s.best_recoverable_version()" % smap) or (
                 op == "is not" and {l, rr} == {"None", "%s.best_recoverable_version()" % smap})),
            ("there is no unrecoverable newer version, or force was given",
             lambda op, l, rr: (op == "false" and l == "%s.unrecoverable_newer_versions()" % smap) or forced(op, l)),
            ("no merge is needed (no competing recoverable versions with one seqnum), or force was given",
             lambda op, l, rr: (op == "false" and l == "%s.needs_merge()" % smap) or forced(op, l)),
        ]
        for (what, pred) in gates:
            r.site(fn, None, "gate: " + what)
            bad = find_path_avoiding(cfg, is_target, gate_edge=lambda n, lab, _p=pred: bool(_p(*_fact(fnorm, n, lab))),
                                     kill=stores_any([smap, force]))
            r.count(len(cfg.nodes))
            for (n, w) in bad[:1]:
                r.violation(fn, fn.loc(n.ast), "repair downloads/republishes without having established that %s (path: %s)" % (
                    what, w.brief()), w)
        # force travels unchanged: Repairer.start(force) -> _got_full_servermap(.., force); MutableFileNode.repair(.., force) -> start(force)
        st = idx.func(REP + ".start")
        sforce = first_positional_params(st)
        regs = _gfs_entries(st)
        if not regs or not sforce:
            raise AnchorVanished("_got_full_servermap registration in Repairer.start")
        for (x, fexpr, _use) in regs:
            r.require(isinstance(fexpr, ast.Name) and fexpr.id == sforce[0] and x.kind == "cb", st, st.loc(x.call),
                      "Repairer.start hands force=%s to _got_full_servermap" % (src(st, fexpr) if fexpr is not None else "nothing"))
        for n in st.cfg().find(stores(sforce[0])):
            r.violation(st, st.loc(n.ast), "Repairer.start overwrites its force argument")
        nr = idx.func(NODE + ".repair")
        np_ = first_positional_params(nr)
        for c in calls_in_func(nr, "start"):
            a0 = arg(c, 0, "force")
            r.require(isinstance(a0, ast.Name) and a0.id == "force" and "force" in np_, nr, nr.loc(c),
                      "MutableFileNode.repair starts the repairer with force=%s" % src(nr, a0))
        dflt = dict(zip(reversed([a.arg for a in nr.node.args.args]), reversed(nr.node.args.defaults)))
        fd = dflt.get("force")
        r.require(isinstance(fd, ast.Constant) and fd.value is False, nr, nr.loc(), "MutableFileNode.repair(force) does not default to False")

    # -- 4. what is republished ---------------------------------------------------
    with ctx.rule("C14.4", "E7/R6", "repair republishes download_version(smap, smap.best_recoverable_version()) as MutableData via "
                  "node.upload(.., smap); best_recoverable_version is the maximum recoverable version", expected=3) as r:
        fn = idx.func(REP + "._got_full_servermap")
        smap = first_positional_params(fn)[0]
        cfg = fn.cfg()
        fnorm = FlowNorm(fn)
        dn = cfg.find(has_call("download_version"))
        if not dn:
            raise AnchorVanished("download_version call")
        dvar = None
        for n in dn:
            c = calls_at(n, "download_version")[0]
            r.site(fn, c, "download")
            a0, a1 = arg(c, 0, "servermap"), arg(c, 1, "version")
            r.require(a0 is not None and fnorm.norm(n, a0) == smap, fn, fn.loc(c), "downloads from servermap %s" % (src(fn, a0)))
            r.require(a1 is not None and fnorm.norm(n, a1) == "%s.best_recoverable_version()" % smap, fn, fn.loc(c),
                      "repair downloads version %s, not the best recoverable version of the repair servermap" % (
                          fnorm.norm(n, a1) if a1 is not None else "?"))
            if isinstance(n.ast, ast.Assign):
                dvar = attr_path(n.ast.targets[0])
        if dvar is None:
            raise AnchorVanished("download Deferred variable")
        chain = [x for x in registrations(fn) if x.recv == dvar]
        r.site(fn, None, "chain " + " ".join(x.target_name() for x in chain))
        iu = [i for i, x in enumerate(chain) if x.target_name().endswith(".upload")]
        if not iu:
            r.violation(fn, fn.loc(), "downloaded contents are never handed to node.upload")
        else:
            u = chain[iu[0]]
            r.require(u.kind == "cb" and call_name_of(u.target) == "self.node.upload", fn, fn.loc(u.call), "upload goes to %s" % u.target_name())
            r.require(len(u.args) >= 1 and isinstance(u.args[0], ast.Name) and u.args[0].id == smap, fn, fn.loc(u.call),
                      "upload is given servermap %s, not the repair servermap (bad shares and seqnum come from it)" % (
                          src(fn, u.args[0]) if u.args else "none"))
            before = chain[:iu[0]]
            wraps = 0
            for x in before:
                t = x.target
                ok = False
                if x.kind == "cb" and isinstance(t, ast.Lambda) and len(t.args.args) == 1:
                    b = t.body
                    p = t.args.args[0].arg
                    if isinstance(b, ast.Call) and call_tail(b) == "MutableData" and len(b.args) == 1 \
                            and isinstance(b.args[0], ast.Name) and b.args[0].id == p:
                        ok = True
                        wraps += 1
                    elif isinstance(b, ast.Name) and b.id == p:
                        ok = True
                elif x.kind == "cb" and isinstance(t, ast.Name) and t.id == "MutableData":
                    ok = True
                    wraps += 1
                r.require(ok, fn, fn.loc(x.call), "callback %r between download and upload can replace the downloaded contents" % x)
            r.require(wraps == 1, fn, fn.loc(u.call), "downloaded bytes are wrapped in MutableData %d times before upload" % wraps)
        # best_recoverable_version = max of recoverable versions
        bf = idx.func(SMAP + ".best_recoverable_version")
        r.site(bf, None, "best = max(recoverable)")
        bcfg = bf.cfg()
        bn = FlowNorm(bf)
        vr = [n for n in bcfg.find(is_return) if n.ast.value is not None and not (
            isinstance(n.ast.value, ast.Constant) and n.ast.value.value is None)]
        r.require(bool(vr), bf, bf.loc(), "best_recoverable_version never returns a version")
        for n in vr:
            v = bn.resolve(n, n.ast.value)
            ok = False
            coll = None
            if isinstance(v, ast.Call) and call_name(v) == "max" and len(v.args) == 1 and not isinstance(v.args[0], ast.Starred) \
                    and all(k.arg == "default" for k in v.keywords) and len(v.keywords) <= 1:
                # max(X) / max(X, default=None): the greatest element of X is the last of sorted(X); default=None is the
                # `return None` of the empty case
                ok, coll = True, v.args[0]
                for k in v.keywords:
                    dv = bn.resolve(n, k.value)
                    try:
                        dval = ast.literal_eval(dv)
                    except (ValueError, TypeError, SyntaxError):
                        raise AnalysisError("best_recoverable_version: the default %s of max() (the answer when nothing is "
                                            "recoverable) is not a constant" % src(bf, k.value))
                    r.require(not dval, bf, bf.loc(n.ast), "best_recoverable_version answers %r instead of None when there is no "
                              "recoverable version: the repairer and the checker would take it for a version" % (dval,))
                    if not dval and dval is not None:
                        raise AnalysisError("best_recoverable_version answers %r (falsy, but not None) when nothing is recoverable: "
                                            "whether every caller treats it like None is not followed" % (dval,))
            elif isinstance(v, ast.Subscript) and isinstance(v.slice, ast.UnaryOp) and isinstance(v.slice.op, ast.USub) \
                    and isinstance(v.slice.operand, ast.Constant) and v.slice.operand.value == 1:
                coll = v.value
                if isinstance(coll, ast.Call) and call_name(coll) == "sorted" and len(coll.args) == 1 and not coll.keywords:
                    ok, coll = True, coll.args[0]
                elif isinstance(coll, ast.Name):
                    nm = coll.id

                    def sorts(m, _nm=nm):
                        return any(call_name(c) == _nm + ".sort" and not c.args and not c.keywords for c in node_calls(m))
                    ok = not find_path_avoiding(bcfg, lambda x, _n=n: x is _n, gate_node=sorts, kill=stores(nm))
            r.require(ok, bf, bf.loc(n.ast), "best_recoverable_version returns %s, which is not the greatest recoverable version" % src(bf, n.ast.value))
            if coll is not None:
                r.require("self.recoverable_versions" in depends_on(bf, coll), bf, bf.loc(n.ast),
                          "the best version is not chosen among the recoverable versions")

    # -- 5. bad shares are replaced ---------------------------------------------
    with ctx.rule("C14.5", "R2/R1", "Publish.publish: every get_bad_shares() key joins the goal with its old checkstring, which the "
                  "writer for that (server, shnum) uses as test vector; mark_bad_share records checkstring and forgets the share; "
                  "update_goal() runs before the writers are made; the verifier lists the bad share in its result",
                  expected=4) as r:
        fn = idx.func(PUB + ".publish")
        cfg = fn.cfg()
        fnorm = FlowNorm(fn)
        heads = [n for n in cfg.nodes if n.kind == "iter" and re.match(
            r"^(list\()?self\._servermap\.get_bad_shares\(\)\.items\(\)\)?$", fnorm.norm(n, n.ast.iter))]
        if len(heads) != 1:
            raise AnchorVanished("loop over self._servermap.get_bad_shares().items() in Publish.publish")
        head = heads[0]
        tgt = head.ast.target
        if not (isinstance(tgt, ast.Tuple) and len(tgt.elts) == 2 and isinstance(tgt.elts[1], ast.Name)):
            raise AnchorVanished("bad-share loop target (key, checkstring)")
        key_t, cs_name = tgt.elts[0], tgt.elts[1].id
        if isinstance(key_t, ast.Name):
            key_forms = {key_t.id, "(%s[0], %s[1],)" % (key_t.id, key_t.id)}
        elif isinstance(key_t, ast.Tuple) and len(key_t.elts) == 2 and all(isinstance(e, ast.Name) for e in key_t.elts):
            key_forms = {"(%s, %s,)" % (key_t.elts[0].id, key_t.elts[1].id)}
        else:
            raise AnchorVanished("bad-share loop key shape")
        r.site(fn, head.ast, "bad-share loop")

        def adds_goal(m):
            return any(call_name(c) == "self.goal.add" and len(c.args) == 1 and fnorm.norm(m, c.args[0]) in key_forms for c in node_calls(m))

        def records_cs(m):
            a = m.ast
            if m.kind == "stmt" and isinstance(a, ast.Assign) and len(a.targets) == 1 and isinstance(a.targets[0], ast.Subscript) \
                    and attr_path(a.targets[0].value) == "self.bad_share_checkstrings":
                return fnorm.norm(m, a.targets[0].slice) in key_forms and fnorm.norm(m, a.value) == cs_name
            return False
        # body: every iteration passes both before coming back to the loop head
        for (what, pred) in (("added to the goal", adds_goal), ("recorded in bad_share_checkstrings with its old checkstring", records_cs)):
            def tr(n, lab, nxt, st, _p=pred):
                if lab == "exc":
                    return None
                if n is head:
                    return 0 if (lab == "iter" and st == -1) else None
                if _p(n):
                    return 1
                return st
            visited, parent = explore(cfg, -1, tr, start=head)
            r.count(len(visited))
            for (nid, st) in visited:
                if nid == head.id and st == 0:
                    r.violation(fn, fn.loc(head.ast), "a bad share of the servermap is not %s on some iteration (path: %s)" % (
                        what, witness(cfg, parent, (nid, st)).brief()),  witness(cfg, parent, (nid, st)))
                    break
        # after the loop the goal is not re-bound (update_goal only prunes bad servers / adds homes)
        after, _p = explore(cfg, 0, lambda n, lab, nxt, st: None if (n is head and lab != "done") else 0, start=head)
        for (nid, _s) in after:
            n = cfg.nodes[nid]
            if n is not head and "self.goal" in node_stores(n):
                r.violation(fn, fn.loc(n.ast), "self.goal is re-bound after the bad shares were added to it")
            if n is not head and "self.bad_share_checkstrings" in node_stores(n):
                r.violation(fn, fn.loc(n.ast), "bad_share_checkstrings is reset after the bad shares were recorded")
        # writer loop: set_checkstring(old) for bad shares
        wheads = [n for n in cfg.nodes if n.kind == "iter" and fnorm.norm(n, n.ast.iter) in ("self.goal", "list(self.goal)", "sorted(self.goal)")]
        if not wheads:
            raise AnchorVanished("writer loop over self.goal")
        wt = wheads[0].ast.target
        if not (isinstance(wt, ast.Tuple) and len(wt.elts) == 2 and all(isinstance(e, ast.Name) for e in wt.elts)):
            raise AnchorVanished("writer loop target")
        wkey = "(%s, %s,)" % (wt.elts[0].id, wt.elts[1].id)
        # homes for the shares that have none (the missing ones a repair is to restore) are chosen by update_goal(): it runs on
        # the goal that was just built, before the writers are made from the goal
        r.site(fn, wheads[0].ast, "update_goal before the writers")
        for (t, w) in find_path_avoiding(cfg, lambda x: x is wheads[0], gate_node=lambda x: any(
                call_name(c) == "self.update_goal" for c in node_calls(x)), kill=stores("self.goal"), skip_exc_edges=True)[:1]:
            r.violation(fn, fn.loc(wheads[0].ast), "the writers are made from self.goal without update_goal() having run on it: shares "
                        "that have no home yet (missing shares) are not placed, a 'successful' repair leaves fewer than N distinct "
                        "shares (path: %s)" % w.brief(), w)
        found = 0
        for n in cfg.find(has_call("set_checkstring")):
            for c in calls_at(n, "set_checkstring"):
                if len(c.args) != 1:
                    continue
                v = fnorm.norm(n, c.args[0])
                if v != "self.bad_share_checkstrings[%s]" % wkey:
                    continue
                found += 1
                r.site(fn, c, "old checkstring as test vector")
        if not found:
            r.violation(fn, fn.loc(wheads[0].ast), "no writer is given the old checkstring of the bad share it replaces "
                        "(set_checkstring(self.bad_share_checkstrings[%s]))" % wkey)
            r.site(fn, wheads[0].ast, "writer loop")
        else:
            # must-follow inside the loop: on the branch where the share is bad and not a known share, the checkstring is set
            def in_bad(n, lab):
                op, l, rr = _fact(fnorm, n, lab)
                return op == "in" and l == wkey and rr == "self.bad_share_checkstrings"
            whead = wheads[0]

            def tr2(n, lab, nxt, st):
                if lab == "exc":
                    return None
                if n is whead:
                    return 0 if (lab == "iter" and st == -1) else None
                if in_bad(n, lab):
                    st = 1
                if st == 1 and any(len(c.args) == 1 and fnorm.norm(n, c.args[0]) == "self.bad_share_checkstrings[%s]" % wkey
                                   for c in calls_at(n, "set_checkstring")):
                    st = 2
                return st
            visited, parent = explore(cfg, -1, tr2, start=whead)
            for (nid, st) in visited:
                if nid == whead.id and st == 1:
                    r.violation(fn, fn.loc(whead.ast), "a writer replacing a bad share is not given the old checkstring",
                                witness(cfg, parent, (nid, st)))
                    break
        # mark_bad_share
        mb = idx.func(SMAP + ".mark_bad_share")
        mp = first_positional_params(mb)
        mn = FlowNorm(mb)
        r.site(mb, None, "mark_bad_share")
        keyn = "(%s, %s,)" % (mp[0], mp[1])
        rec_ok = pop_ok = False
        for n in mb.cfg().nodes:
            a = n.ast
            if n.kind == "stmt" and isinstance(a, ast.Assign) and len(a.targets) == 1 and isinstance(a.targets[0], ast.Subscript) \
                    and attr_path(a.targets[0].value) == "self._bad_shares":
                if mn.norm(n, a.targets[0].slice) == keyn and mn.norm(n, a.value) == mp[2]:
                    rec_ok = True
            for c in node_calls(n):
                if call_name(c) == "self._known_shares.pop" and c.args and mn.norm(n, c.args[0]) == keyn:
                    pop_ok = True
            if n.kind == "stmt" and isinstance(a, ast.Delete):
                for t in a.targets:
                    if isinstance(t, ast.Subscript) and attr_path(t.value) == "self._known_shares" and mn.norm(n, t.slice) == keyn:
                        pop_ok = True
        r.require(rec_ok, mb, mb.loc(), "mark_bad_share does not record the old checkstring under (server, shnum)")
        r.require(pop_ok, mb, mb.loc(), "mark_bad_share leaves the bad share among the known (good) shares: it would count towards health")
        # the verifier / downloader reports bad shares into the servermap
        rb = idx.func(RET + "._mark_bad_share")
        r.require(any(call_name(c) == "self.servermap.mark_bad_share" for c in calls_in_func(rb, "mark_bad_share")), rb, rb.loc(),
                  "Retrieve._mark_bad_share no longer tells the servermap about the bad share")
        rbp = first_positional_params(rb)
        rbn = FlowNorm(rb)
        listed = False
        for m in rb.cfg().nodes:
            for c in node_calls(m):
                if call_name(c) == "self._bad_shares.add" and len(c.args) == 1 and len(rbp) >= 2:
                    t = rbn.resolve(m, c.args[0])
                    if isinstance(t, ast.Tuple) and len(t.elts) >= 2 and [rbn.norm(m, e) for e in t.elts[:2]] == rbp[:2]:
                        listed = True
        r.require(listed, rb, rb.loc(), "Retrieve._mark_bad_share does not list (server, shnum, ..) in self._bad_shares, the verifier's result: "
                  "a corrupt share found while verifying would not make check-and-repair repair the file")

    # -- 6. verdict after verification, from the verified servermap ---------------
    with ctx.rule("C14.6", "E7", "MutableChecker.check: _make_checker_results runs after _got_mapupdate_results and (verify) "
                  "_verify_all_shares, on the servermap that was updated and handed to the verifier; a verifying check runs the verifier, "
                  "waits for it, and its bad shares ask for repair", expected=4) as r:
        fn = idx.func(CHK + ".check")
        regs = registrations(fn)
        need = ["self._got_mapupdate_results", "self._verify_all_shares", "self._make_checker_results"]

        def reg_name(x):
            t = x.target
            if isinstance(t, ast.Lambda):     # a lambda that merely wraps one of the three steps counts as that step
                for c in own_nodes(t.body, into_lambda=True):
                    if isinstance(c, ast.Call) and call_name(c) in need:
                        return call_name(c)
            return x.target_name()
        names = [reg_name(x) for x in regs]
        r.site(fn, None, "chain " + " ".join(names))
        missing = [x for x in need if x not in names]
        if missing:
            raise AnchorVanished("callbacks %s in MutableChecker.check" % missing)
        i_m, i_v, i_r = (names.index(x) for x in need)
        r.require(i_m < i_r, fn, fn.loc(regs[i_r].call), "the verdict is computed before the mapupdate results were examined")
        r.require(i_v < i_r, fn, fn.loc(regs[i_r].call), "the verdict is computed before the shares were verified: corrupt shares "
                  "found by the verifier cannot make the file unhealthy")
        # the servermap: the one given to ServermapUpdater is what reaches _make_checker_results
        sm_vars = set()
        for c in calls_in_func(fn, "ServermapUpdater"):
            a = arg(c, 3, "servermap")
            if isinstance(a, ast.Name):
                sm_vars.add(a.id)
        if len(sm_vars) != 1:
            raise AnchorVanished("servermap handed to ServermapUpdater in check")
        smv = sm_vars.pop()
        between = regs[max(i_m, i_v) + 1:i_r]
        okv = True
        for x in between:
            t = x.target
            okv = okv and x.kind == "cb" and isinstance(t, ast.Lambda) and isinstance(t.body, ast.Name) and t.body.id == smv
        last_is_map = bool(between) or False
        r.require(okv and (last_is_map or i_v > i_r), fn, fn.loc(regs[i_r].call),
                  "_make_checker_results is not fed the servermap %s that was updated and verified" % smv)
        # the verifier works on that same map and the best version chosen from it
        va = idx.func(CHK + "._verify_all_shares")
        vp = first_positional_params(va)[0]
        k = 0
        for c in calls_in_func(va, "Retrieve"):
            k += 1
            r.site(va, c, "verifier")
            a2, a3 = arg(c, 2, "servermap"), arg(c, 3, "verinfo")
            vf = kwarg(c, "verify")
            r.require(isinstance(a2, ast.Name) and a2.id == vp, va, va.loc(c), "verifier marks bad shares in %s, not in the checked servermap" % src(va, a2))
            r.require(attr_path(a3) == "self.best_version", va, va.loc(c), "verifier checks version %s" % src(va, a3))
            r.require(isinstance(vf, ast.Constant) and vf.value is True, va, va.loc(c), "Retrieve is not run in verify mode")
        if not k:
            raise AnchorVanished("Retrieve(...) in _verify_all_shares")
        # a check that was asked to verify does verify: the verify pass is registered on every path except where the caller's
        # `verify` flag was found false
        ccfg = fn.cfg()
        cnorm = FlowNorm(fn)
        vreg_calls = [x.call for x, nme in zip(regs, names) if nme == "self._verify_all_shares"]
        vreg_nodes = [m for m in ccfg.nodes if m.kind == "stmt" and any(c is vc for c in node_calls(m) for vc in vreg_calls)]
        if not vreg_nodes:
            raise AnchorVanished("statement that registers _verify_all_shares in MutableChecker.check")
        vflag = "verify" if "verify" in fn.params else None
        for (t, w) in find_path_avoiding(ccfg, lambda x: x.kind == "exit", gate_node=lambda x: x in vreg_nodes,
                                         gate_edge=lambda x, lab: vflag is not None and _fact(cnorm, x, lab)[:2] == ("false", vflag),
                                         skip_exc_edges=True)[:1]:
            r.violation(fn, fn.loc(vreg_nodes[0].ast), "MutableChecker.check can finish without having registered the verify pass although "
                        "its verify flag was not found false: corrupt shares stay undetected by a verifying check (path: %s)" % w.brief(), w)
        # the verify pass: skipped only when there is no best version; otherwise the chain waits for the verifier's download
        # (its Deferred is returned), whose bad shares reach _process_bad_shares
        vcfg = va.cfg()
        vnorm = FlowNorm(va)
        dl_nodes = [m for m in vcfg.nodes if m.kind == "stmt" and any(
            isinstance(c.func, ast.Attribute) and c.func.attr == "download" and isinstance(
                _res(va, vnorm, m, c.func.value), ast.Call) and call_tail(_res(va, vnorm, m, c.func.value)) == "Retrieve"
            for c in node_calls(m))]
        if not dl_nodes:
            raise AnchorVanished("Retrieve(..).download() in _verify_all_shares")
        r.site(va, dl_nodes[0].ast, "verifier download")

        def no_best(x, lab):
            op, l, rr = _fact(vnorm, x, lab)
            return (op == "false" and l == "self.best_version") or (op == "is" and {l, rr} == {"None", "self.best_version"})
        for (t, w) in find_path_avoiding(vcfg, lambda x: x.kind == "exit", gate_node=lambda x: x in dl_nodes, gate_edge=no_best,
                                         skip_exc_edges=True)[:1]:
            r.violation(va, va.loc(), "_verify_all_shares can return without running the verifier although a best version exists "
                        "(path: %s)" % w.brief(), w)

        def returns_download(m):
            if not (is_return(m) and m.ast.value is not None):
                return False
            v = _unchain_regs(_res(va, vnorm, m, m.ast.value))
            return isinstance(v, ast.Call) and isinstance(v.func, ast.Attribute) and v.func.attr == "download"
        for dn_ in dl_nodes:
            if returns_download(dn_):
                continue
            for (t, w) in find_path_from_to_avoiding(vcfg, lambda x, _d=dn_: x is _d, returns_download)[:1]:
                r.violation(va, va.loc(dn_.ast), "_verify_all_shares does not return the Deferred of the verifier's download: the verdict is "
                            "computed before the verifier has marked the bad shares (path: %s)" % w.brief(), w)
        pb = [x for x in registrations(va) if x.kind in ("cb", "both") and attr_path(x.target) == "self._process_bad_shares"]
        r.require(bool(pb), va, va.loc(dl_nodes[0].ast), "the verifier's list of bad shares is not handed to _process_bad_shares: a corrupt share "
                  "found by the verifier would not make check-and-repair repair the file")
        pbf = idx.func(CHK + "._process_bad_shares")
        pbp = first_positional_params(pbf)
        pbn = FlowNorm(pbf)
        pcfg = pbf.cfg()
        r.site(pbf, None, "bad shares ask for repair")
        for (t, w) in find_path_avoiding(pcfg, lambda x: x.kind == "exit",
                                         gate_node=lambda x: x.kind == "stmt" and _const_assign(x, "self.need_repair") == (True, True),
                                         gate_edge=lambda x, lab: bool(pbp) and _fact(pbn, x, lab)[:2] == ("false", pbp[0]),
                                         skip_exc_edges=True)[:1]:
            r.violation(pbf, pbf.loc(), "_process_bad_shares can return without asking for a repair although the verifier reported bad "
                        "shares (path: %s)" % w.brief(), w)
        mu = idx.func(CHK + "._got_mapupdate_results")
        mp = first_positional_params(mu)[0]
        for n in mu.cfg().find(is_return):
            v = n.ast.value
            r.require(isinstance(v, ast.Name) and v.id == mp, mu, mu.loc(n.ast), "_got_mapupdate_results passes %s on to the verifier" % src(mu, v))

    # -- 7. how the servermap classifies versions ---------------------------------
    with ctx.rule("C14.7", "R3/E3", "ServerMap: a version is recoverable iff k <= number of DISTINCT share numbers of its shares; "
                  "recoverable_versions / unrecoverable_versions hold exactly those classes, unrecoverable_newer_versions keeps every "
                  "unrecoverable version above the highest recoverable seqnum, needs_merge reports equal recoverable seqnums",
                  expected=7) as r:
        # (a) the per-version share tuples start with the share number
        mv = idx.func(SMAP + ".make_versionmap")
        mvn = FlowNorm(mv)
        mcfg = mv.cfg()
        mheads = [n for n in mcfg.nodes if n.kind == "iter" and re.match(r"^(list\()?self\._known_shares\.items\(\)\)?$", mvn.norm(n, n.ast.iter))]
        if len(mheads) != 1:
            raise AnchorVanished("loop over self._known_shares.items() in make_versionmap")
        mt = mheads[0].ast.target
        if not (isinstance(mt, ast.Tuple) and len(mt.elts) == 2):
            raise AnchorVanished("make_versionmap loop target (key, value)")

        def comp(t, i, e):       # `e` denotes component i of what the target `t` is bound to
            if isinstance(t, (ast.Tuple, ast.List)) and len(t.elts) == 2:
                return isinstance(t.elts[i], ast.Name) and isinstance(e, ast.Name) and e.id == t.elts[i].id
            if isinstance(t, ast.Name):
                return isinstance(e, ast.Subscript) and isinstance(e.value, ast.Name) and e.value.id == t.id \
                    and isinstance(e.slice, ast.Constant) and e.slice.value == i and not isinstance(e.slice.value, bool)
            return False
        vm_adds = [c for n in mcfg.nodes for c in calls_at(n, "add") if len(c.args) == 2]
        if not vm_adds:
            raise AnchorVanished("versionmap.add(verinfo, (shnum, ..)) in make_versionmap")
        for c in vm_adds:
            r.site(mv, c, "share tuple")
            tup = c.args[1]
            r.require(comp(mt.elts[1], 0, c.args[0]), mv, mv.loc(c), "make_versionmap files the share under %s, not under the version it belongs to" % src(mv, c.args[0]))
            r.require(isinstance(tup, ast.Tuple) and len(tup.elts) >= 1 and comp(mt.elts[0], 1, tup.elts[0]), mv, mv.loc(c),
                      "the first element of the per-version share tuple %s is not the share number of the (server, shnum) key: the "
                      "distinct-share counts of every version would count something else" % src(mv, tup))
        ans = idx.func(SMAP + ".add_new_share")
        ap = first_positional_params(ans)
        ann = FlowNorm(ans)
        ok_key = False
        for n in ans.cfg().nodes:
            a = n.ast
            if n.kind == "stmt" and isinstance(a, ast.Assign) and len(a.targets) == 1 and isinstance(a.targets[0], ast.Subscript) \
                    and attr_path(a.targets[0].value) == "self._known_shares":
                r.site(ans, a, "known-share key")
                ok_key = True
                r.require(len(ap) >= 2 and ann.norm(n, a.targets[0].slice) == "(%s, %s,)" % (ap[0], ap[1]), ans, ans.loc(a),
                          "known shares are keyed by %s, not (server, shnum)" % ann.norm(n, a.targets[0].slice))
        if not ok_key:
            raise AnchorVanished("self._known_shares[(server, shnum)] = .. in add_new_share")

        # (b) recoverable_versions / unrecoverable_versions: exactly the class
        for (mname, want, other) in (("recoverable_versions", "ge", "lt"), ("unrecoverable_versions", "lt", "ge")):
            _legacy_or_symbolic(idx, r, mname, 1, _class_loop, idx, r, mname, want, other)

        # (c) unrecoverable_newer_versions
        _legacy_or_symbolic(idx, r, "unrecoverable_newer_versions", 2, _newer_versions_loops, idx, r)

        # (d) needs_merge
        nm = idx.func(SMAP + ".needs_merge")
        nn = FlowNorm(nm)
        ncfg = nm.cfg()
        ndefs = all_defs(nm)
        r.site(nm, None, "needs_merge")

        def seqnum_list(name):
            ds = ndefs.get(name, [])
            if len(ds) != 1 or not isinstance(ds[0], ast.ListComp) or len(ds[0].generators) != 1:
                return None
            g = ds[0].generators[0]
            if g.ifs or not _item0_of(g.target, ds[0].elt) or not isinstance(g.target, ast.Name):
                return None
            return _strip_wrappers(g.iter)
        nheads = [n for n in ncfg.nodes if n.kind == "iter"]
        L = None
        if len(nheads) == 1 and isinstance(nheads[0].ast.target, ast.Name):
            it = _strip_wrappers(nheads[0].ast.iter)
            if isinstance(it, ast.Name) and seqnum_list(it.id) is not None:
                L = it.id
        if L is not None:
            nh = nheads[0]
            sv = nh.ast.target.id
            srcit = seqnum_list(L)
            r.require(nn.norm(nh, srcit) == "self.recoverable_versions()", nm, nm.loc(nh.ast),
                      "needs_merge looks at the seqnums of %s, not of the recoverable versions" % src(nm, srcit))
            CNT = "%s.count(%s)" % (L, sv)
            bad_ret = []

            def step3(n, lab, st):
                if n.kind == "stmt" and isinstance(n.ast, ast.Return):
                    v = n.ast.value
                    if not (isinstance(v, ast.Constant) and v.value is True):
                        bad_ret.append(n)
                    return None
                if n.kind == "test" and isinstance(lab, tuple):
                    op, l, rr = _fact(nn, n, lab)
                    if (op, l, rr) in (("<=", CNT, "1"), ("<", CNT, "2")) or (op == "==" and {l, rr} == {CNT, "1"}):
                        return True
                return st
            visited, parent, back = _loop_iterations(ncfg, nh, False, step3)
            r.count(len(visited))
            for n in bad_ret[:1]:
                r.violation(nm, nm.loc(n.ast), "needs_merge answers %s from inside its loop before all recoverable seqnums were examined" % src(nm, n.ast.value))
            for (st, w) in back:
                if st is not True:
                    r.violation(nm, nm.loc(nh.ast), "needs_merge goes on to the next seqnum without having found that this one occurs only once "
                                "among the recoverable versions (path: %s)" % w.brief(), w)
                    break
        else:
            # closed form: fewer distinct seqnums than recoverable versions
            rets = ncfg.find(is_return)
            cands = [nme for nme in ndefs if seqnum_list(nme) is not None]
            ok = False
            for n in rets:
                for nme in cands:
                    if nn.norm(n, n.ast.value) in (norm_src("len(set(%s)) != len(%s)" % (nme, nme)), norm_src("len(set(%s)) < len(%s)" % (nme, nme))) \
                            and nn.norm(n, seqnum_list(nme)) == "self.recoverable_versions()":
                        ok = True
            if not (ok and len(rets) == 1):
                raise AnalysisError("needs_merge: neither the per-seqnum count loop nor the len(set(..)) closed form was recognised")

    # -- 8. the servermap the repair decides on is its own full mapupdate ---------------
    with ctx.rule("C14.8", "R4/E7", "Repairer._got_full_servermap only ever receives the result of the repairer's own "
                  "ServermapUpdater(..).update() in a mode that queries every server; MutableFileNode.repair goes through Repairer.start",
                  expected=4) as r:
        st = idx.func(REP + ".start")
        entries = _gfs_entries(st)
        if not entries:
            raise AnchorVanished("_got_full_servermap registration in Repairer.start")
        allowed = {id(u) for (_x, _f, u) in entries}
        uses = _uses_everywhere(idx, GFS)
        r.count(len(uses))
        for (f, node, is_call) in uses:
            if id(node) in allowed:
                continue
            r.violation(f, f.loc(node), "%s %s _got_full_servermap outside the callback chain of the repairer's own mapupdate: the refusal "
                        "gates (unrecoverable newer versions, needs_merge) and the republish would run on a servermap the repair did not "
                        "refresh (stale, or incomplete when it was built in another mode)" % (short(f), "calls" if is_call else "hands on"))
        sdefs = all_defs(st)
        folder = get_folder(idx)
        modes = _all_server_modes(idx, r)
        r.site("ServermapUpdater.update", None, "modes that query the full server list: %s" % ("all" if modes is None else sorted(map(str, modes))))
        if modes is not None and not modes:
            r.violation("allmydata.mutable.servermap:ServermapUpdater.update", "", "no mode of ServermapUpdater.update queries the full server list")
        ini = idx.func("mutable.servermap:ServermapUpdater.__init__")
        dflt = dict(zip(reversed([a.arg for a in ini.node.args.args]), reversed(ini.node.args.defaults)))
        allregs = registrations(st)
        for (x, _f, use) in entries:
            r.site(st, x.call, "servermap source")
            dvs = sdefs.get(x.recv, []) if x.recv else []
            if not dvs:
                r.violation(st, st.loc(x.call), "_got_full_servermap is registered on a Deferred of unknown origin")
                continue
            for v in dvs:
                base = _unchain_regs(v) if v is not None else None
                upds = None
                if isinstance(base, ast.Call) and call_tail(base) == "update" and not base.args and not base.keywords \
                        and isinstance(base.func, ast.Attribute):
                    rv = base.func.value
                    if isinstance(rv, ast.Name):
                        ds = sdefs.get(rv.id, [])
                        if ds and all(isinstance(d, ast.Call) and call_tail(d) == "ServermapUpdater" for d in ds):
                            upds = ds
                    elif isinstance(rv, ast.Call) and call_tail(rv) == "ServermapUpdater":
                        upds = [rv]
                if upds is None:
                    r.violation(st, st.loc(v if v is not None else x.call), "the Deferred that feeds _got_full_servermap is %s, not the result "
                                "of the repairer's own ServermapUpdater(..).update(): the refusal gates would not see the current grid" % (
                                    src(st, v) if v is not None else "opaque"))
                    continue
                for u in upds:
                    m = arg(u, 4, "mode")
                    mmod = st.module
                    if m is None:
                        m, mmod = dflt.get("mode"), ini.module      # the default is an expression of the updater's module
                    try:
                        mval = folder.fold(m, mmod, st.cls) if m is not None else None
                    except NotConstant:
                        mval = None
                    if mval is None:
                        raise AnalysisError("cannot fold the mapupdate mode %s of Repairer.start" % (src(st, m) if m is not None else "?"))
                    r.require(modes is None or mval in modes, st, st.loc(u), "the repair's mapupdate runs in %s, which does not query every "
                              "server: a newer version beyond the search boundary stays invisible to the refusal gates" % mval)
                    nd = arg(u, 0, "filenode")
                    r.require(nd is not None and attr_path(nd) == "self.node", st, st.loc(u), "the repair's mapupdate looks at %s, not at the node being repaired" % (
                        src(st, nd) if nd is not None else "?"))
            # nothing between update() and _got_full_servermap replaces the map
            chain = [y for y in allregs if y.recv == x.recv]
            for y in chain:
                if y.call is x.call:
                    break
                t = y.target
                passthrough = y.kind == "cb" and isinstance(t, ast.Lambda) and len(t.args.args) == 1 and isinstance(t.body, ast.Name) \
                    and t.body.id == t.args.args[0].arg
                r.require(passthrough, st, st.loc(y.call), "callback %r runs between the mapupdate and _got_full_servermap and can replace the servermap" % y)
        # the plain checker's verdict ("no other versions") needs the same: its mapupdate queries every server
        chk = idx.func(CHK + ".check")
        cups = calls_in_func(chk, "ServermapUpdater")
        if not cups:
            raise AnchorVanished("ServermapUpdater(..) in MutableChecker.check")
        base_ci = idx.cls(CHK)
        for c in cups:
            r.site(chk, c, "checker mapupdate mode")
            m = arg(c, 4, "mode")
            mmod = chk.module
            if m is None:
                m, mmod = dflt.get("mode"), ini.module
            for ci in [base_ci] + [x for x in idx.subclasses(base_ci) if x is not base_ci]:
                try:
                    mval = folder.fold(m, mmod, ci)
                except NotConstant:
                    raise AnalysisError("cannot fold the mapupdate mode %s of %s.check" % (src(chk, m), ci.name))
                if modes is None or mval in modes:
                    continue
                if ci is base_ci:
                    r.violation(chk, chk.loc(c), "MutableChecker.check updates its servermap in %s, which does not query every server: a file "
                                "is reported healthy although another version sits on servers beyond the search boundary" % mval)
                else:
                    # the subclass inherits check() and with it the verdict: its health report (for check-and-repair the pre-repair
                    # results, and the post-repair results when no repair is started) is as much a "reported healthy" as the plain one.
                    # The construct is the CLASS whose SERVERMAP_MODE selects the bounded search, so that the key stays apart from
                    # the one of the plain checker.
                    an = [x for x in _mro_attr(ci, m) if x is not None]
                    ln = an[0].lineno if an else ci.node.lineno
                    r.violation(ci.qual, "%s:%s" % (ci.module.relpath, ln),
                                "%s inherits MutableChecker.check and updates its servermap in %s, which does not query every server "
                                "(bounded search): it reports a file healthy, and starts no repair, although another version - even a "
                                "newer one - sits on servers beyond the search boundary, where the plain check reports it unhealthy" % (
                                    ci.name, mval))
        # MutableFileNode.repair -> Repairer(..).start(force)
        nr = idx.func(NODE + ".repair")
        nrn = FlowNorm(nr)
        r.site(nr, None, "repair entry")
        good = []
        for c in calls_in_func(nr, "start"):
            rv = c.func.value if isinstance(c.func, ast.Attribute) else None
            if isinstance(rv, ast.Name):
                ds = all_defs(nr).get(rv.id, [])
                if ds and all(isinstance(d, ast.Call) and call_tail(d) == "Repairer" for d in ds):
                    good.append(c)
            elif isinstance(rv, ast.Call) and call_tail(rv) == "Repairer":
                good.append(c)
        r.require(bool(good), nr, nr.loc(), "MutableFileNode.repair does not run Repairer(..).start(force)")
        for n in nr.cfg().find(is_return):
            v = _unchain_regs(nrn.resolve(n, n.ast.value)) if n.ast.value is not None else None
            r.require(any(v is c for c in good), nr, nr.loc(n.ast), "MutableFileNode.repair returns %s, not the outcome of Repairer.start" % (
                src(nr, n.ast.value) if n.ast.value is not None else "None"))

    # -- 9. the version whose contents the repair gets is the version it asked for -------------
    with ctx.rule("C14.9", "R3/E7", "the version the repairer asks MutableFileNode.download_version for travels unchanged through "
                  "get_readable_version and _get_version_from_servermap to MutableFileVersion and Retrieve: a version that was asked "
                  "for is never replaced by another one (e.g. the best version of a narrower servermap); it is returned or the "
                  "request fails", expected=8) as r:
        def vpos(fn, what):
            ps = first_positional_params(fn)
            if "version" not in ps:
                raise AnchorVanished("parameter `version` of %s" % what)
            return ps.index("version")

        def node_of(fn, call):
            for m in fn.cfg().nodes:
                if any(c is call for c in node_calls(m, into_lambda=True)):
                    return m
            raise AnchorVanished("CFG node of a call in %s" % short(fn))

        def hands_on(fn, callee_tail, pos, what):
            """every call of `callee_tail` in fn is given fn's own `version` (whenever one was asked for)."""
            vpos(fn, short(fn))
            calls = calls_in_func(fn, callee_tail, into_lambda=True)
            if not calls:
                raise AnchorVanished("%s(..) in %s" % (callee_tail, short(fn)))

            def targets(m):
                return [(arg(c, pos, "version"), callee_tail) for c in node_calls(m, into_lambda=True) if any(c is x for x in calls)]
            nst, bad = _request_monitor(fn, "version", targets)
            r.count(nst)
            for c in calls:
                r.site(fn, c, what)
            for (m, e, _w, v, req, w) in bad:
                r.violation(fn, fn.loc(e if e is not None else m.ast), "%s hands %s to %s(..) as the version, not the version it was asked for: "
                            "the caller (the repairer) gets the contents of whatever version the callee then picks, e.g. the best "
                            "version of a narrower servermap, and republishes those (path: %s)" % (
                                short(fn), REQ_TXT[v] if e is None or v != "other" else src(fn, e), callee_tail, w.brief()), w)
            return calls

        def chain_returned(fn, fnorm, base_calls, last_call, what):
            """fn returns the Deferred chain that starts at one of base_calls; nothing but `last_call` comes last on it."""
            rets = [m for m in fn.cfg().find(is_return)]
            if not rets:
                raise AnchorVanished("return of %s" % short(fn))
            for m in rets:
                v = m.ast.value
                b = _unchain_regs(_res(fn, fnorm, m, v)) if v is not None else None
                b = _unchain_regs(_res(fn, fnorm, m, b)) if b is not None else None
                r.require(b is not None and any(b is c for c in base_calls), fn, fn.loc(m.ast),
                          "%s returns %s, not the outcome of %s" % (short(fn), src(fn, v) if v is not None else "None", what))

        gv = idx.func(NODE + "._get_version_from_servermap")
        gr = idx.func(NODE + ".get_readable_version")
        dv = idx.func(NODE + ".download_version")
        mfv_init = idx.func("mutable.filenode:MutableFileVersion.__init__")
        mfv_read = idx.func("mutable.filenode:MutableFileVersion._read")

        # (a) download_version(servermap, version) -> get_readable_version(servermap, version) -> mfv.download_to_data()
        dps = first_positional_params(dv)
        if len(dps) < 2 or dps[1] != "version":
            raise AnchorVanished("download_version(servermap, version, ..)")
        dn = FlowNorm(dv)
        gcalls = hands_on(dv, "get_readable_version", vpos(gr, "get_readable_version"), "download_version -> get_readable_version")
        chain_returned(dv, dn, gcalls, None, "get_readable_version(servermap, version)")
        dl = []
        for x in registrations(dv):
            t = x.target
            if isinstance(t, ast.Lambda) and len(t.args.args) == 1 and isinstance(t.body, ast.Call) and isinstance(t.body.func, ast.Attribute) \
                    and isinstance(t.body.func.value, ast.Name) and t.body.func.value.id == t.args.args[0].arg \
                    and t.body.func.attr in ("download_to_data", "read", "_read", "_try_to_download_data"):
                dl.append(x)
        if not dl:
            raise AnchorVanished("callback that downloads from the MutableFileVersion in download_version")
        for x in dl:
            r.site(dv, x.call, "download from the version object")
            r.require(x.kind == "cb", dv, dv.loc(x.call), "the download from the version object is registered as %s" % x.kind)

        # (b) get_readable_version(servermap, version) -> _get_version_from_servermap(.., version); MutableFileVersion(.., component 1, ..)
        grn = FlowNorm(gr)
        vcalls = hands_on(gr, "_get_version_from_servermap", vpos(gv, "_get_version_from_servermap"),
                          "get_readable_version -> _get_version_from_servermap")
        chain_returned(gr, grn, vcalls, None, "_get_version_from_servermap(mode, servermap, version)")
        ipos = vpos(mfv_init, "MutableFileVersion.__init__")
        built = 0
        for x in registrations(gr):
            t = x.target
            nf = gr.nested.get(t.id) if isinstance(t, ast.Name) else None
            if nf is None:
                continue
            mcs = calls_in_func(nf, "MutableFileVersion")
            if not mcs:
                continue
            nps = first_positional_params(nf)
            nfn = FlowNorm(nf)
            for c in mcs:
                built += 1
                r.site(nf, c, "version object built for the chosen version")
                r.require(x.kind == "cb" and not x.args and len(nps) == 1, gr, gr.loc(x.call), "%s is registered as %s with extra arguments" % (short(nf), x.kind))
                a = arg(c, ipos, "version")
                r.require(a is not None and len(nps) == 1 and _tuple_component(nf, nfn, node_of(nf, c), a, nps[0], 1), nf, nf.loc(c),
                          "the MutableFileVersion is built for %s, not for the version that _get_version_from_servermap chose (component 1 "
                          "of its result)" % (src(nf, a) if a is not None else "no version"))
        if not built:
            raise AnchorVanished("MutableFileVersion(..) built in a callback of get_readable_version")

        # (c) _get_version_from_servermap: the selection callback gets `version`, and returns it or fails
        gps = first_positional_params(gv)
        sels = []
        for x in registrations(gv):
            t = x.target
            if isinstance(t, ast.Name) and t.id in gv.nested:
                nf = gv.nested[t.id]
                nps = first_positional_params(nf)
                if len(nps) == 2 and len(x.args) == 1:
                    sels.append((x, nf, nps[1], x.args[0], True))
                elif len(nps) == 1 and not x.args and "version" not in nf.params:
                    sels.append((x, nf, "version", None, False))      # reads the request as a free variable
            elif isinstance(t, ast.Lambda) and len(t.args.args) == 1 and not x.args and isinstance(t.body, ast.Call) \
                    and isinstance(t.body.func, ast.Name) and t.body.func.id in gv.nested and len(t.body.args) == 2 and not t.body.keywords \
                    and isinstance(t.body.args[0], ast.Name) and t.body.args[0].id == t.args.args[0].arg:
                nf = gv.nested[t.body.func.id]
                nps = first_positional_params(nf)
                if len(nps) == 2:
                    sels.append((x, nf, nps[1], t.body.args[1], True))

        def ret_pairs(nf):
            out = []
            for m in nf.cfg().find(is_return):
                v = _res(nf, FlowNorm(nf), m, m.ast.value) if m.ast.value is not None else None
                if isinstance(v, ast.Tuple) and len(v.elts) == 2:
                    out.append((m, v.elts[1]))
                else:
                    return None
            return out or None
        sels = [s for s in sels if ret_pairs(s[1]) is not None]
        if len(sels) != 1:
            raise AnchorVanished("the one callback of _get_version_from_servermap that returns (servermap, version) (found %d)" % len(sels))
        x, sel, tracked, vexpr, explicit = sels[0]
        r.site(gv, x.call, "selection callback is given the requested version")
        r.require(x.kind == "cb", gv, gv.loc(x.call), "the version selection is registered as %s" % x.kind)
        vpos(gv, "_get_version_from_servermap")
        if explicit:
            xn = node_of(gv, x.call)
            nst, bad = _request_monitor(gv, "version", lambda m: [(vexpr, "sel")] if m is xn else [])
            r.count(nst)
            for (m, e, _w, v, req, w) in bad:
                r.violation(gv, gv.loc(e), "_get_version_from_servermap gives %s to %s as the requested version, not its `version` argument: "
                            "the best version of the (possibly narrower) servermap is picked instead of the one asked for (path: %s)" % (
                                REQ_TXT[v] if v != "other" else src(gv, e), short(sel), w.brief()), w)
        else:
            for m in gv.cfg().find(stores("version")):
                r.violation(gv, gv.loc(m.ast), "_get_version_from_servermap overwrites the requested version that %s reads" % short(sel))
        # what comes after the selection on the same Deferred could replace its result
        regs_gv = registrations(gv)
        after = regs_gv[[y.call for y in regs_gv].index(x.call) + 1:]
        for y in after:
            if y.recv == x.recv and y.kind != "eb":
                t = y.target
                if not (isinstance(t, ast.Lambda) and len(t.args.args) == 1 and isinstance(t.body, ast.Name) and t.body.id == t.args.args[0].arg):
                    raise AnalysisError("callback %r follows the version selection in _get_version_from_servermap: cannot tell what it returns" % y)
        for m in gv.cfg().find(is_return):
            v = m.ast.value
            b = _unchain_regs(_res(gv, FlowNorm(gv), m, v)) if v is not None else None
            r.require(isinstance(b, ast.Name) and b.id == x.recv, gv, gv.loc(m.ast),
                      "_get_version_from_servermap returns %s, not the Deferred the version selection is registered on" % (
                          src(gv, v) if v is not None else "None"))
        pairs = ret_pairs(sel)
        pmap = {id(m): e for (m, e) in pairs}
        nst, bad = _request_monitor(sel, tracked, lambda m: [(pmap[id(m)], "ret")] if id(m) in pmap else [])
        r.count(nst)
        r.site(sel, pairs[0][0].ast, "a requested version is returned or the request fails")
        for (m, e, _w, v, req, w) in bad:
            r.violation(sel, sel.loc(m.ast), "%s can return %s although version `%s` was asked for%s: when the requested version is not "
                        "recoverable in this servermap (a MODE_READ map stops early and may not see it) another version is silently "
                        "substituted, so the repairer downloads and republishes OLDER contents over the newest ones; it has to fail "
                        "(UnrecoverableFileError) instead (path: %s)" % (
                            short(sel), "`%s` re-bound to a different version" % src(sel, e) if v == "other" else REQ_TXT[v], tracked,
                            "" if req == "T" else " (the request is never examined)", w.brief()), w)

        # (d) MutableFileVersion keeps the version it was built for and reads exactly that one
        r.site(mfv_init, None, "self._version = version")
        ivals = [(m, assign_value(m, "self._version")) for m in mfv_init.cfg().nodes if "self._version" in node_stores(m)]
        if not ivals:
            raise AnchorVanished("self._version = .. in MutableFileVersion.__init__")
        nst, bad = _request_monitor(mfv_init, "version", lambda m: [(assign_value(m, "self._version"), "store")] if "self._version" in node_stores(m) else [])
        r.count(nst)
        for (m, e, _w, v, req, w) in bad:
            r.violation(mfv_init, mfv_init.loc(m.ast), "MutableFileVersion.__init__ stores %s as its version, not the version it was built for" % (
                src(mfv_init, e) if e is not None else "an opaque value"), w)
        mcls = idx.cls("mutable.filenode:MutableFileVersion")
        for (nme, mf) in sorted(mcls.methods.items()):
            if mf is mfv_init:
                continue
            for m in mf.cfg().nodes:
                if "self._version" in node_stores(m):
                    r.violation(mf, mf.loc(m.ast), "%s re-binds self._version: the version object would read another version than the one it was built for" % short(mf))
        rn = FlowNorm(mfv_read)
        rcs = calls_in_func(mfv_read, "Retrieve")
        if not rcs:
            raise AnchorVanished("Retrieve(..) in MutableFileVersion._read")
        for c in rcs:
            r.site(mfv_read, c, "retrieve self._version")
            m = node_of(mfv_read, c)
            a = arg(c, 3, "verinfo")
            r.require(a is not None and rn.norm(m, a) == "self._version", mfv_read, mfv_read.loc(c),
                      "MutableFileVersion._read retrieves version %s, not the version this object was built for" % (src(mfv_read, a) if a is not None else "?"))


    # -- 10. completion policy: in the all-servers modes the mapupdate ends only when no query is outstanding ----------
    # The verdict "a single version, no others" (C14.1/.2) and the repairer's refusal gates (C14.3) are statements about
    # the whole grid: C14.8 makes the checker / repairer ASK every server, this rule makes them WAIT for every answer.  An
    # answer that arrives after _done() is dropped (_got_results: "but we're not running"), so a share of another version
    # held by a slow server would simply not exist for the check.
    with ctx.rule("C14.10", "R1/E3/R4", "ServermapUpdater._check_for_done: in the modes that query every server (MODE_CHECK, "
                  "MODE_REPAIR) _done() is reached only after _queries_outstanding (or _must_query, which update() makes the set of "
                  "all queried servers in these modes) was found empty; only _check_for_done ends the update; a server leaves "
                  "_must_query only in the handler of its own answer, after the shares of the answer were processed", expected=6) as r:
        full = _all_server_modes(idx, r)
        if not full:
            raise AnalysisError("no mode of ServermapUpdater.update queries the full server list (see C14.8)")
        full = frozenset(full)
        mq_modes = _must_query_is_everyone(idx, r, full)
        r.site("ServermapUpdater.update", None, "modes in which _must_query holds every queried server: %s" % sorted(map(str, mq_modes)))
        cd = idx.func(UPD + "._check_for_done")
        ccfg = cd.cfg()
        cn = FlowNorm(cd)
        refine = _mode_refiner(idx, cd, cn)
        dones = [n for n in ccfg.nodes if n.kind in ("stmt", "test") and any(call_name(c) == "self._done" for c in node_calls(n))]
        if not dones:
            raise AnchorVanished("self._done() in ServermapUpdater._check_for_done")
        for n in dones:
            r.site(cd, n.ast, "ends the update")

        def tr(n, lab, nxt, st):
            modes, ev = st
            if lab == "exc":
                return None
            modes = refine(n, lab, modes)
            if not modes:
                return None
            if n.kind == "test":
                f = cn.edge_fact(n, lab)
                if _empty_fact(f, OUT):
                    ev = ev | {"out"}
                if _empty_fact(f, MUST):
                    ev = ev | {"must"}
            elif n.kind in ("stmt", "iter", "with") and n not in dones:
                sts = node_stores(n)
                if "self.mode" in sts:
                    modes = full
                if OUT in sts or any(call_tail(c) in ("_send_more_queries", "_do_query", "_send_initial_requests") for c in node_calls(n)) \
                        or any(call_name(c).startswith(OUT + ".") and call_tail(c) in ("add", "update") for c in node_calls(n)):
                    ev = frozenset()
                if MUST in sts:
                    ev = ev - {"must"}
            return (modes, ev)
        visited, parent = explore(ccfg, (full, frozenset()), tr)
        r.count(len(visited))
        seen_bad = set()
        for (nid, (modes, ev)) in sorted(visited, key=lambda x: (x[0], sorted(map(str, x[1][0])), sorted(x[1][1]))):
            n = ccfg.nodes[nid]
            if n not in dones:
                continue
            waiting = {m for m in modes if not ("out" in ev or ("must" in ev and m in mq_modes))}
            if not waiting or nid in seen_bad:
                continue
            seen_bad.add(nid)
            w = witness(ccfg, parent, (nid, (modes, ev)))
            r.violation(cd, cd.loc(n.ast), "_check_for_done ends the mapupdate (`%s`) in %s on a path on which neither "
                        "self._queries_outstanding nor self._must_query was found empty: servers that were asked have not answered "
                        "yet, their answers are dropped once _done() ran, so a share of another (e.g. newer) version held by a slow "
                        "server is never seen and check() reports the file healthy / repair passes its refusal gates (path: %s)" % (
                            src(cd, n.ast), "/".join(sorted(map(str, waiting))), w.brief()), w)
        # only _check_for_done ends the update, and only _done fires the result
        dn = idx.func(UPD + "._done")
        for (f, node, is_call) in _uses_everywhere(idx, "_done", module_prefix="allmydata.mutable.servermap"):
            if not f.qual.startswith(idx.cls(UPD).qual + "."):
                continue
            if isinstance(node, ast.Call):
                if call_name(node) != "self._done":
                    continue
            elif attr_path(node) != "self._done":
                continue
            r.require(f is cd, f, f.loc(node), "%s %s self._done outside _check_for_done: the mapupdate can be ended while queries "
                      "are outstanding (e.g. by a timer), and the late answers are dropped" % (short(f), "calls" if is_call else "hands on"))
        fires = 0
        pfx = idx.cls(UPD).qual + "."
        for f in list(idx.funcs.values()):
            if not f.qual.startswith(pfx):
                continue
            for x in func_own_nodes(f):
                if isinstance(x, ast.Attribute) and x.attr == "callback" and attr_path(x) == "self._done_deferred.callback":
                    fires += 1
                    r.site(f, x, "fires the mapupdate's result")
                    r.require(f is dn, f, f.loc(x), "%s fires self._done_deferred with a result: only _done (called by "
                              "_check_for_done once every answer is in) may hand the servermap out" % short(f))
        if not fires:
            raise AnchorVanished("self._done_deferred.callback in ServermapUpdater._done")
        # a server leaves _must_query / _queries_outstanding only through the handlers of its own query
        dq = idx.func(UPD + "._do_query")
        handlers = set()
        for x in registrations(dq):
            t = x.target
            if isinstance(t, ast.Attribute) and attr_path(t) and attr_path(t).startswith("self."):
                handlers.add(t.attr)
        if "_got_results" not in handlers:
            raise AnchorVanished("_got_results registered on the query Deferred in _do_query")
        n_rm = 0
        for f in list(idx.funcs.values()):
            if not f.qual.startswith(pfx):
                continue
            fn_ = None
            for n in f.cfg().nodes:
                if n.ast is None:
                    continue
                for c in node_calls(n):
                    if not (isinstance(c.func, ast.Attribute) and attr_path(c.func.value) == MUST
                            and c.func.attr in ("discard", "remove", "pop", "clear", "difference_update", "intersection_update")):
                        continue
                    n_rm += 1
                    r.site(f, c, "a server leaves _must_query")
                    top = f
                    while top.parent is not None:
                        top = top.parent
                    own_handler = top.name in handlers and top.name != "_check_for_done"
                    if fn_ is None:
                        fn_ = FlowNorm(f)
                    a = fn_.norm(n, c.args[0]) if len(c.args) == 1 else None
                    r.require(own_handler and c.func.attr in ("discard", "remove") and a is not None and a in top.params, f, f.loc(c),
                              "%s removes %s from self._must_query outside the handler of that server's own answer: _check_for_done then "
                              "sees an empty _must_query and ends an all-servers mapupdate while answers are outstanding" % (
                                  short(f), src(f, c.args[0]) if len(c.args) == 1 else "servers"))
                if n.kind == "stmt" and MUST in node_stores(n) and f.name != "update":
                    r.violation(f, f.loc(n.ast), "%s re-binds self._must_query while the update is running" % short(f))
        if not n_rm:
            raise AnchorVanished("self._must_query.discard(server) in the query handlers")
        # ... and in _got_results only after the shares of the answer were processed (or when the update is over already)
        gr = idx.func(UPD + "._got_results")
        gcfg = gr.cfg()
        gn = FlowNorm(gr)
        dps = [nf for nf in gr.nested.values() if any(isinstance(c.func, ast.Attribute) and attr_path(c.func.value) == MUST
                                                      for c in calls_in_func(nf))]
        for nf in dps:
            regs = [x for x in registrations(gr) if isinstance(x.target, ast.Name) and x.target.id == nf.name and x.kind in ("cb", "both")]
            r.site(gr, nf.node, "retires the query after the shares were processed")
            r.require(bool(regs), gr, gr.loc(nf.node), "%s (which takes the server out of _must_query) is not registered on the Deferred "
                      "of the per-share processing" % nf.name)
            for x in regs:
                dv = [v for v in all_defs(gr).get(x.recv, [])] if x.recv else []
                lists = [v for v in dv if isinstance(v, ast.Call) and call_tail(v) in ("DeferredList", "gatherResults")]
                r.require(bool(lists), gr, gr.loc(x.call), "%s is registered on %s, which is not the DeferredList of the per-share "
                          "processing: the server is retired before its shares are in the servermap" % (nf.name, x.recv or "a Deferred"))

            def direct(m, _nf=nf):
                return m.kind == "stmt" and any(isinstance(c.func, ast.Name) and c.func.id == _nf.name for c in node_calls(m))

            def stopped(m, lab):
                f = gn.edge_fact(m, lab)
                return bool(f) and f[0] == "false" and f[1] == "self._running"
            for (t, w) in find_path_avoiding(gcfg, direct, gate_edge=stopped):
                r.violation(gr, gr.loc(t.ast), "_got_results calls %s() directly while the update is running: the server leaves "
                            "_must_query before the shares of its answer have been validated and recorded, so the update can end "
                            "without them (path: %s)" % (nf.name, w.brief()), w)

    # -- 11. where the per-version share count comes from (symbolic, shape-independent) ---------------
    with ctx.rule("C14.11", "E6/E4", "ServerMap (symbolic evaluation from self._known_shares through helpers, loops, comprehensions, "
                  "setdefault/DictOfSets accumulation): shares_available()[v][0] is the size of a collection of DISTINCT share numbers; "
                  "recoverable_versions() / unrecoverable_versions() are exactly the versions with k <= that count / that count < k; "
                  "unrecoverable_newer_versions() keeps every version with count < k above the highest seqnum of the recoverable ones",
                  expected=4) as r:
        sev = _sm_eval(idx)
        undecided = []
        vals = {}
        for mname in ("shares_available", "recoverable_versions", "unrecoverable_versions", "unrecoverable_newer_versions"):
            fn = idx.func(SMAP + "." + mname)
            r.site(fn, None, "value of %s()" % mname)
            try:
                vals[mname] = sev.method(mname)
            except _Undecided as e:
                undecided.append("%s(): %s" % (mname, e))
        r.count(len(sev.memo))
        for (pf, node, msg) in sev.problems:
            r.violation(pf, pf.loc(node), msg)
        v = vals.get("shares_available")
        if v is not None:
            fn = idx.func(SMAP + ".shares_available")
            if v[0] == "pv" and v[1][0] == "tuple" and len(v[1][1]) == 3:
                c, kf, nf_ = v[1][1]
                if c[0] == "count":
                    r.require(c[1] == "distinct", fn, fn.loc(), "element 0 of shares_available()[version] (the good-share count of the checker, "
                              "compared with k and N) is %s, not the number of DISTINCT share numbers of the version: a share number held "
                              "by two servers is counted twice, so a file that lacks a share number is reported healthy and not repaired"
                              % (c[2] if len(c) > 2 else c[1]))
                else:
                    undecided.append("shares_available(): element 0 of the per-version tuple is %s, which is not followed" % (c[-1],))
                r.require(kf == ("verfield", 5) and nf_ == ("verfield", 6), fn, fn.loc(),
                          "elements 1 and 2 of shares_available()[version] are not fields 5 and 6 (k, N) of the version")
            else:
                undecided.append("shares_available() is not evaluated to a dict of (count, k, N) per version")
        for (mname, want, txt) in (("recoverable_versions", W_GE, "k <= distinct share numbers"),
                                   ("unrecoverable_versions", W_LT, "distinct share numbers < k")):
            v = vals.get(mname)
            if v is None:
                continue
            fn = idx.func(SMAP + "." + mname)
            if v[0] != "verset":
                undecided.append("%s() is not evaluated to a set of versions" % mname)
                continue
            r.require(not (v[1] - want), fn, fn.loc(), "%s() includes versions %s" % (mname, _worlds_txt(v[1] - want)))
            r.require(not (want - v[1]), fn, fn.loc(), "%s() leaves out versions %s (it must hold exactly the versions with %s)" % (
                mname, _worlds_txt(want - v[1]), txt))
        v = vals.get("unrecoverable_newer_versions")
        if v is not None:
            fn = idx.func(SMAP + ".unrecoverable_newer_versions")
            if v[0] == "pvf":
                r.require((W_LT & W_NEWER) <= v[1], fn, fn.loc(), "unrecoverable_newer_versions() leaves out a version that has fewer than k "
                          "distinct shares and a seqnum above the highest recoverable one: repair without force would not refuse to discard it")
            elif v[0] != "pv":
                undecided.append("unrecoverable_newer_versions() is not evaluated to a dict keyed by version")
        if undecided:
            raise AnalysisError("symbolic evaluation of the ServerMap queries: " + "; ".join(undecided))


def call_name_of(e):
    return attr_path(e) or ""
