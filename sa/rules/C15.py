"""C15 Capability strings round-trip and parse canonically.

Decided from the folded regular expressions (regex AST), the %-templates of
to_string, the decoder/encoder pairs around them, and the CFG of
uri.from_string (DESIGN.md section 5, C15)."""
from sa.h import *
from sa.index import Module

EXPLANATION = (
    "Decided (structural): for the 9 file-cap classes of allmydata.uri (1) STRING_RE is applied to the whole "
    "parameter and anchored at position 0; (2) it is end-anchored (MDMF kinds may end in the documented "
    "':'-extension alternative); (3) the end anchor is end-of-string (\\Z / fullmatch), not '$' which also matches "
    "before a trailing newline; (4) regex groups, decoders, constructor parameters, stored fields, encoders and the "
    "to_string template agree position by position (literal pieces, BASE_STRING prefix, %d <-> digits, %s <-> "
    "canonical base32 of 16/32 bytes or any length), so parse o serialise is the identity on fields; (5) numeric "
    "groups admit no leading zeros (otherwise '03' re-serialises as '3'); (6) from_string dispatches on exactly the "
    "18 BASE_STRINGs, no test shadows another, every parser call is under the BadURIError handler and every other "
    "return is UnknownURI(original input); (7) the 9 directory wrappers: BASE_STRING_RE is '^'+BASE_STRING, "
    "init_from_string/to_string swap exactly the wrapper and inner base strings; (8) a failed match raises "
    "BadURIError before any group is used; (9) abstract execution of from_string's CFG, once per cap class, on an "
    "unprefixed bytes input starting with that class's BASE_STRING and all options at their defaults: it ends in that "
    "class's init_from_string applied to the unmodified input (so what to_string() produces parses back as the same "
    "kind: negated can_be_writeable/can_be_mutable or prefix tests, a changed deep_immutable default, an unconditional "
    "prefix strip are reported); (10) abstract execution of each file-cap constructor on the values its parser decodes "
    "(bytes of the regex group's byte length, ints; hashutil results have the constant truncate_to length) and of "
    "to_string on the resulting object: no length/type guard or assertion rejects them and every field to_string "
    "writes holds its constructor parameter on that path; (11) abstract execution of from_string on inputs of which only "
    "the leading bytes are known, per cap class and in both contexts: two stacked alleged prefixes (every ordered pair of "
    "'ro.'/'imm.') in front of the BASE_STRING certainly end in UnknownURI(unmodified input) - at most one prefix is ever "
    "removed, so such strings (outside the grammar) are never read as a known kind; (12) likewise: BASE_STRING.. ends in "
    "that class's parser applied to the unmodified input, prefix+BASE_STRING.. in that parser applied to the input minus "
    "exactly the prefix or in UnknownURI(input), and white space in front of the BASE_STRING (or between prefix and "
    "BASE_STRING) ends in UnknownURI(input): nothing but one alleged prefix is removed and neither end is trimmed "
    "(strip/lstrip/rstrip/removeprefix/removesuffix of the input or of the working copy are decided on the known leading "
    "bytes and reported; a for loop over a short constant table, e.g. of the alleged prefixes, is unrolled); (13) every "
    "named one-character class of base32 characters that a STRING_RE is built from (util.base32's BASE32CHAR*, evaluated "
    "through the helper that computes them) is, as a set, the alphabet characters whose N low bits are zero for one N in "
    "0..4 - with (4), which demands the right N at each group's last position, this pins the classes to the canonical ones "
    "and names the base32 helper / constant when a class is some other set; (14) the table that the validator asserted "
    "by base32.a2b (could_be_base32_encoded) indexes with (length mod 8, last byte) - folded through init_s8 / "
    "add_check_array - is true for the last character of every base32 group of every STRING_RE at the group's length(s), "
    "so that no string the patterns accept, in particular none that to_string() writes, fails a2b's precondition (an "
    "AssertionError, which from_string does not turn into UnknownURI); (15) abstract execution of the textual predicates "
    "has_uri_prefix / is_literal_file_uri on the same known leading bytes: certainly true for [one alleged prefix +] "
    "BASE_STRING.. (the literal file cap's only, for is_literal_file_uri), certainly false for two stacked alleged prefixes "
    "and for white space before the BASE_STRING - they recognise what from_string's front end reads, nothing more. "
    "The abstract executions of 9-12 and 15 follow calls of module-level package helpers (the str/bytes step or the prefix "
    "handling factored out, to depth 3, arguments bound to the abstract values, the result taken when the helper's return "
    "is certain or all its possible returns agree), tuple results / tuple unpacking / indexing of a result tuple, and "
    "concatenation of constants; a kind dispatch written as data is decided as well: a for loop (tuple targets, break / "
    "for-else) or next() over a generator is unrolled over a module-level table of up to 64 rows whose cells are "
    "constants or classes, small dicts with constant keys are indexed, and `return <row's class>.init_from_string(..)` "
    "counts for the class the row holds (rule 6 then takes the dispatched class, its argument and the handler from the "
    "abstract execution per class and compares each row's prefix with that class's BASE_STRING). "
    "Undecided: base32 a2b/b2a arithmetic itself (value level), int() of huge digit strings, the free-form MDMF "
    "extension fields (explicitly allowed to be dropped); which kinds from_string refuses behind a 'ro.'/'imm.' prefix or "
    "with deep_immutable=True (flag clearing, the error/kind reported for a constraint failure - property C16), str inputs "
    "(the encode step) and non-bytes arguments; that _SHA256d_Hasher really truncates to truncate_to (value level); "
    "paths of the abstract executions whose tests are not decided by the scenario are followed on both sides and "
    "only certain outcomes are reported; rules 11/12 give ANALYSIS-ERROR when a scenario's outcome is not decided by "
    "the known leading bytes (prefix handling moved into methods / nested functions / helpers with *args or decorators or "
    "deeper than 3 calls, a helper that may raise, while/nested loops over a prefix table, regex-based prefix "
    "tests, split/partition/replace, `in` tests), and they examine the listed scenarios only (other junk than white space, other "
    "transformations than slices, the strip family and removeprefix/removesuffix are not modelled); the other "
    "conjunct of a2b's validator (the translate-based alphabet test) and the empty-string guard; a validator that does not "
    "index a table by (len % 8, last byte) gives ANALYSIS-ERROR in rule 14; entries of that table that are true for more "
    "than the patterns accept are not reported (the patterns decide first).")
TECHNIQUE = ("static analysis: regex-AST language checks on constant-folded patterns and helper-computed tables, template/decoder pairing, CFG dominance "
             "in from_string, bounded abstract interpretation of from_string / cap constructors / to_string over the CFG")

URI_MOD = "allmydata.uri"
ALPHABET = "abcdefghijklmnopqrstuvwxyz234567"      # RFC 3548, lower case
ALPHA = frozenset(ALPHABET)
DIGITS = frozenset("0123456789")
# bytes carried by a constructor parameter (spec: AES-128 keys / storage index, SHA-256d hashes)
FIELD_BYTES = {"key": 16, "writekey": 16, "readkey": 16, "storage_index": 16,
               "uri_extension_hash": 32, "fingerprint": 32}
ANY_TAILS = {0, 2, 4, 5, 7}                        # lengths mod 8 that encode whole bytes


# ------------------------------------------------------------- regex tokens
def _charset(op, av):
    if op == "LITERAL":
        return frozenset(chr(av))
    if op == "IN":
        s = set()
        for a, b in av:
            if a == "LITERAL":
                s.add(chr(b))
            elif a == "RANGE":
                s.update(chr(c) for c in range(b[0], b[1] + 1))
            elif a == "CATEGORY" and str(b) == "CATEGORY_DIGIT":
                s.update(DIGITS)
            else:
                return None
        return frozenset(s)
    return None


def _toks(items):
    """('at',k) | ('set',chars,lo,hi) | ('group',idx,toks) | ('branch',[toks..]) | ('rep',lo,hi,toks) | ('other',op)"""
    out = []
    for op, av in items:
        if op == "AT":
            out.append(("at", av))
        elif op in ("LITERAL", "IN"):
            cs = _charset(op, av)
            out.append(("set", cs, 1, 1) if cs is not None else ("other", op))
        elif op in ("MAX_REPEAT", "MIN_REPEAT", "POSSESSIVE_REPEAT"):
            lo, hi, sub = av
            st = _toks(sub)
            if len(st) == 1 and st[0][0] == "set" and st[0][2] == 1 and st[0][3] == 1:
                out.append(("set", st[0][1], lo, hi))
            else:
                out.append(("rep", lo, hi, st))
        elif op == "SUBPATTERN":
            g, sub = av
            st = _toks(sub)
            if g is None:
                out.extend(st)
            else:
                out.append(("group", g, st))
        elif op == "BRANCH":
            out.append(("branch", [_toks(a) for a in av]))
        else:
            out.append(("other", op))
    return out


def _is_colon(t):
    return t[0] == "set" and t[1] == frozenset(":") and t[2] == 1 and t[3] == 1


def _end_kinds(toks):
    """How a match may end: '$', 'Z' (\\Z), ':' (colon, then anything), 'open', 'empty'."""
    if not toks:
        return {"empty"}
    t = toks[-1]
    if t[0] == "at":
        return {"$"} if t[1] == "AT_END" else ({"Z"} if t[1] == "AT_END_STRING" else {"open"})
    if t[0] == "group":
        ks = _end_kinds(t[2])
    elif t[0] == "branch":
        ks = set()
        for a in t[1]:
            ks |= _end_kinds(a)
    elif _is_colon(t):
        return {":"}
    else:
        return {"open"}
    if "empty" in ks:
        ks = (ks - {"empty"}) | _end_kinds(toks[:-1])
    return ks


def _is_tail_group(t):
    """The MDMF '(:|$)' shape: a group holding only alternatives ':' / end anchor."""
    if t[0] != "group" or len(t[2]) != 1 or t[2][0][0] != "branch":
        return False
    for alt in t[2][0][1]:
        if len(alt) != 1 or not (_is_colon(alt[0]) or (alt[0][0] == "at" and alt[0][1] in ("AT_END", "AT_END_STRING"))):
            return False
    return True


def _shape(toks):
    """Body between the anchors -> [('lit', text) | ('group', idx, toks)], or None when it has another form."""
    toks = list(toks)
    while toks and toks[0][0] == "at" and toks[0][1] in ("AT_BEGINNING", "AT_BEGINNING_STRING"):
        toks.pop(0)
    if toks and toks[-1][0] == "at":
        toks.pop()
    elif toks and _is_tail_group(toks[-1]):
        toks.pop()
    parts = []
    for t in toks:
        if t[0] == "set" and len(t[1]) == 1 and t[2] == t[3]:
            txt = next(iter(t[1])) * t[2]
            if parts and parts[-1][0] == "lit":
                parts[-1] = ("lit", parts[-1][1] + txt)
            else:
                parts.append(("lit", txt))
        elif t[0] == "group":
            parts.append(t)
        else:
            return None
    return parts


def _positions(toks, limit=160):
    out = []
    for t in toks:
        if t[0] != "set" or t[2] != t[3]:
            return None
        out.extend([t[1]] * t[2])
        if len(out) > limit:
            return None
    return out


def _canonical_b32(pos):
    """None if the fixed-length position list is not canonical base32, else the number of bytes."""
    n = len(pos)
    if n == 0:
        return 0
    spare = (5 * n) % 8
    if spare >= 5:
        return None
    if any(p != ALPHA for p in pos[:-1]):
        return None
    want = frozenset(ALPHABET[i] for i in range(32) if i % (1 << spare) == 0)
    if pos[-1] != want:
        return None
    return (5 * n) // 8


def _all_sets(toks):
    for t in toks:
        if t[0] == "set":
            yield t[1]
        elif t[0] == "group":
            yield from _all_sets(t[2])
        elif t[0] == "rep":
            yield from _all_sets(t[3])
        elif t[0] == "branch":
            for a in t[1]:
                yield from _all_sets(a)
        else:
            yield None


def _num_words(toks):
    """Abstract language of a digit group: set of (length class 0/1/2, first is '0'/'nz'/None)."""
    cur = {(0, None)}

    def cat(A, B):
        return {(min(l1 + l2, 2), f1 if l1 > 0 else f2) for (l1, f1) in A for (l2, f2) in B}

    def power(base, lo, hi):
        res = set()
        ks = {lo, lo + 1, lo + 2} if hi is None else {k for k in (lo, lo + 1, lo + 2, hi) if lo <= k <= hi}
        for k in ks:
            w = {(0, None)}
            for _ in range(min(k, 3)):
                w = cat(w, base)
            res |= w
        return res
    for t in toks:
        if t[0] == "set":
            base = set()
            if "0" in t[1]:
                base.add((1, "0"))
            if t[1] - {"0"}:
                base.add((1, "nz"))
            nxt = power(base, t[2], t[3])
        elif t[0] == "group":
            nxt = _num_words(t[2])
        elif t[0] == "branch":
            nxt = set()
            for a in t[1]:
                nxt |= _num_words(a)
        elif t[0] == "rep":
            nxt = power(_num_words(t[3]), t[1], t[2])
        else:
            return None
        if nxt is None:
            return None
        cur = cat(cur, nxt)
    return cur


def _classify(gtoks):
    """-> ('num', leading_zero, may_be_empty) | ('b32', nbytes|None, nchars) | ('b32any', ok) | ('?',)"""
    sets = list(_all_sets(gtoks))
    if sets and all(s is not None and s <= DIGITS for s in sets):
        w = _num_words(gtoks)
        if w is not None:
            return ("num", (2, "0") in w, (0, None) in w)
    pos = _positions(gtoks)
    if pos is not None and pos:
        return ("b32", _canonical_b32(pos), len(pos))
    if len(gtoks) == 2 and gtoks[0][0] == "rep" and gtoks[0][1] == 0 and gtoks[0][2] is None and gtoks[1][0] == "branch":
        body = _positions(gtoks[0][3])
        ok = body is not None and len(body) == 8 and _canonical_b32(body) == 5
        lens = set()
        for alt in gtoks[1][1]:
            p = _positions(alt)
            if p is None or _canonical_b32(p) is None:
                ok = False
            else:
                lens.add(len(p))
        return ("b32any", ok and lens == ANY_TAILS)
    return ("?",)


# ------------------------------------------------------------------ helpers
def _cls_loc(ci, attr=None):
    node = ci.node
    if attr and attr in ci.attrs:
        node = ci.attrs[attr][-1]
    return "%s:%s" % (ci.module.relpath, getattr(node, "lineno", ci.node.lineno))


def _uri_classes(idx):
    m = idx.module(URI_MOD)
    files = [c for c in m.classes.values() if "STRING_RE" in c.attrs]
    dirs = [c for c in m.classes.values() if "BASE_STRING_RE" in c.attrs]
    return m, files, dirs


def _fold_re(F, ci, attr):
    try:
        v = F.class_attr(ci, attr)
    except NotConstant as e:
        raise AnalysisError("cannot fold %s.%s: %s" % (ci.qual, attr, e))
    if not (isinstance(v, tuple) and len(v) == 3 and v[0] == "re" and isinstance(v[1], (bytes, str))):
        raise AnalysisError("%s.%s is not a compiled constant pattern" % (ci.qual, attr))
    return v


def _fold_bytes(F, ci, attr):
    try:
        v = F.class_attr(ci, attr)
    except NotConstant as e:
        raise AnalysisError("cannot fold %s.%s: %s" % (ci.qual, attr, e))
    if not isinstance(v, bytes):
        raise AnalysisError("%s.%s is not a bytes constant" % (ci.qual, attr))
    return v


def _returns(fn):
    return [n for n in fn.cfg().find(is_return) if n.id in fn.cfg().reachable_nodes()]


def _nf_ast(fnorm, node, expr):
    s = fnorm.norm(node, expr)
    try:
        return s, parse_expr(s)
    except SyntaxError:
        raise AnalysisError("normal form of %s is not an expression: %s" % (fnorm.fn.qual, s))


def _application(fn):
    """How init_from_string applies its pattern: [(return node, attr, method, subject normal form, call nf)]
    taken from the normal form of the match object used by the returns."""
    out = []
    fnorm = FlowNorm(fn)
    cfg = fn.cfg()
    reach = cfg.reachable_nodes()
    # the returns, and the tests (the pattern may be applied only to be tested: the fields then come from slices)
    places = [(n, n.ast.value) for n in _returns(fn) if n.ast.value is not None]
    places += [(n, n.ast) for n in cfg.find(lambda n: n.kind == "test") if n.id in reach and isinstance(n.ast, ast.expr)]
    for (n, expr) in places:
        try:
            s, e = _nf_ast(fnorm, n, expr)
        except AnalysisError:
            if n.kind == "test":
                continue
            raise
        for x in ast.walk(e):
            if isinstance(x, ast.Call) and isinstance(x.func, ast.Attribute) and x.func.attr in ("search", "match", "fullmatch"):
                p = attr_path(x.func.value)
                if p and p.split(".")[0] in ("cls", "self") and p.endswith("_RE"):
                    out.append((n, p.split(".", 1)[1], x.func.attr, x, norm_plain(x)))
    return out


def _codec(idx, module, fexpr, depth=2):
    """'a2b' / 'b2a' / 'int' for a decoder/encoder callee (thin wrappers are followed), else None."""
    if isinstance(fexpr, ast.Name) and fexpr.id == "int" and idx.resolve_name(module, "int") is None:
        return "int"
    tgt = idx.resolve_expr(module, fexpr)
    if not isinstance(tgt, FuncInfo):
        return None
    if tgt.qual == "allmydata.util.base32:a2b":
        return "a2b"
    if tgt.qual == "allmydata.util.base32:b2a":
        return "b2a"
    if depth > 0:
        body = [s for s in tgt.body if not (isinstance(s, ast.Expr) and isinstance(s.value, ast.Constant))]
        ps = first_positional_params(tgt)
        if len(body) == 1 and isinstance(body[0], ast.Return) and isinstance(body[0].value, ast.Call) and len(ps) == 1:
            c = body[0].value
            if len(c.args) == 1 and not c.keywords and isinstance(c.args[0], ast.Name) and c.args[0].id == ps[0]:
                return _codec(idx, tgt.module, c.func, depth - 1)
    return None


def _strip_forms(x, prefix_exprs, re_calls):
    """Normal forms of 'x without its leading base string'."""
    out = set()
    for c in re_calls:
        out.add(norm_src("%s[%s.end():]" % (x, c)))
    for p in prefix_exprs:
        out.add(norm_src("%s[len(%s):]" % (x, p)))
        out.add(norm_src("%s.removeprefix(%s)" % (x, p)))
    return out


def _concat(fnorm, node, e, left_path, right_forms):
    """e is (a local holding) `<left_path> + <one of right_forms>`, in this order (bytes concatenation is not
    commutative, so the operand order is read from the AST, not from the polynomial normal form)."""
    e = fnorm.resolve(node, e)
    if not (isinstance(e, ast.BinOp) and isinstance(e.op, ast.Add)):
        return False
    return attr_path(e.left) == left_path and fnorm.norm(node, e.right) in right_forms


# ---------------------------------- abstract execution (rules C15.9, C15.10)
# Abstract values: IN (from_string's input: bytes that start with the class's BASE_STRING, no alleged prefix),
# CUT (a proper part of it), ("b", nbytes|None, origin) bytes of a known length, ("i", origin) an int,
# ("c", v) a known constant, UNK.
# ("h", head, cut, pure): bytes whose leading bytes are `head`, followed by a tail that is not known (possibly empty);
# it is input[cut:] (cut None: not known) and `pure` says that nothing else was done to it (no strip of either end).
IN, CUT, UNK = ("in",), ("cut",), ("?",)
WS = b" \t\n\r\x0b\x0c"                          # what bytes.strip() removes by default
_TYPES = {"bytes": bytes, "str": str, "int": int, "bool": bool}
OPAQUE = "!opaque"


def _const(v):
    try:
        hash(v)
    except TypeError:
        return UNK
    return ("c", v)


def _truth(v):
    """True / False / None (not known) for an abstract value."""
    if v == IN:
        return True                      # starts with a non-empty BASE_STRING
    if v[0] == "c":
        return bool(v[1])
    if v[0] == "b" and v[1] is not None:
        return v[1] > 0
    if v[0] == "h" and v[1]:
        return True
    if v[0] in ("t", "d"):
        return len(v[1]) > 0
    if v[0] == "k":
        return True                      # a class object
    return None


MAX_TABLE = 64                                   # rows of a constant table a loop / generator is unrolled over


def _elements(v):
    """The elements of an abstract tuple / constant tuple / constant bytes in order, or None (not known / too long)."""
    if v[0] == "t":
        els = list(v[1])
    elif v[0] == "c" and isinstance(v[1], tuple):
        els = [_const(x) for x in v[1]]
    elif v[0] == "c" and isinstance(v[1], bytes):
        els = [_const(x) for x in v[1]]
    else:
        return None
    return els if len(els) <= MAX_TABLE else None


def _h_startswith(head, ps):
    """Truth of value.startswith(ps) for a value with the known leading bytes `head` (None: depends on the tail)."""
    res = False
    for x in ps:
        if head.startswith(x):
            return True
        if x.startswith(head):
            res = None
    return res


def _h_slice(v, lo, hi):
    """v[lo:hi] for an ("h", ..) value and known non-negative bounds (hi None: open)."""
    _h, head, cut, pure = v
    if hi is None:
        return ("h", head[lo:], None if cut is None else cut + lo, pure)
    if hi <= len(head):
        return ("c", head[lo:hi])
    return ("h", head[lo:], None, False)


def _h_strip(v, chars, left, right):
    _h, head, cut, pure = v
    if not chars:
        return v
    if left:
        h2 = head.lstrip(chars)
        if not h2:
            head, cut, pure = b"", None, False     # how much of the tail goes as well is not known
        else:
            cut = None if cut is None else cut + len(head) - len(h2)
            head = h2
    if right:
        if head.rstrip(chars) != head:
            return UNK
        pure = False                               # the tail may lose bytes
    return ("h", head, cut, pure)


def _h_removeprefix(v, p):
    """v.removeprefix(p) for an ("h", ..) value and a bytes constant p: decided when the known leading bytes
    start with p (p goes, the value is input[cut + len(p):]) or cannot (nothing goes)."""
    _h, head, cut, pure = v
    if not p:
        return v
    if head.startswith(p):
        return ("h", head[len(p):], None if cut is None else cut + len(p), pure)
    if p.startswith(head):
        return UNK                                 # depends on the bytes after the known ones
    return v


def _h_removesuffix(v, sfx):
    """v.removesuffix(sfx): the tail is not known, so the end may or may not lose len(sfx) bytes; the leading bytes
    are kept unless the value could be so short that the suffix reaches into them."""
    _h, head, cut, pure = v
    if not sfx:
        return v
    if any(head.endswith(sfx[:k]) for k in range(1, len(sfx) + 1)):
        return UNK
    return ("h", head, cut, False)


def _loops_in_loops(fn):
    """The for statements of fn that lie inside another loop (their head can be entered more than once)."""
    out = set()

    def walk(node, inside):
        for ch in ast.iter_child_nodes(node):
            if isinstance(ch, (ast.FunctionDef, ast.AsyncFunctionDef, ast.Lambda, ast.ClassDef)):
                continue
            loop = isinstance(ch, (ast.For, ast.AsyncFor, ast.While))
            if inside and isinstance(ch, (ast.For, ast.AsyncFor)):
                out.add(id(ch))
            walk(ch, inside or loop)
    walk(fn.node, False)
    return out


def _hash_len(idx, F, module, call, depth=3):
    """Byte length of a hashutil helper's result: the constant truncate_to its tagged_hash / tagged_pair_hash
    call is given (helpers that only return another helper's call are followed); None when not known."""
    tgt = idx.resolve_expr(module, call.func)
    if not isinstance(tgt, FuncInfo) or tgt.module.name != "allmydata.util.hashutil":
        return None
    if tgt.name in ("tagged_hash", "tagged_pair_hash"):
        if "truncate_to" not in tgt.params:
            return None
        a = arg(call, tgt.params.index("truncate_to"), "truncate_to")
        if a is None:
            return None
        try:
            v = F.fold(a, module, None)
        except Exception:
            return None
        return v if isinstance(v, int) and not isinstance(v, bool) and v > 0 else None
    body = [x for x in tgt.body if not (isinstance(x, ast.Expr) and isinstance(x.value, ast.Constant))]
    if depth > 0 and len(body) == 1 and isinstance(body[0], ast.Return) and isinstance(body[0].value, ast.Call):
        return _hash_len(idx, F, tgt.module, body[0].value, depth - 1)
    return None


class _AI:
    """Bounded abstract interpreter over one function's CFG.  'exc' edges are not followed: the scenarios are
    well-formed values, and the outcomes of interest are returns, explicit raises, failed assertions and the end."""

    MAX_DEPTH = 3

    def __init__(self, idx, F, fn, base=None, depth=0, cache=None):
        self.idx, self.F, self.fn, self.base = idx, F, fn, base
        self.module = fn.module
        self.depth = depth
        self.cache = {} if cache is None else cache       # (helper qual, argument values) -> result value
        self.helper_states = 0

    def call_helper(self, e, env):
        """Value of a call of a module-level package function (a helper the code under analysis was factored into),
        by abstract execution of the helper on the argument values: decided when the helper certainly returns (every
        test on the path decided) - or when all the returns it may reach give one and the same value.  None: not a
        helper call this interpreter follows; UNK: followed, but the result is not decided (a possible raise included)."""
        if self.depth >= self.MAX_DEPTH or not isinstance(e.func, (ast.Name, ast.Attribute)):
            return None
        if isinstance(e.func, ast.Name) and e.func.id in env:
            return None
        if isinstance(e.func, ast.Attribute) and (not attr_path(e.func) or attr_path(e.func).split(".")[0] in env):
            return None
        try:
            tgt = self.idx.resolve_expr(self.module, e.func)
        except Exception:
            return None
        if not isinstance(tgt, FuncInfo) or tgt.cls is not None or tgt.parent is not None or isinstance(tgt.node, ast.Lambda):
            return None
        a = tgt.node.args
        if a.vararg or a.kwarg or a.posonlyargs or any(isinstance(x, ast.Starred) for x in e.args):
            return UNK
        if any(isinstance(x, (ast.Yield, ast.YieldFrom, ast.Await, ast.Global, ast.Nonlocal)) for x in ast.walk(tgt.node)) \
                or tgt.node.decorator_list:
            return UNK
        names = [x.arg for x in a.args]
        if len(e.args) > len(names):
            return UNK
        given = {}
        for nm, x in zip(names, e.args):
            given[nm] = self.ev(x, env)
        for kw in e.keywords:
            if kw.arg is None or kw.arg in given or kw.arg not in names + [x.arg for x in a.kwonlyargs]:
                return UNK
            given[kw.arg] = self.ev(kw.value, env)
        key = (tgt.qual, self.base, tuple(sorted(given.items())))
        if key in self.cache:
            return self.cache[key]
        self.cache[key] = UNK                                  # a recursive call is not followed
        sub = _AI(self.idx, self.F, tgt, self.base, self.depth + 1, self.cache)
        dflt = sub.defaults()
        if any(dflt[nm] == UNK and nm not in given for nm in dflt):
            return UNK                                         # a parameter without argument and default
        outs, nstates = sub.run(given)
        self.helper_states += nstates + sub.helper_states
        vals = set()
        for (n, kind, env2, exact, _w) in outs:
            if kind == "return":
                vals.add(("c", None) if n.ast.value is None else sub.ev(n.ast.value, env2))
            elif kind == "end":
                vals.add(("c", None))
            else:
                vals.add(UNK)
        res = next(iter(vals)) if len(vals) == 1 else UNK
        self.cache[key] = res
        return res

    def ev(self, e, env):
        F, base = self.F, self.base
        if isinstance(e, ast.Constant):
            return _const(e.value)
        if isinstance(e, ast.Name):
            if e.id in env:
                return env[e.id]
            mv = self.module_value(e.id)
            if mv is not None:
                return mv
        elif isinstance(e, ast.Dict) and all(k is not None for k in e.keys):
            ks = [self.ev(k, env) for k in e.keys]        # a small dispatch dict with constant keys
            if all(k[0] == "c" for k in ks) and len({k[1] for k in ks}) == len(ks):
                return ("d", tuple((k[1], self.ev(x, env)) for k, x in zip(ks, e.values)))
            return UNK
        elif isinstance(e, ast.Attribute) and attr_path(e) and attr_path(e) in env:
            return env[attr_path(e)]
        elif isinstance(e, ast.Attribute) and attr_path(e) and attr_path(e).split(".")[0] in env:
            return UNK                   # attribute of a local object: not a module constant
        elif isinstance(e, ast.UnaryOp) and isinstance(e.op, ast.Not):
            t = _truth(self.ev(e.operand, env))
            return UNK if t is None else ("c", not t)
        elif isinstance(e, ast.BoolOp):
            last = UNK
            for x in e.values:
                last = self.ev(x, env)
                t = _truth(last)
                if t is None:
                    return UNK
                if t != isinstance(e.op, ast.And):
                    return last
            return last
        elif isinstance(e, ast.IfExp):
            t = _truth(self.ev(e.test, env))
            return UNK if t is None else self.ev(e.body if t else e.orelse, env)
        elif isinstance(e, ast.Compare) and len(e.ops) == 1:
            a, b = self.ev(e.left, env), self.ev(e.comparators[0], env)
            op = e.ops[0]
            if a[0] == "c" and b[0] == "c":
                if isinstance(op, (ast.Eq, ast.NotEq)):
                    return ("c", (a[1] == b[1]) == isinstance(op, ast.Eq))
                if isinstance(op, (ast.Is, ast.IsNot)) and (a[1] is None or b[1] is None):
                    return ("c", (a[1] is b[1]) == isinstance(op, ast.Is))
                if isinstance(op, (ast.Lt, ast.LtE, ast.Gt, ast.GtE)) and all(
                        isinstance(x[1], int) and not isinstance(x[1], bool) for x in (a, b)):
                    return ("c", {ast.Lt: a[1] < b[1], ast.LtE: a[1] <= b[1], ast.Gt: a[1] > b[1],
                                  ast.GtE: a[1] >= b[1]}[type(op)])
            elif isinstance(op, (ast.Is, ast.IsNot)):
                for x, y in ((a, b), (b, a)):
                    if x == ("c", None) and (y in (IN, CUT) or y[0] in ("b", "i", "h", "t", "k", "d")):
                        return ("c", isinstance(op, ast.IsNot))
            elif isinstance(op, (ast.Eq, ast.NotEq)):
                for x, y in ((a, b), (b, a)):
                    if x[0] == "h" and y[0] == "c":
                        if not isinstance(y[1], bytes) or not y[1].startswith(x[1]):
                            return ("c", isinstance(op, ast.NotEq))
            return UNK
        elif isinstance(e, ast.BinOp) and isinstance(e.op, ast.Add) and any(
                isinstance(x, ast.Name) and x.id in env for x in ast.walk(e)):
            a, b = self.ev(e.left, env), self.ev(e.right, env)       # a loop variable + a literal, ...
            if a[0] == "c" and b[0] == "c" and type(a[1]) is type(b[1]) and isinstance(a[1], (bytes, str, tuple)):
                return _const(a[1] + b[1])
            return UNK
        elif isinstance(e, ast.Tuple) and isinstance(e.ctx, ast.Load) and not any(isinstance(x, ast.Starred) for x in e.elts):
            vs = tuple(self.ev(x, env) for x in e.elts)
            if all(x[0] == "c" for x in vs):
                return _const(tuple(x[1] for x in vs))
            return ("t", vs)
        elif isinstance(e, ast.Subscript):
            v = self.ev(e.value, env)
            if v[0] == "d":
                i = UNK if isinstance(e.slice, ast.Slice) else self.ev(e.slice, env)
                if i[0] == "c":
                    for (kk, vv) in v[1]:
                        if type(kk) is type(i[1]) and kk == i[1]:
                            return vv
                return UNK
            if v[0] == "t" or (v[0] == "c" and isinstance(v[1], tuple)):
                if isinstance(e.slice, ast.Slice):
                    return UNK
                i = self.ev(e.slice, env)
                if i[0] == "c" and type(i[1]) is int and -len(v[1]) <= i[1] < len(v[1]):
                    return v[1][i[1]] if v[0] == "t" else _const(v[1][i[1]])
                return UNK
            if v in (IN, CUT):
                sl = e.slice
                if isinstance(sl, ast.Slice) and sl.upper is None and sl.step is None and (
                        sl.lower is None or self.ev(sl.lower, env) == ("c", 0)):
                    return v
                if v == IN and self.base is not None and isinstance(sl, ast.Slice) and sl.step is None \
                        and sl.upper is not None and (sl.lower is None or self.ev(sl.lower, env) == ("c", 0)):
                    hi = self.ev(sl.upper, env)
                    if hi[0] == "c" and type(hi[1]) is int and 0 <= hi[1] <= len(self.base):
                        return ("c", self.base[:hi[1]])      # a prefix test written as a slice comparison
                return CUT
            if v[0] == "h":
                sl = e.slice
                if isinstance(sl, ast.Slice):
                    if sl.step is not None:
                        return UNK
                    lo = ("c", 0) if sl.lower is None else self.ev(sl.lower, env)
                    hi = ("c", None) if sl.upper is None else self.ev(sl.upper, env)
                    for b in (lo, hi):
                        if b[0] != "c" or not (b[1] is None or (type(b[1]) is int and b[1] >= 0)):
                            return UNK
                    return _h_slice(v, lo[1] or 0, hi[1])
                i = self.ev(sl, env)
                if i[0] == "c" and type(i[1]) is int and 0 <= i[1] < len(v[1]):
                    return ("c", v[1][i[1]])
            return UNK
        elif isinstance(e, ast.Call) and not e.keywords:
            if isinstance(e.func, ast.Name) and e.func.id == "isinstance" and len(e.args) == 2 and "isinstance" not in env:
                v = self.ev(e.args[0], env)
                ts = e.args[1].elts if isinstance(e.args[1], ast.Tuple) else [e.args[1]]
                if all(isinstance(t, ast.Name) and t.id in _TYPES and t.id not in env for t in ts):
                    if v in (IN, CUT) or v[0] in ("b", "h"):
                        return ("c", any(t.id == "bytes" for t in ts))
                    if v[0] == "i":
                        return ("c", any(t.id == "int" for t in ts))
                    if v[0] == "c":
                        return ("c", isinstance(v[1], tuple(_TYPES[t.id] for t in ts)))
                return UNK
            if isinstance(e.func, ast.Name) and e.func.id == "next" and len(e.args) in (1, 2) and "next" not in env \
                    and isinstance(e.args[0], ast.GeneratorExp) and self.idx.resolve_name(self.module, "next") is None:
                return self.first_of(e.args[0], e.args[1] if len(e.args) == 2 else None, env)
            if isinstance(e.func, ast.Name) and e.func.id == "bool" and len(e.args) == 1 and "bool" not in env:
                t = _truth(self.ev(e.args[0], env))
                return UNK if t is None else ("c", t)
            if isinstance(e.func, ast.Attribute) and e.func.attr == "startswith" and len(e.args) == 1:
                v, p = self.ev(e.func.value, env), self.ev(e.args[0], env)
                if v == IN and p[0] == "c" and base is not None:
                    ps = p[1] if isinstance(p[1], tuple) else (p[1],)
                    if not all(isinstance(x, bytes) for x in ps):
                        return UNK
                    if any(base.startswith(x) for x in ps):
                        return ("c", True)
                    if any(x.startswith(base) for x in ps):
                        return UNK          # depends on the bytes after BASE_STRING
                    return ("c", False)
                if v[0] == "h" and p[0] == "c":
                    ps = p[1] if isinstance(p[1], tuple) else (p[1],)
                    if not all(isinstance(x, bytes) for x in ps):
                        return UNK
                    t = _h_startswith(v[1], ps)
                    return UNK if t is None else ("c", t)
                return UNK
            if isinstance(e.func, ast.Attribute) and e.func.attr in ("strip", "lstrip", "rstrip") and len(e.args) <= 1:
                v = self.ev(e.func.value, env)
                c = self.ev(e.args[0], env) if e.args else ("c", None)
                if v[0] == "h" and c[0] == "c" and (c[1] is None or isinstance(c[1], bytes)):
                    return _h_strip(v, WS if c[1] is None else c[1], e.func.attr != "rstrip", e.func.attr != "lstrip")
                return UNK
            if isinstance(e.func, ast.Attribute) and e.func.attr in ("removeprefix", "removesuffix") and len(e.args) == 1:
                v, p = self.ev(e.func.value, env), self.ev(e.args[0], env)
                front = e.func.attr == "removeprefix"
                if p[0] != "c" or not isinstance(p[1], bytes):
                    return UNK
                if v == CUT:
                    return CUT
                if v == IN:
                    if not p[1]:
                        return IN
                    if not front or base is None:
                        return UNK                  # whether the end loses bytes depends on the unknown tail
                    if base.startswith(p[1]):
                        return CUT
                    return UNK if p[1].startswith(base) else IN
                if v[0] == "h":
                    return _h_removeprefix(v, p[1]) if front else _h_removesuffix(v, p[1])
                if v[0] == "c" and isinstance(v[1], bytes):
                    return ("c", v[1].removeprefix(p[1]) if front else v[1].removesuffix(p[1]))
                return UNK
            if isinstance(e.func, ast.Name) and e.func.id == "len" and len(e.args) == 1 and "len" not in env:
                v = self.ev(e.args[0], env)
                if v[0] == "c" and isinstance(v[1], (bytes, str, tuple)):
                    return ("c", len(v[1]))
                if v[0] == "b" and v[1] is not None:
                    return ("c", v[1])
                return UNK
            n = _hash_len(self.idx, F, self.module, e)
            if n is not None:
                return ("b", n, "hash")
            hv = self.call_helper(e, env)
            return UNK if hv is None else hv
        elif isinstance(e, ast.Call):
            hv = self.call_helper(e, env)
            if hv is not None:
                return hv
        if any(isinstance(x, ast.Name) and x.id in env for x in ast.walk(e)):
            return UNK
        try:
            return _const(F.fold(e, self.module, None))
        except Exception:
            return UNK

    def module_value(self, name, _depth=[0]):
        """A module-level name the folder may not know: a class (-> ("k", qual)) or a table assigned once at module
        level whose rows hold classes next to constants (evaluated element by element).  None: neither."""
        try:
            tgt = self.idx.resolve_name(self.module, name)
        except Exception:
            tgt = None
        if isinstance(tgt, ClassInfo):
            return ("k", tgt.qual)
        exprs = self.module.assigns.get(name)
        if not exprs or len(exprs) != 1 or not isinstance(exprs[0], (ast.Tuple, ast.List)) or _depth[0] > 3:
            return None
        try:
            return _const(self.F.fold(exprs[0], self.module, None))
        except Exception:
            pass
        if any(isinstance(x, ast.Starred) for x in exprs[0].elts):
            return None
        _depth[0] += 1
        try:
            vs = tuple(self.ev(x, {}) for x in exprs[0].elts)
        finally:
            _depth[0] -= 1
        return ("t", vs)

    def bind(self, t, v, env):
        """Assignment of the abstract value v to the target t (names, attribute paths, tuples of them: element by
        element when the value's length is known and fits)."""
        if isinstance(t, (ast.Tuple, ast.List)) and not any(isinstance(x, ast.Starred) for x in t.elts):
            parts = _elements(v) if (v[0] == "t" or (v[0] == "c" and isinstance(v[1], tuple))) else None
            if parts is not None and len(parts) == len(t.elts):
                for x, pv in zip(t.elts, parts):
                    self.bind(x, pv, env)
                return
        elif isinstance(t, ast.Name):
            env[t.id] = v
            return
        elif isinstance(t, ast.Attribute) and attr_path(t):
            env[attr_path(t)] = v
            return
        for x in ast.walk(t):
            if isinstance(x, ast.Name) and isinstance(x.ctx, ast.Store):
                env[x.id] = UNK
            elif isinstance(x, ast.Attribute) and isinstance(x.ctx, ast.Store) and attr_path(x):
                env[attr_path(x)] = UNK

    def first_of(self, gen, default, env):
        """next((elt for target in TABLE if cond..), default): the first row of a constant table whose conditions are
        certainly true, provided the conditions of all rows before it are certainly false."""
        if len(gen.generators) != 1 or gen.generators[0].is_async:
            return UNK
        g = gen.generators[0]
        els = _elements(self.ev(g.iter, env))
        if els is None:
            return UNK
        for el in els:
            env2 = dict(env)
            self.bind(g.target, el, env2)
            ok = True
            for c in g.ifs:
                t = _truth(self.ev(c, env2))
                if t is None:
                    return UNK
                if not t:
                    ok = False
                    break
            if ok:
                return self.ev(gen.elt, env2)
        return self.ev(default, env) if default is not None else UNK      # no default: StopIteration

    def defaults(self):
        a = self.fn.node.args
        pos = list(a.posonlyargs) + list(a.args)
        out = {}
        for p, d in zip(pos[len(pos) - len(a.defaults):], a.defaults):
            out[p.arg] = self.ev(d, {})
        for p, d in zip(a.kwonlyargs, a.kw_defaults):
            if d is not None:
                out[p.arg] = self.ev(d, {})
        for p in pos + list(a.kwonlyargs):
            out.setdefault(p.arg, UNK)
        if a.vararg:
            out[a.vararg.arg] = ("c", ())
        if a.kwarg:
            out[a.kwarg.arg] = UNK
        return out

    def run(self, given):
        """-> ([(node, kind 'return'|'raise'|'end', env at that point, exact, witness)], number of product states).
        `exact`: every test on the path had a known outcome, so the scenario certainly takes it."""
        fn, cfg = self.fn, self.fn.cfg()
        env0 = self.defaults()
        env0.update(given)
        nested_loops = _loops_in_loops(fn)

        def freeze(env, exact):
            return (tuple(sorted(env.items())), exact)

        def transfer(n, lab, nxt, state):
            if lab == "exc":
                return None
            items, exact = state
            env = dict(items)
            if n.kind == "test":
                t = _truth(self.ev(n.ast, env))
                if isinstance(lab, tuple) and lab[0] in ("T", "F"):
                    if t is None:
                        return freeze(env, False)
                    return state if (lab[0] == "T") == t else None
                return freeze(env, False)
            if n.kind == "stmt" and isinstance(n.ast, (ast.Return, ast.Raise)):
                return None
            if n.kind == "iter" and lab in ("iter", "done") and id(n.ast) not in nested_loops and (
                    isinstance(n.ast.target, ast.Name) or (
                        isinstance(n.ast.target, (ast.Tuple, ast.List))
                        and all(isinstance(x, ast.Name) for x in n.ast.target.elts))):
                # a loop over a short constant table (the alleged prefixes, the rows of a dispatch table) is unrolled:
                # the position is part of the state, the target(s) take the elements in turn
                if isinstance(n.ast.iter, (ast.Tuple, ast.List)) and not any(isinstance(x, ast.Starred) for x in n.ast.iter.elts):
                    it = ("t", tuple(self.ev(x, env) for x in n.ast.iter.elts))
                else:
                    it = self.ev(n.ast.iter, env)
                els = _elements(it)
                if els is not None and isinstance(n.ast.target, (ast.Tuple, ast.List)):
                    w = len(n.ast.target.elts)
                    if not all((x[0] == "t" or (x[0] == "c" and isinstance(x[1], tuple))) and len(x[1]) == w for x in els):
                        els = None                   # a row that does not unpack into the targets: not modelled
                if els is not None:
                    key = "!it%d" % n.id
                    i = env.get(key, ("c", 0))[1]
                    if lab == "iter":
                        if i >= len(els):
                            return None
                        self.bind(n.ast.target, els[i], env)
                        env[key] = ("c", i + 1)
                    else:
                        if i < len(els):
                            return None
                        env.pop(key, None)
                    return freeze(env, exact)
            if n.kind == "stmt" and isinstance(n.ast, ast.Assign):
                v = self.ev(n.ast.value, env)
                for t in n.ast.targets:
                    self.bind(t, v, env)
                return freeze(env, exact)
            if n.kind == "stmt" and isinstance(n.ast, ast.AnnAssign) and isinstance(n.ast.target, ast.Name) \
                    and n.ast.value is not None:
                env[n.ast.target.id] = self.ev(n.ast.value, env)
                return freeze(env, exact)
            for st in node_stores(n):
                if not st.endswith("[]"):
                    env[st] = UNK
            if n.kind == "stmt" and isinstance(n.ast, ast.Expr) and isinstance(n.ast.value, ast.Call):
                c = n.ast.value
                if any(isinstance(x, ast.Name) and x.id in ("self", "super") for x in ast.walk(c)):
                    env[OPAQUE] = ("c", True)        # may set attributes of self behind our back
            if n.kind == "iter":
                exact = False
            return freeze(env, exact)

        init = freeze(env0, True)
        visited, parent = explore(cfg, init, transfer)
        out = []
        for (i, st) in sorted(visited, key=lambda x: (x[0], not x[1][1], repr(x[1][0]))):
            n = cfg.nodes[i]
            if n.kind == "stmt" and isinstance(n.ast, ast.Return):
                kind = "return"
            elif (n.kind == "stmt" and isinstance(n.ast, ast.Raise)) or n.kind == "raise":
                kind = "raise"                        # explicit raise, or the false edge of an assertion
            elif n.kind == "exit":
                kind = "end"
            else:
                continue
            w = witness(cfg, parent, (i, st))
            at = n
            if n.ast is None:
                prev = [x for (x, _l) in w.path if x.ast is not None]
                at = prev[-1] if prev else n
            out.append((at, kind, dict(st[0]), st[1], w))
        return out, len(visited)


def _parser_class(idx, ai, fn, e, env):
    """Qualified name of the class whose init_from_string is called on `e`: a class named at module level, or a local
    (the class column of a dispatch-table row) whose abstract value is a class."""
    v = ai.ev(e, env)
    if v[0] == "k":
        return v[1]
    if isinstance(e, ast.Name) and e.id in env:
        return None
    k = idx.resolve_expr(fn.module, e) if isinstance(e, (ast.Name, ast.Attribute)) else None
    return k.qual if isinstance(k, ClassInfo) else None


def _abstract_run(idx, F, fn, cfg, base):
    """from_string on (first parameter = IN, other parameters = their defaults) ->
    ([(node, what, argument value, exact, witness)], states)."""
    ai = _AI(idx, F, fn, base)
    ps = first_positional_params(fn)
    if not ps:
        raise AnchorVanished("%s has no positional parameter" % fn.qual)
    outs, nstates = ai.run({ps[0]: IN})
    out = []
    for (n, kind, env, exact, w) in outs:
        what, argv = (kind,), UNK
        if kind == "return":
            v = n.ast.value
            what = ("other",)
            if isinstance(v, ast.Call) and call_tail(v) == "init_from_string" and isinstance(v.func, ast.Attribute):
                k = _parser_class(idx, ai, fn, v.func.value, env)
                if k is not None:
                    what = ("parse", k)
                    a0 = arg(v, 0, "uri")
                    argv = ai.ev(a0, env) if a0 is not None else UNK
        out.append((n, what, argv, exact, w))
    return out, nstates


def _scenario_run(idx, F, fn, head, extra=None):
    """from_string on a bytes input whose leading bytes are `head` (nothing known about the rest), the other
    parameters at their defaults / `extra` -> ([(node, what, argument value, exact, witness)], states) with
    what = ('parse', class qual) | ('unknown',) | ('other',) | ('raise',) | ('end',)."""
    ai = _AI(idx, F, fn, None)
    ps = first_positional_params(fn)
    if not ps:
        raise AnchorVanished("%s has no positional parameter" % fn.qual)
    given = {ps[0]: ("h", head, 0, True)}
    given.update(extra or {})
    outs, nstates = ai.run(given)
    nstates += ai.helper_states
    out = []
    for (n, kind, env, exact, w) in outs:
        what, argv = (kind,), UNK
        if kind == "return":
            v = n.ast.value
            what = ("other",)
            if isinstance(v, ast.Call) and call_tail(v) == "init_from_string" and isinstance(v.func, ast.Attribute):
                k = _parser_class(idx, ai, fn, v.func.value, env)
                if k is not None:
                    what = ("parse", k)
                    a0 = arg(v, 0, "uri")
                    argv = ai.ev(a0, env) if a0 is not None else UNK
            elif isinstance(v, ast.Call):
                k = idx.resolve_expr(fn.module, v.func)
                if isinstance(k, ClassInfo) and k.name == "UnknownURI":
                    what = ("unknown",)
                    init = k.lookup("__init__")
                    pn = init.params[1] if init is not None and len(init.params) > 1 else "uri"
                    a0 = arg(v, 0, pn)
                    argv = ai.ev(a0, env) if a0 is not None else UNK
        out.append((n, what, argv, exact, w))
    return out, nstates


def _certain(outcomes):
    """The one outcome the scenario certainly has (every test on its path was decided), or None."""
    ex = [o for o in outcomes if o[3]]
    return ex[0] if len(ex) == 1 and len(outcomes) == 1 else None


def _alleged_prefixes(idx, F):
    m = idx.module(URI_MOD)
    names = sorted(n for n in m.assigns if n.startswith("ALLEGED_") and n.endswith("_PREFIX"))
    out = []
    for n in names:
        try:
            v = F.fold(ast.Name(id=n, ctx=ast.Load()), m, None)
        except NotConstant as e:
            raise AnalysisError("cannot fold allmydata.uri.%s: %s" % (n, e))
        if not isinstance(v, bytes) or not v:
            raise AnalysisError("allmydata.uri.%s is not a non-empty bytes constant" % n)
        out.append((n, v))
    if len(out) < 2:
        raise AnchorVanished("expected the two ALLEGED_*_PREFIX constants in allmydata.uri, found %s" % [n for n, _v in out])
    return out


def _outcome_text(fn, o):
    n = o[0]
    if n.ast is None:
        return "the end of the function"
    t = "`%s`" % src(fn, n.ast)[:70]
    if o[1] in (("raise",), "raise") and not isinstance(n.ast, ast.Raise):
        t = "an assertion that fails at " + t
    return t


def _feeding_constants(idx, module, cls, expr, out=None, depth=0):
    """The named module-level constants an expression is built from, transitively through class attributes, module
    assignments and imports: {(module name, name): (Module, [defining exprs], [package functions their exprs call])}."""
    out = {} if out is None else out
    if depth > 12:
        return out

    def const(mod, name):
        key = (mod.name, name)
        if key in out:
            return
        exprs = mod.assigns.get(name)
        if exprs:
            helpers = []
            for d in exprs:
                for x in ast.walk(d):
                    if isinstance(x, ast.Call):
                        t = idx.resolve_expr(mod, x.func) if isinstance(x.func, (ast.Name, ast.Attribute)) else None
                        if isinstance(t, FuncInfo) and t not in helpers:
                            helpers.append(t)
            out[key] = (mod, exprs, helpers)
            for d in exprs:
                _feeding_constants(idx, mod, None, d, out, depth + 1)
        elif name in mod.imports:
            m2name, _, nm = mod.imports[name].rpartition(".")
            m2 = idx.modules.get(m2name)
            if m2 is not None:
                const(m2, nm)

    skip = set()
    for x in ast.walk(expr):
        if id(x) in skip:
            continue
        if isinstance(x, ast.Attribute):
            tgt = idx.resolve_expr(module, x.value) if isinstance(x.value, (ast.Name, ast.Attribute)) else None
            if isinstance(tgt, Module):
                const(tgt, x.attr)
                skip.update(id(y) for y in ast.walk(x.value))
            elif isinstance(tgt, ClassInfo):
                for c in tgt.mro():
                    if x.attr in c.attrs:
                        _feeding_constants(idx, c.module, c, c.attrs[x.attr][-1], out, depth + 1)
                        break
                skip.update(id(y) for y in ast.walk(x.value))
        elif isinstance(x, ast.Name):
            if cls is not None and cls.lookup_attr(x.id) is not None:
                for c in cls.mro():
                    if x.id in c.attrs:
                        if c.attrs[x.id][-1] is not expr:
                            _feeding_constants(idx, c.module, c, c.attrs[x.id][-1], out, depth + 1)
                        break
            else:
                const(module, x.id)
    return out


# --------------------------------------------------------------------- run
def run(ctx: Context):
    idx = ctx.idx
    F = get_folder(idx)
    m, files, dirs = _uri_classes(idx)
    file_quals = {c.qual for c in files}

    # application of the patterns, shared by rules 1-3
    app = {}
    for ci in files:
        fn = ci.lookup("init_from_string")
        if fn is None:
            raise AnchorVanished("%s has no init_from_string" % ci.qual)
        uses = [u for u in _application(fn) if u[1] == "STRING_RE"]
        if not uses:
            raise AnchorVanished("%s.init_from_string does not apply cls.STRING_RE" % ci.qual)
        app[ci.qual] = (fn, uses)

    def analysed(ci, attr):
        v = _fold_re(F, ci, attr)
        return v, _toks(regex_ast(v))

    # -- 1. start anchor, whole parameter ----------------------------------
    with ctx.rule("C15.1", "R11", "every STRING_RE / BASE_STRING_RE is anchored at position 0 and applied with "
                  "search/match/fullmatch to the unmodified parameter", expected=28) as r:
        def start_ok(ci, attr, method):
            v, toks = analysed(ci, attr)
            r.site(ci.qual + "." + attr)
            r.count(len(toks))
            r.require(not v[2], ci.qual, _cls_loc(ci, attr), "%s.%s is compiled with flags %s (anchors change meaning)" % (
                ci.name, attr, v[2]))
            anchored = bool(toks) and toks[0][0] == "at" and toks[0][1] in ("AT_BEGINNING", "AT_BEGINNING_STRING")
            r.require(anchored or method in ("match", "fullmatch"), ci.qual, _cls_loc(ci, attr),
                      "%s.%s does not start with '^' and is applied with %s(): a cap preceded by arbitrary bytes is "
                      "accepted as this kind" % (ci.name, attr, method))
        for ci in files:
            fn, uses = app[ci.qual]
            start_ok(ci, "STRING_RE", uses[0][2])
            param = first_positional_params(fn)[0]
            r.site(fn, None, "application")
            for (n, attr, method, call, nf) in uses:
                ok = len(call.args) == 1 and not call.keywords and isinstance(call.args[0], ast.Name) and call.args[0].id == param
                r.require(ok, ci.qual, fn.loc(n.ast), "%s.init_from_string applies STRING_RE as %s, not to the whole "
                          "parameter %s from position 0" % (ci.name, nf, param))
        dfn = idx.func("uri:_DirectoryBaseURI.init_from_string")
        duses = [u for u in _application(dfn) if u[1] == "BASE_STRING_RE"]
        if not duses:
            raise AnchorVanished("_DirectoryBaseURI.init_from_string does not apply cls.BASE_STRING_RE")
        r.site(dfn, None, "application")
        dparam = first_positional_params(dfn)[0]
        for (n, attr, method, call, nf) in duses:
            ok = len(call.args) == 1 and not call.keywords and isinstance(call.args[0], ast.Name) and call.args[0].id == dparam
            r.require(ok, dfn, dfn.loc(n.ast), "BASE_STRING_RE applied as %s, not to the whole parameter" % nf)
        for ci in dirs:
            start_ok(ci, "BASE_STRING_RE", duses[0][2])

    # -- 2 / 3. end anchor --------------------------------------------------
    ends = {}
    for ci in files:
        v, toks = analysed(ci, "STRING_RE")
        methods = {u[2] for u in app[ci.qual][1]}
        ends[ci.qual] = (_end_kinds(toks), methods == {"fullmatch"})
    with ctx.rule("C15.2", "R11", "every STRING_RE is end-anchored (the MDMF kinds may instead end in ':' + extension)",
                  expected=9) as r:
        for ci in files:
            ks, full = ends[ci.qual]
            r.site(ci.qual + ".STRING_RE", None, "ends=%s" % sorted(ks))
            if full:
                continue
            base = _fold_bytes(F, ci, "BASE_STRING")
            allowed = {"$", "Z"} | ({":"} if base.startswith(b"URI:MDMF") else set())
            bad = ks - allowed
            r.require(not bad, ci.qual, _cls_loc(ci, "STRING_RE"),
                      "%s.STRING_RE has no end anchor (a match may end %s): trailing bytes after a valid cap are accepted "
                      "and silently dropped by to_string()" % (ci.name, "/".join(sorted(bad)) if bad else ""))
    with ctx.rule("C15.3", "R11", "the end anchor of every STRING_RE is end-of-string (\\Z or fullmatch), not '$'",
                  expected=9) as r:
        for ci in files:
            ks, full = ends[ci.qual]
            r.site(ci.qual + ".STRING_RE", None, "ends=%s%s" % (sorted(ks), " fullmatch" if full else ""))
            r.require(full or "$" not in ks, ci.qual, _cls_loc(ci, "STRING_RE"),
                      "%s.STRING_RE ends with '$', which also matches before a trailing newline: cap+b'\\n' is accepted "
                      "as this kind (also through its directory wrapper) and re-serialises without the newline" % ci.name)

    # -- 13. the final-character classes the cap patterns are built from (run before 4, which decides the positions,
    #        so that a wrong class is first reported at the helper / constant that produces it) ----
    with ctx.rule("C15.13", "R11", "every named one-character class of base32 characters that a cap class's STRING_RE is "
                  "built from (util.base32's BASE32CHAR*, through whatever helper computes them) is, as a set, the "
                  "alphabet characters whose N low bits are zero for one N in 0..4 - the only classes that can stand at "
                  "the end of a canonical base32 group; any other set admits a final character with stray low bits "
                  "(decoded with the bits dropped, re-encoded differently) or refuses one that b2a produces",
                  expected=5) as r:
        canon = {n: frozenset(ALPHABET[i] for i in range(32) if i % (1 << n) == 0) for n in range(5)}
        consts = {}
        for ci in files:
            for key, val in _feeding_constants(idx, ci.module, ci, ci.attrs["STRING_RE"][-1]).items():
                consts.setdefault(key, val)
        r.count(len(consts))
        for (mname, name), (mod, exprs, helpers) in sorted(consts.items()):
            try:
                v = F.name(name, mod, None)
            except NotConstant as e:
                raise AnalysisError("cannot fold %s.%s: %s" % (mname, name, e))
            if not isinstance(v, bytes):
                continue
            try:
                toks = _toks(regex_ast(v))
            except Exception:
                continue                           # a fragment that is not a pattern by itself, e.g. b'(%s{25}%s)' pieces
            if len(toks) != 1 or toks[0][0] != "set" or (toks[0][2], toks[0][3]) != (1, 1):
                continue
            cs = toks[0][1]
            if len(cs) < 2 or not cs <= ALPHA:
                continue                           # not a class of base32 characters (digits of NUMBER, ...)
            r.site("%s:%s" % (mname, name), None, "".join(sorted(cs, key=ALPHABET.index)))
            if cs in canon.values():
                continue
            best = min(range(5), key=lambda n: (len(cs ^ canon[n]), n))
            extra = "".join(sorted(cs - canon[best], key=ALPHABET.index))
            missing = "".join(sorted(canon[best] - cs, key=ALPHABET.index))
            what = []
            if extra:
                what.append("it admits %s, whose 5-bit values have some of the %d low bits set" % (
                    "/".join(repr(c) for c in extra[:8]), best))
            if missing:
                what.append("it lacks %s" % "/".join(repr(c) for c in missing[:8]))
            msg = ("%s.%s = %r%s is not the set of base32 characters whose N low bits are zero for any N (closest: N=%d; %s): "
                   "as the final character of a base32 group in the cap patterns it accepts strings that a2b decodes with the "
                   "stray bits dropped and to_string() re-encodes differently, or refuses canonical ones" % (
                       mname, name, v, (" (computed by %s)" % ", ".join(short(h) for h in helpers)) if helpers else "",
                       best, "; ".join(what)))
            loc = "%s:%s" % (mod.relpath, getattr(exprs[-1], "lineno", 1))
            if len(helpers) == 1:
                r.violation(helpers[0], helpers[0].loc(), msg)
            else:
                r.violation("%s:%s" % (mname, name), loc, msg)

    # -- 4 / 5. groups <-> template <-> codecs ------------------------------
    numeric = []
    parsed = {}         # class qual -> (__init__, to_string, {ctor parameter: abstract value the parser passes})
    written = {}        # class qual -> {stored field path written by to_string: ctor parameter}
    with ctx.rule("C15.4", "R5", "regex groups, decoders, constructor parameters, stored fields, encoders and the "
                  "to_string template agree position by position; base32 groups are canonical with the field's byte length",
                  expected=27) as r:
        for ci in files:
            r.site(ci.qual)
            loc = _cls_loc(ci, "STRING_RE")
            v, toks = analysed(ci, "STRING_RE")
            base = _fold_bytes(F, ci, "BASE_STRING").decode("latin-1")
            shape = _shape(toks)
            if shape is None:
                r.violation(ci.qual, loc, "%s.STRING_RE is not a sequence of literals and capturing groups" % ci.name)
                continue
            groups = [p for p in shape if p[0] == "group"]
            r.count(len(shape))
            # template
            ts = ci.lookup("to_string")
            if ts is None:
                raise AnchorVanished("%s.to_string" % ci.qual)
            tnorm = FlowNorm(ts)
            trets = _returns(ts)
            if not trets:
                raise AnchorVanished("%s.to_string has no return" % ci.qual)
            init = ci.lookup("__init__")
            if init is None:
                raise AnchorVanished("%s.__init__" % ci.qual)
            r.site(ts, None, "template")
            r.site(init, None, "stored fields")
            iparams = first_positional_params(init)
            idefs = def_exprs(init)
            # parser side: group index -> (decoder, ctor parameter)
            fn, uses = app[ci.qual]
            fnorm = FlowNorm(fn)
            by_group = {}
            parse_ok = True
            for n in _returns(fn):
                s, e = _nf_ast(fnorm, n, n.ast.value)
                if not (isinstance(e, ast.Call) and isinstance(e.func, ast.Name) and e.func.id == "cls"):
                    r.violation(ci.qual, fn.loc(n.ast), "%s.init_from_string returns %s, not cls(...)" % (ci.name, s[:80]))
                    parse_ok = False
                    continue
                pairs = [(iparams[i] if i < len(iparams) else None, a) for i, a in enumerate(e.args)] + \
                        [(k.arg, k.value) for k in e.keywords]
                seen = {}
                for (pname, a) in pairs:
                    dec, g = None, None
                    if isinstance(a, ast.Call) and len(a.args) == 1 and not a.keywords:
                        dec = _codec(idx, fn.module, a.func)
                        a = a.args[0]
                    if isinstance(a, ast.Call) and isinstance(a.func, ast.Attribute) and a.func.attr == "group" \
                            and len(a.args) == 1 and isinstance(a.args[0], ast.Constant) and isinstance(a.args[0].value, int) \
                            and norm_plain(a.func.value) in {u[4] for u in uses}:
                        g = a.args[0].value
                    if g is None or dec is None or pname is None:
                        r.violation(ci.qual, fn.loc(n.ast), "%s.init_from_string: constructor argument %s is not "
                                    "decoder(mo.group(i))" % (ci.name, pname))
                        parse_ok = False
                        continue
                    seen[g] = (dec, pname)
                if by_group and seen != by_group:
                    r.violation(ci.qual, fn.loc(n.ast), "%s.init_from_string: returns disagree on the group mapping" % ci.name)
                by_group = by_group or seen
            if parse_ok:
                pv = {}
                for g in groups:
                    dec, pname = by_group.get(g[1], (None, None))
                    kind = _classify(g[2])
                    if dec == "a2b" and kind[0] in ("b32", "b32any"):
                        pv[pname] = ("b", kind[1] if kind[0] == "b32" else None, pname)
                    elif dec == "int" and kind[0] == "num":
                        pv[pname] = ("i", pname)
                parsed[ci.qual] = (init, ts, pv)
            for n in trets:
                s, e = _nf_ast(tnorm, n, n.ast.value)
                lead = None
                if isinstance(e, ast.BinOp) and isinstance(e.op, ast.Add) and isinstance(e.right, ast.BinOp) \
                        and isinstance(e.right.op, ast.Mod):
                    lead, e = e.left, e.right            # PREFIX + (template % fields)
                if not (isinstance(e, ast.BinOp) and isinstance(e.op, ast.Mod)):
                    r.violation(ci.qual, ts.loc(n.ast), "%s.to_string does not return template %% fields: %s" % (ci.name, s[:80]))
                    continue
                try:
                    tpl = F.fold(e.left, ci.module, ci)
                    if lead is not None:
                        tpl = F.fold(lead, ci.module, ci).replace(b"%", b"%%") + tpl
                except (NotConstant, AttributeError, TypeError) as ex:
                    raise AnalysisError("cannot fold the template of %s.to_string: %s" % (ci.qual, ex))
                if not isinstance(tpl, bytes):
                    r.violation(ci.qual, ts.loc(n.ast), "%s.to_string template is not bytes" % ci.name)
                    continue
                ptoks = percent_tokens(tpl)
                targs = list(e.right.elts) if isinstance(e.right, ast.Tuple) else [e.right]
                convs = [t for t in ptoks if t[0] == "conv"]
                # literal skeleton
                sk_t = [(t[0], t[1]) if t[0] == "lit" else ("fld",) for t in ptoks]
                sk_r = [(p[0], p[1]) if p[0] == "lit" else ("fld",) for p in shape]
                if sk_t != sk_r:
                    r.violation(ci.qual, loc, "%s: STRING_RE and the to_string template disagree on the literal pieces / "
                                "number of fields (regex %s, template %s)" % (
                                    ci.name, "".join(x[1] if x[0] == "lit" else "()" for x in sk_r),
                                    "".join(x[1] if x[0] == "lit" else "%" for x in sk_t)))
                    continue
                r.require(bool(ptoks) and ptoks[0][0] == "lit" and ptoks[0][1] == base, ci.qual, ts.loc(n.ast),
                          "%s.to_string does not start with BASE_STRING %r" % (ci.name, base))
                if len(targs) != len(convs):
                    r.violation(ci.qual, ts.loc(n.ast), "%s.to_string: %d conversions but %d arguments" % (
                        ci.name, len(convs), len(targs)))
                    continue
                if not parse_ok:
                    continue
                r.require(sorted(by_group) == [g[1] for g in groups], ci.qual, fn.loc(), "%s.init_from_string uses groups "
                          "%s; STRING_RE has field groups %s" % (ci.name, sorted(by_group), [g[1] for g in groups]))
                for j, (g, conv, a) in enumerate(zip(groups, convs, targs)):
                    gi = g[1]
                    kind = _classify(g[2])
                    dec, pname = by_group.get(gi, (None, None))
                    if dec is None:
                        continue
                    what = "%s field %d (group %d, parameter %s)" % (ci.name, j + 1, gi, pname)
                    # encoder side
                    enc, fld = None, None
                    if conv[1] == "d":
                        enc, fld = "int", attr_path(a)
                    elif conv[1] == "s" and isinstance(a, ast.Call) and len(a.args) == 1 and not a.keywords:
                        enc, fld = _codec(idx, ts.module, a.func), attr_path(a.args[0])
                    if enc is None or not fld or not fld.startswith("self."):
                        r.violation(ci.qual, ts.loc(n.ast), "%s: to_string argument %s is not an encoder of a stored field" % (
                            what, norm_plain(a)))
                        continue
                    r.require((dec, enc) in {("a2b", "b2a"), ("int", "int")}, ci.qual, ts.loc(n.ast),
                              "%s: parsed with %s but written with %s" % (what, dec, "%d" if enc == "int" else enc))
                    # the stored field is the constructor parameter the group was decoded into
                    written.setdefault(ci.qual, {})[fld] = pname
                    vals = idefs.get(fld, [])
                    ok = bool(vals) and all(isinstance(x, ast.Name) and x.id == pname for x in vals)
                    r.require(ok, ci.qual, ts.loc(n.ast), "%s: to_string writes %s, which __init__ does not set to the "
                              "parameter %s unchanged" % (what, fld, pname))
                    # regex group kind
                    if dec == "int":
                        r.require(kind[0] == "num" and not kind[2], ci.qual, loc, "%s is read with int() but the group is "
                                  "not a non-empty run of digits" % what)
                        if kind[0] == "num":
                            numeric.append((ci, gi, kind, pname))
                    else:
                        if kind[0] == "b32":
                            want = FIELD_BYTES.get(pname)
                            r.require(kind[1] is not None, ci.qual, loc, "%s: the %d-character base32 group is not "
                                      "canonical (non-canonical tails decode and re-encode to a different string)" % (what, kind[2]))
                            if kind[1] is not None and want is not None:
                                r.require(kind[1] == want, ci.qual, loc, "%s: group encodes %d bytes, the field has %d" % (
                                    what, kind[1], want))
                            elif want is None:
                                raise AnalysisError("no byte length known for constructor parameter %s of %s" % (pname, ci.qual))
                        elif kind[0] == "b32any":
                            r.require(kind[1], ci.qual, loc, "%s: the any-length base32 group is not canonical / does not "
                                      "cover every byte length" % what)
                        else:
                            r.violation(ci.qual, loc, "%s is base32-decoded but the group is not a base32 field" % what)

    with ctx.rule("C15.5", "R11", "numeric groups admit no leading zeros (int() then %d must reproduce the digits)",
                  expected=2) as r:
        done = set()
        for (ci, gi, kind, pname) in numeric:
            if ci.qual not in done:
                done.add(ci.qual)
                r.site(ci.qual + ".STRING_RE")
        for ci in files:
            bad = sorted({pname for (c2, gi, kind, pname) in numeric if c2 is ci and kind[1]})
            if bad:
                r.violation(ci.qual, _cls_loc(ci, "STRING_RE"), "%s.STRING_RE accepts leading zeros in %s: e.g. ':03:' "
                            "parses and re-serialises as ':3:'" % (ci.name, ", ".join(bad)))

    # -- 6. from_string dispatch -------------------------------------------
    with ctx.rule("C15.6", "R3", "from_string: one startswith(BASE_STRING) test per cap class (all 18), none shadowed, "
                  "parser calls under the BadURIError handler, every other return is UnknownURI(original input)",
                  expected=18) as r:
        fn = idx.func("uri:from_string")
        cfg = fn.cfg()
        reach = cfg.reachable_nodes()
        all_classes = {c.qual: c for c in files + dirs}
        tests = []      # (node, receiver name, literal)
        for n in cfg.find(lambda n: n.kind == "test"):
            if n.id not in reach:
                continue
            c = n.ast
            if isinstance(c, ast.Call) and call_tail(c) == "startswith" and len(c.args) == 1 \
                    and isinstance(c.func.value, ast.Name):
                try:
                    lit = F.fold(c.args[0], fn.module, None)
                except NotConstant:
                    continue
                if isinstance(lit, bytes) and lit.startswith(b"URI:"):
                    tests.append((n, c.func.value.id, lit))
        rets = [n for n in cfg.find(is_return) if n.id in reach]
        # a dispatch written as data: `return <local>.init_from_string(..)`, the local being the class column of a row of
        # a constant table.  Which classes end there, and on what argument, is decided per class by abstract execution.
        stored = set()
        for x in ast.walk(fn.node):
            if isinstance(x, ast.Name) and isinstance(x.ctx, ast.Store):
                stored.add(x.id)
        table_rets = {n.id for n in rets if isinstance(n.ast.value, ast.Call) and call_tail(n.ast.value) == "init_from_string"
                      and isinstance(n.ast.value.func, ast.Attribute) and isinstance(n.ast.value.func.value, ast.Name)
                      and n.ast.value.func.value.id in stored}
        if not tests and not table_rets:
            raise AnchorVanished("no startswith(b'URI:..') dispatch tests and no table-driven dispatch in from_string")

        def only_after(target, gate_n, pol):
            def ge(n, lab):
                return n is gate_n and isinstance(lab, tuple) and lab[0] == pol
            return not find_path_avoiding(cfg, lambda x: x is target, gate_edge=ge)
        handled = set()
        exc_parents = {"BadURIError"} | {c.name for c in idx.cls("uri:BadURIError").mro()} | {"Exception", "BaseException"}

        def under_handler(n, k):
            hs = [cfg.nodes[d] for (d, lab) in cfg.succ[n.id] if lab == "exc" and cfg.nodes[d].kind == "except"]
            names = set()
            for h in hs:
                t = h.ast.type
                for x in ([t] if not isinstance(t, ast.Tuple) else t.elts) if t is not None else []:
                    names.add(attr_path(x).split(".")[-1] if attr_path(x) else "?")
                if t is None:
                    names.add("BaseException")
            r.require(bool(names & exc_parents), k.qual, fn.loc(n.ast), "%s.init_from_string is called outside the "
                      "BadURIError handler: a malformed %s string raises instead of becoming UnknownURI" % (k.name, k.name))

        if table_rets:
            # the rows (prefix, class) of the constant tables from_string iterates over
            rows = {}
            probe = _AI(idx, F, fn, None)
            for x in ast.walk(fn.node):
                it = x.iter if isinstance(x, (ast.For, ast.comprehension)) else None
                els = _elements(probe.ev(it, {})) if it is not None else None
                for row in els or []:
                    cols = _elements(row) if (row[0] == "t" or (row[0] == "c" and isinstance(row[1], tuple))) else None
                    for kq in [c[1] for c in cols or [] if c[0] == "k"]:
                        rows.setdefault(kq, []).append([c[1] for c in cols if c[0] == "c" and isinstance(c[1], bytes)])
            for q, k in sorted(all_classes.items()):
                base = _fold_bytes(F, k, "BASE_STRING")
                outcomes, nstates = _scenario_run(idx, F, fn, base)
                r.count(nstates)
                o = _certain(outcomes)
                if o is None:
                    if any(x[0].id in table_rets for x in outcomes):
                        raise AnalysisError("table-driven from_string: where %r.. ends is not decided by the leading bytes" % base)
                    continue
                (n, what, argv, _exact, w) = o
                if n.id not in table_rets:
                    continue                        # a kind dispatched by a literal test (below), or not at all
                if what != ("parse", q):
                    r.violation(q, fn.loc(n.ast), "from_string sends strings starting with %s.BASE_STRING %r to %s" % (
                        k.name, base, what[1] if what[0] == "parse" else "something that is not a cap class of this module"), w)
                    handled.add(q)
                    continue
                r.site(fn, n.ast, k.name)
                if q in handled:
                    r.violation(q, fn.loc(n.ast), "%s is dispatched twice" % k.name)
                handled.add(q)
                mine = rows.get(q)
                if not mine:
                    raise AnalysisError("table-driven from_string: no constant table row names %s" % k.name)
                if len(mine) > 1:
                    r.violation(q, fn.loc(n.ast), "%s is dispatched by %d table rows" % (k.name, len(mine)))
                for lits in mine:
                    r.require(lits == [base], q, fn.loc(n.ast), "from_string's table sends strings starting with %s to %s "
                              "whose BASE_STRING is %r" % ("/".join(repr(x) for x in lits) or "?", k.name, base))
                r.require(argv == ("h", base, 0, True), q, fn.loc(n.ast),
                          "from_string tests the input for %r but hands %s.init_from_string something else" % (base, k.name), w)
                under_handler(n, k)
        for n in rets:
            v = n.ast.value
            if n.id in table_rets:
                continue
            if isinstance(v, ast.Call) and call_tail(v) == "init_from_string":
                k = idx.resolve_expr(fn.module, v.func.value) if isinstance(v.func, ast.Attribute) else None
                if not isinstance(k, ClassInfo) or k.qual not in all_classes:
                    r.violation(fn, fn.loc(n.ast), "from_string returns %s: not a cap class of this module" % src(fn, v))
                    continue
                r.site(fn, n.ast, k.name)
                r.count(len(tests))
                base = _fold_bytes(F, k, "BASE_STRING")
                doms = [t for t in tests if only_after(n, t[0], "T")]
                if len(doms) != 1:
                    r.violation(k.qual, fn.loc(n.ast), "%s.init_from_string is reached under %d prefix tests (%s), expected "
                                "exactly one" % (k.name, len(doms), [t[2] for t in doms]))
                    continue
                (tn, recv, lit) = doms[0]
                r.require(lit == base, k.qual, fn.loc(tn.ast), "from_string sends strings starting with %r to %s whose "
                          "BASE_STRING is %r" % (lit, k.name, base))
                a0 = v.args[0] if len(v.args) == 1 and not v.keywords else None
                r.require(isinstance(a0, ast.Name) and a0.id == recv, k.qual, fn.loc(n.ast),
                          "from_string tests %s but parses %s" % (recv, src(fn, a0) if a0 is not None else "?"))
                if k.qual in handled:
                    r.violation(k.qual, fn.loc(n.ast), "%s is dispatched twice" % k.name)
                handled.add(k.qual)
                under_handler(n, k)
            elif isinstance(v, ast.Call) and call_tail(v) == "UnknownURI":
                a0 = arg(v, 0, "uri")
                ok = isinstance(a0, ast.Name) and a0.id in fn.params and not any(
                    isinstance(x, ast.Subscript) for d in def_exprs(fn).get(a0.id, []) for x in ast.walk(d))
                r.require(ok, fn, fn.loc(n.ast), "from_string returns %s: an unknown cap must keep the original string "
                          "(prefix included)" % src(fn, v))
            else:
                r.violation(fn, fn.loc(n.ast), "from_string returns %s, neither a parsed cap nor UnknownURI" % src(fn, v))
        for q, c in sorted(all_classes.items()):
            if q not in handled:
                r.violation(q, fn.loc(), "from_string has no branch for %s (%r): such caps become UnknownURI" % (
                    c.name, _fold_bytes(F, c, "BASE_STRING")))
        # shadowing: an earlier test whose literal is a prefix of a later one
        for (a, ra, la) in tests:
            for (b, rb, lb) in tests:
                if a is not b and lb.startswith(la) and only_after(b, a, "F"):
                    r.violation(fn, fn.loc(b.ast), "the test for %r is only reached when startswith(%r) failed: it can never "
                                "succeed" % (lb, la))
        # the handler and the fall-through end in UnknownURI (checked above: every return is one of the two forms)
        r.require(bool(cfg.find(lambda n: n.kind == "except")), fn, fn.loc(), "from_string has no exception handler")

    # -- 7. directory wrappers ---------------------------------------------
    with ctx.rule("C15.7", "R11/R5", "directory wrappers: BASE_STRING_RE is '^'+BASE_STRING, INNER_URI_CLASS is a file-cap "
                  "class, base strings are distinct regex-literal byte strings, init_from_string/to_string swap exactly "
                  "the two base strings", expected=11) as r:
        bases = {}
        for ci in files + dirs:
            b = _fold_bytes(F, ci, "BASE_STRING")
            if b in bases:
                r.violation(ci.qual, _cls_loc(ci, "BASE_STRING"), "%s and %s share BASE_STRING %r" % (ci.name, bases[b], b))
            bases[b] = ci.name
            # used as a regex by _DirectoryBaseURI.to_string and inside BASE_STRING_RE
            lits = regex_ast(b)
            plain = all(op == "LITERAL" for op, av in lits) and bytes(av for op, av in lits) == b
            r.require(plain, ci.qual, _cls_loc(ci, "BASE_STRING"), "%s.BASE_STRING %r contains regex metacharacters but is "
                      "used as a pattern" % (ci.name, b))
            r.require(b.endswith(b":"), ci.qual, _cls_loc(ci, "BASE_STRING"), "%s.BASE_STRING %r does not end with ':'" % (
                ci.name, b))
        dbase = idx.cls("uri:_DirectoryBaseURI")
        d_init = idx.func("uri:_DirectoryBaseURI.init_from_string")
        d_to = idx.func("uri:_DirectoryBaseURI.to_string")
        for ci in dirs:
            r.site(ci.qual)
            b = _fold_bytes(F, ci, "BASE_STRING")
            v, toks = analysed(ci, "BASE_STRING_RE")
            want = [("at", "AT_BEGINNING")] + [("set", frozenset(chr(c)), 1, 1) for c in b]
            alt = [("at", "AT_BEGINNING_STRING")] + want[1:]
            r.require(toks in (want, alt), ci.qual, _cls_loc(ci, "BASE_STRING_RE"),
                      "%s.BASE_STRING_RE is %r, not '^' + BASE_STRING %r" % (ci.name, v[1], b))
            ie = ci.lookup_attr("INNER_URI_CLASS")
            inner = idx.resolve_expr(ci.module, ie) if ie is not None else None
            r.require(isinstance(inner, ClassInfo) and inner.qual in file_quals, ci.qual, _cls_loc(ci, "INNER_URI_CLASS"),
                      "%s.INNER_URI_CLASS is not one of the file-cap classes" % ci.name)
            for meth, want_fn in (("init_from_string", d_init), ("to_string", d_to)):
                if ci.lookup(meth) is not want_fn:
                    raise AnalysisError("%s overrides %s: the wrapper rule does not cover it" % (ci.qual, meth))
            init = ci.lookup("__init__")
            ps = first_positional_params(init)
            vals = def_exprs(init).get("self._filenode_uri", [])
            direct = bool(vals) and all(isinstance(x, ast.Name) and x.id == ps[0] for x in vals)
            via = any(call_name(c) == "_DirectoryBaseURI.__init__" and len(c.args) == 2 and isinstance(c.args[1], ast.Name)
                      and c.args[1].id == ps[0] for c in calls_in_func(init, "__init__"))
            r.require(bool(ps) and (direct or via), ci.qual, init.loc(), "%s.__init__ does not keep its argument as "
                      "_filenode_uri" % ci.name)
        # init_from_string
        r.site(d_init)
        p = first_positional_params(d_init)[0]
        fnorm = FlowNorm(d_init)
        strips = _strip_forms(p, ["cls.BASE_STRING"], ["cls.BASE_STRING_RE.search(%s)" % p, "cls.BASE_STRING_RE.match(%s)" % p])
        rets = _returns(d_init)
        if not rets:
            raise AnchorVanished("_DirectoryBaseURI.init_from_string has no return")
        for n in rets:
            ok = False
            v = fnorm.resolve(n, n.ast.value)
            if isinstance(v, ast.Call) and isinstance(v.func, ast.Name) and v.func.id == "cls" and len(v.args) == 1 and not v.keywords:
                c = fnorm.resolve(n, v.args[0])
                if isinstance(c, ast.Call) and call_name(c) == "cls.INNER_URI_CLASS.init_from_string" and len(c.args) == 1 \
                        and not c.keywords:
                    ok = _concat(fnorm, n, c.args[0], "cls.INNER_URI_CLASS.BASE_STRING", strips)
            r.require(ok, d_init, d_init.loc(n.ast), "directory init_from_string builds %s; expected cls(INNER.init_from_string("
                      "INNER.BASE_STRING + input without the wrapper's BASE_STRING))" % fnorm.norm(n, n.ast.value))
        # to_string
        r.site(d_to)
        tnorm = FlowNorm(d_to)
        x = "self._filenode_uri.to_string()"
        strips = _strip_forms(x, ["self.INNER_URI_CLASS.BASE_STRING"],
                              ["re.match(self.INNER_URI_CLASS.BASE_STRING, %s)" % x])
        rets = _returns(d_to)
        if not rets:
            raise AnchorVanished("_DirectoryBaseURI.to_string has no return")
        for n in rets:
            r.require(_concat(tnorm, n, n.ast.value, "self.BASE_STRING", strips), d_to, d_to.loc(n.ast),
                      "directory to_string builds %s; expected the wrapper's BASE_STRING followed by the inner cap string "
                      "without the inner BASE_STRING" % tnorm.norm(n, n.ast.value))

    # -- 8. failed match -> BadURIError ------------------------------------
    with ctx.rule("C15.8", "R1", "init_from_string: group()/end() of the match object only after it tested true; the "
                  "false edge raises BadURIError (which from_string turns into UnknownURI)", expected=10) as r:
        fns = []
        for ci in files:
            f = ci.lookup("init_from_string")
            if f not in fns:
                fns.append(f)
        fns.append(idx.func("uri:_DirectoryBaseURI.init_from_string"))
        for fn in fns:
            r.site(fn)
            cfg = fn.cfg()
            fnorm = FlowNorm(fn)
            uses = {u[4] for u in _application(fn)}

            def truth(n, lab, _f=fnorm, _u=uses):
                f = _f.edge_fact(n, lab)
                return bool(f) and ((f[0] == "truth" and f[1] in _u) or (f[0] == "is not" and {f[1], f[2]} & _u and "None" in (f[1], f[2])))

            def falsy_edge(n, lab, _f=fnorm, _u=uses):
                f = _f.edge_fact(n, lab)
                return bool(f) and ((f[0] == "false" and f[1] in _u) or (f[0] == "is" and {f[1], f[2]} & _u and "None" in (f[1], f[2])))
            r.count(len(cfg.nodes))
            bad = find_path_avoiding(cfg, lambda n: n.kind == "exit", gate_edge=truth)
            for (n, w) in bad:
                r.violation(fn, fn.loc(), "%s can return without having tested the match object (path: %s)" % (
                    short(fn), w.brief()), w)
            found = False
            for n in cfg.find(lambda n: n.kind == "test"):
                for (d, lab) in cfg.succ[n.id]:
                    if falsy_edge(n, lab):
                        found = True
                        visited, parent = explore(cfg, 0, lambda a, b, c, s: 0 if b != "exc" or True else None, start=cfg.nodes[d])
                        kinds = {cfg.nodes[i].kind for (i, _s) in visited}
                        rs = [cfg.nodes[i] for (i, _s) in visited if is_raise(cfg.nodes[i])]
                        ok = "exit" not in kinds and rs and all(raises("BadURIError")(x) for x in rs)
                        r.require(ok, fn, fn.loc(n.ast), "%s: a string that does not match does not raise BadURIError" % short(fn))
            if not found:
                r.violation(fn, fn.loc(), "%s never tests the match object" % short(fn))

    # -- 9. the unprefixed cap of every kind reaches its own parser -------
    with ctx.rule("C15.9", "R3", "from_string called with only the cap string (options at their defaults) on a string "
                  "that starts with a class's BASE_STRING and carries no 'ro.'/'imm.' prefix ends in that class's "
                  "init_from_string applied to the unmodified input (abstract execution of the CFG per cap class)",
                  expected=18) as r:
        fn = idx.func("uri:from_string")
        cfg = fn.cfg()
        all_classes = {c.qual: c for c in files + dirs}
        for q, k in sorted(all_classes.items()):
            base = _fold_bytes(F, k, "BASE_STRING")
            r.site(fn, None, k.name)
            outcomes, nstates = _abstract_run(idx, F, fn, cfg, base)
            r.count(nstates)
            own = [o for o in outcomes if o[1] == ("parse", q)]
            if not own:
                others = sorted({_outcome_text(fn, o) for o in outcomes if o[3]})
                r.violation(q, fn.loc(), "from_string(%s cap, options at their defaults) cannot reach %s.init_from_string: "
                            "what %s.to_string() produces does not parse back as this kind%s" % (
                                k.name, k.name, k.name, (" (it ends in %s)" % "; ".join(others)) if others else ""))
                continue
            for (n, what, argv, exact, w) in outcomes:
                if what == ("parse", q):
                    r.require(argv not in (CUT, ) and argv[0] != "c", q, fn.loc(n.ast),
                              "from_string hands %s.init_from_string a modified copy of an unprefixed input" % k.name, w)
                elif exact:
                    r.violation(q, fn.loc(n.ast), "from_string(%s cap, options at their defaults) ends in %s, not in "
                                "%s.init_from_string" % (k.name, _outcome_text(fn, (n, what, argv, exact, w)), k.name), w)

    # -- 10. constructor and to_string accept what the parser produces -----
    with ctx.rule("C15.10", "R3", "abstract execution of each file-cap class's __init__ on the values its parser "
                  "decodes (bytes of the regex group's length, ints) and of to_string on the resulting object: neither "
                  "raises / fails an assertion, and every field to_string writes holds its constructor parameter",
                  expected=18) as r:
        for ci in files:
            if ci.qual not in parsed:
                r.site(ci.qual, None, "skipped: C15.4 could not pair the parser with the constructor")
                r.site(ci.qual, None, "skipped")
                continue
            init, ts, pv = parsed[ci.qual]
            if not init.params or not ts.params:
                raise AnchorVanished("%s.__init__ / to_string has no self parameter" % ci.qual)
            me = init.params[0]
            r.site(init, None, "values %s" % sorted((k, v[:2]) for k, v in pv.items()))
            outs, nstates = _AI(idx, F, init).run(dict(pv))
            r.count(nstates)
            ends = [o for o in outs if o[1] in ("end", "return")]
            for o in outs:
                if o[1] == "raise" and o[3]:
                    r.violation(ci.qual, init.loc(o[0].ast), "%s.__init__ ends in %s for the values %s.init_from_string "
                                "decodes from a matching string (%s): every such cap string is reported as unknown / "
                                "raises instead of parsing" % (
                                    ci.name, _outcome_text(init, o), ci.name,
                                    ", ".join("%s: %s" % (k, ("%s bytes" % v[1] if v[1] is not None else "bytes") if v[0] == "b" else "int")
                                              for k, v in sorted(pv.items()))), o[4])
            if not ends:
                if not any(o[1] == "raise" and o[3] for o in outs):
                    r.violation(ci.qual, init.loc(), "%s.__init__ cannot complete on the values its parser decodes" % ci.name)
                r.site(ts, None, "skipped: constructor does not complete")
                continue
            flds = written.get(ci.qual, {})
            for o in ends:
                env = o[2]
                if not o[3] or OPAQUE in env:
                    continue
                for fld, pname in sorted(flds.items()):
                    path = me + fld[len("self"):]
                    if pname not in pv:
                        continue
                    got = env.get(path)
                    if got is None:
                        r.violation(ci.qual, init.loc(), "%s.__init__ leaves %s unset on the path a parsed cap takes: "
                                    "to_string() of the parsed object cannot reproduce parameter %s" % (ci.name, fld, pname), o[4])
                    elif got != UNK and got != pv[pname]:
                        r.violation(ci.qual, init.loc(), "%s.__init__ stores something else than parameter %s in %s on the "
                                    "path a parsed cap takes" % (ci.name, pname, fld), o[4])
            # to_string on the constructed object (state of the exact end of __init__, else the declared values)
            exact_ends = [o for o in ends if o[3]]
            tself = ts.params[0]
            if exact_ends:
                state = {tself + k[len(me):]: v for k, v in exact_ends[0][2].items() if k.startswith(me + ".")}
            else:
                state = {tself + f[len("self"):]: pv[pn] for f, pn in flds.items() if pn in pv}
            r.site(ts, None, "fields %s" % sorted(state))
            outs, nstates = _AI(idx, F, ts).run(state)
            r.count(nstates)
            for o in outs:
                if o[1] == "raise" and o[3]:
                    r.violation(ci.qual, ts.loc(o[0].ast), "%s.to_string ends in %s for an object built from a parsed cap" % (
                        ci.name, _outcome_text(ts, o)), o[4])
            if not any(o[1] == "return" for o in outs):
                r.violation(ci.qual, ts.loc(), "%s.to_string cannot reach a return for an object built from a parsed cap" % ci.name)

    # -- 11 / 12. what from_string removes from the input before the dispatch ----
    fn = idx.func("uri:from_string")
    all_classes = {c.qual: c for c in files + dirs}
    prefixes = _alleged_prefixes(idx, F)
    contexts = [("", {})]
    if "deep_immutable" in fn.params:
        contexts.append((", deep_immutable=True", {"deep_immutable": ("c", True)}))

    def show(head):
        return "%r..." % head

    def scenario_rule(r, scen_of):
        """scen_of(class, BASE_STRING) -> [(head, extra, label, allowed)]; allowed(what, argv) -> None if the certain
        outcome is acceptable, else the text of what is wrong.  One violation per cap class; scenarios whose
        outcome is not certain (a test on the path is not decided by the known leading bytes) -> ANALYSIS-ERROR."""
        undecided = []
        for q, k in sorted(all_classes.items()):
            base = _fold_bytes(F, k, "BASE_STRING")
            r.site(fn, None, k.name)
            bad = []
            for (head, extra, label, allowed) in scen_of(k, base):
                outcomes, nstates = _scenario_run(idx, F, fn, head, extra)
                r.count(nstates)
                o = _certain(outcomes)
                if o is None or o[1] == ("other",):
                    undecided.append("from_string(%s%s)" % (show(head), label))
                    continue
                why = allowed(o[1], o[2])
                if why:
                    bad.append((head, label, why, o))
            if bad:
                (head, label, why, o) = bad[0]
                more = sorted({"%s%s" % (show(h), l) for (h, l, _w, _o) in bad[1:]})
                r.violation(q, fn.loc(o[0].ast) if o[0].ast is not None else fn.loc(),
                            "from_string(%s%s) %s%s" % (show(head), label, why,
                                                        ("; likewise %s" % ", ".join(more[:6])) if more else ""), o[4])
        if undecided and not r.violations:
            raise AnalysisError("the outcome of %d scenario(s) is not decided by the leading bytes, e.g. %s" % (
                len(undecided), undecided[0]))

    def names_of(what):
        return all_classes[what[1]].name if what[1] in all_classes else what[1]

    # -- 11. at most one alleged prefix is removed --------------------------
    with ctx.rule("C15.11", "R3", "from_string removes at most one alleged-constraint prefix: a string with two stacked "
                  "prefixes (every ordered pair of 'ro.'/'imm.') in front of a cap class's BASE_STRING, in either context, "
                  "certainly ends in UnknownURI(the unmodified input) - it is outside the grammar and no parser sees it "
                  "(abstract execution of the CFG on the known leading bytes, per cap class)", expected=18) as r:
        def stacked(k, base):
            def allowed(head):
                def f(what, argv):
                    if what[0] == "parse":
                        return ("is handed to %s.init_from_string (as input[%s:]): more than one alleged prefix is removed, so "
                                "a string outside the cap grammar is read as a %s cap and re-serialises without the "
                                "prefixes" % (names_of(what), argv[2] if argv[0] == "h" else "?", names_of(what)))
                    if what == ("unknown",):
                        return None if argv == ("h", head, 0, True) else (
                            "becomes an UnknownURI that does not hold the unmodified input")
                    return "%s instead of returning UnknownURI(input)" % (
                        "raises" if what == ("raise",) else "falls off the end of the function")
                return f
            out = []
            for (_n1, p1) in prefixes:
                for (_n2, p2) in prefixes:
                    for (label, extra) in contexts:
                        out.append((p1 + p2 + base, extra, label, allowed(p1 + p2 + base)))
            return out
        scenario_rule(r, stacked)

    # -- 12. nothing but one alleged prefix is removed ----------------------
    with ctx.rule("C15.12", "R3", "the string from_string hands to a kind parser is the input itself or the input minus "
                  "exactly one leading alleged prefix, neither end trimmed: BASE_STRING.. certainly ends in that class's "
                  "parser on the unmodified input; prefix+BASE_STRING.. in that parser on input[len(prefix):] or in "
                  "UnknownURI(input); white space before the BASE_STRING or between prefix and BASE_STRING certainly ends "
                  "in UnknownURI(input) (abstract execution of the CFG on the known leading bytes, per cap class)",
                  expected=18) as r:
        JUNK = (b" ", b"\n")

        def trimmed(k, base):
            def allowed(head, cut, may_parse):
                def f(what, argv):
                    if what[0] == "parse":
                        if not may_parse:
                            return ("is handed to %s.init_from_string: leading bytes that are not an alleged prefix are "
                                    "dropped, so the string is read as a %s cap and re-serialises differently" % (
                                        names_of(what), names_of(what)))
                        if what[1] != k.qual:
                            return "is handed to %s.init_from_string, not to %s" % (names_of(what), k.name)
                        if argv[0] != "h":
                            return None                 # value not tracked: nothing certain
                        if argv[2] != cut or argv[1] != base:
                            return ("hands %s.init_from_string input[%s:], not the input minus exactly its alleged prefix "
                                    "(input[%d:])" % (k.name, argv[2], cut))
                        if not argv[3]:
                            return ("hands %s.init_from_string a trimmed copy of the input: trailing bytes are dropped "
                                    "before the end-anchored pattern sees them, so cap+junk is read as this kind" % k.name)
                        return None
                    if what == ("unknown",):
                        if cut == 0 and may_parse:
                            return "becomes an UnknownURI although the string starts with %s.BASE_STRING" % k.name
                        return None if argv == ("h", head, 0, True) else (
                            "becomes an UnknownURI that does not hold the unmodified input")
                    return "%s instead of returning a cap or UnknownURI(input)" % (
                        "raises" if what == ("raise",) else "falls off the end of the function")
                return f
            out = [(base, {}, "", allowed(base, 0, True))]
            for (_n, p) in prefixes:
                out.append((p + base, {}, "", allowed(p + base, len(p), True)))
            for j in JUNK:
                out.append((j + base, {}, "", allowed(j + base, 0, False)))
                for (_n, p) in prefixes:
                    out.append((p + j + base, {}, "", allowed(p + j + base, 0, False)))
            return out
        scenario_rule(r, trimmed)

    # -- 14. a2b's own validator accepts what the patterns accept ----------
    with ctx.rule("C15.14", "R11", "the table that the validator asserted by base32.a2b indexes with (length mod 8, last "
                  "byte) is true for the last character of every base32 group of every STRING_RE at that group's "
                  "length(s): a string the pattern accepts - in particular what to_string() writes - is not refused by "
                  "a2b's precondition (an AssertionError that from_string does not turn into UnknownURI)", expected=11) as r:
        a2b = idx.func("util.base32:a2b")
        aps = first_positional_params(a2b)
        if not aps:
            raise AnchorVanished("base32.a2b has no parameter")
        acfg, anorm = a2b.cfg(), FlowNorm(a2b)
        areach = acfg.reachable_nodes()
        validators = []
        for n in acfg.find(lambda n: n.kind == "test"):
            c = n.ast
            if n.id in areach and isinstance(c, ast.Call) and not c.keywords and len(c.args) == 1 \
                    and anorm.norm(n, c.args[0]) == aps[0] \
                    and any(isinstance(lab, tuple) and lab[0] == "F" and acfg.nodes[d].kind == "raise" for (d, lab) in acfg.succ[n.id]):
                v = idx.resolve_expr(a2b.module, c.func) if isinstance(c.func, (ast.Name, ast.Attribute)) else None
                if isinstance(v, FuncInfo) and v not in validators:
                    validators.append(v)
        r.site(a2b, None, "asserts %s" % [short(v) for v in validators])
        tables = []          # (validator, table value, what computes it)
        for V in validators:
            vps = first_positional_params(V)
            if not vps:
                raise AnchorVanished("%s has no parameter" % V.qual)
            P = vps[0]
            vnorm = FlowNorm(V)
            lens = {norm_src("len(%s) %% 8" % x) for x in (P, "bytes(%s)" % P)}
            lasts = {norm_src("%s[-1]" % x) for x in (P, "bytes(%s)" % P)}
            found = []
            for n in _returns(V):
                if n.ast.value is None:
                    continue
                e = vnorm.resolve(n, n.ast.value)
                for c in (e.values if isinstance(e, ast.BoolOp) and isinstance(e.op, ast.And) else [e]):
                    c = vnorm.resolve(n, c)
                    row = vnorm.resolve(n, c.value) if isinstance(c, ast.Subscript) else None
                    if isinstance(row, ast.Subscript) and not isinstance(c.slice, ast.Slice) and not isinstance(row.slice, ast.Slice) \
                            and vnorm.norm(n, row.slice) in lens and vnorm.norm(n, c.slice) in lasts:
                        found.append((n, vnorm.resolve(n, row.value)))
            if not found:
                raise AnchorVanished("%s, asserted by base32.a2b, does not index a table by (len(%s) %% 8, %s[-1]): the rule "
                                     "cannot follow this validator" % (V.qual, P, P))
            for (n, T) in found:
                texpr, helper = T, None
                if isinstance(T, ast.Name) and T.id in V.params:
                    a = V.node.args
                    pos = list(a.posonlyargs) + list(a.args)
                    dflt = dict(zip([x.arg for x in pos[len(pos) - len(a.defaults):]], a.defaults))
                    dflt.update({k.arg: d for k, d in zip(a.kwonlyargs, a.kw_defaults) if d is not None})
                    if T.id not in dflt:
                        raise AnalysisError("%s: the table %s is a parameter without default" % (V.qual, T.id))
                    texpr = dflt[T.id]
                try:
                    tv = F.fold(texpr, V.module, None)
                except NotConstant as ex:
                    raise AnalysisError("cannot fold the table %s of %s: %s" % (src(V, T), V.qual, ex))
                if isinstance(texpr, ast.Name):
                    hs = _feeding_constants(idx, V.module, None, texpr).get((V.module.name, texpr.id), (None, [], []))[2]
                    helper = hs[0] if len(hs) == 1 else None
                r.site(V, n.ast, "table %s" % src(V, T))
                tables.append((V, src(V, T), tv, helper))
        for ci in files:
            v, toks = analysed(ci, "STRING_RE")
            shape = _shape(toks) or []
            need = []        # (group index, length mod 8, final-character class)
            for g in [p for p in shape if p[0] == "group"]:
                kind = _classify(g[2])
                if kind[0] == "b32":
                    pos = _positions(g[2])
                    need.append((g[1], len(pos) % 8, pos[-1]))
                elif kind[0] == "b32any":
                    for p in [_positions(g[2][0][3])] + [_positions(a) for a in g[2][1][1]]:
                        if p:
                            need.append((g[1], len(p) % 8, p[-1]))
            r.site(ci.qual + ".STRING_RE", None, "%d (group, length mod 8, final class) obligations" % len(need))
            r.count(len(need) * max(1, len(tables)))
            for (V, tname, tv, helper) in tables:
                bad = []
                for (gi, l, cs) in need:
                    for ch in sorted(cs or ()):
                        try:
                            ok = bool(tv[l][ord(ch)])
                        except Exception:
                            ok = False
                        if not ok:
                            bad.append((gi, l, ch))
                if bad:
                    gi, l, ch = bad[0]
                    msg = ("%s.STRING_RE group %d accepts %r as the last of n = %d (mod 8) base32 characters, but %s[%d][%d], "
                           "which base32.a2b asserts through %s, is false (%d such character/length pairs): a cap string of "
                           "this kind - one that to_string() can write - fails a2b's precondition with an AssertionError "
                           "instead of parsing" % (ci.name, gi, ch, l, tname, l, ord(ch), short(V), len(bad)))
                    if helper is not None:
                        r.violation(helper, helper.loc(), msg)
                    else:
                        r.violation(V, V.loc(), msg)

    # -- 15. the textual predicates recognise exactly one optional alleged prefix, like from_string ----
    with ctx.rule("C15.15", "R3", "the textual predicates of allmydata.uri agree with the grammar from_string reads, decided "
                  "on the known leading bytes of a bytes argument, per cap class: has_uri_prefix is certainly true for "
                  "BASE_STRING.. and for one alleged prefix + BASE_STRING.., is_literal_file_uri likewise for the literal "
                  "file cap's BASE_STRING only, and both are certainly false for two stacked alleged prefixes (every ordered "
                  "pair) and for white space in front of the BASE_STRING or between prefix and BASE_STRING - strings "
                  "from_string reports as unknown (abstract execution of the predicate, helpers followed)", expected=2) as r:
        lit_base = _fold_bytes(F, idx.cls("uri:LiteralFileURI"), "BASE_STRING")
        preds = [(idx.func("uri:has_uri_prefix"), None), (idx.func("uri:is_literal_file_uri"), lit_base)]
        for (pf, only) in preds:
            r.site(pf)
            pps = first_positional_params(pf)
            if not pps:
                raise AnchorVanished("%s has no positional parameter" % pf.qual)
            heads = {}
            for q, k in sorted(all_classes.items()):
                base = _fold_bytes(F, k, "BASE_STRING")
                inside = only is None or base == only
                heads.setdefault(base, inside)
                for (_n1, p1) in prefixes:
                    heads.setdefault(p1 + base, inside)
                    for (_n2, p2) in prefixes:
                        heads.setdefault(p1 + p2 + base, False)
                    for j in (b" ", b"\n"):
                        heads.setdefault(p1 + j + base, False)
                for j in (b" ", b"\n"):
                    heads.setdefault(j + base, False)
            bad, undecided = [], []
            for head, want in sorted(heads.items()):
                ai = _AI(idx, F, pf, None)
                outs, nstates = ai.run({pps[0]: ("h", head, 0, True)})
                r.count(nstates + ai.helper_states)
                got = None
                if len(outs) == 1 and outs[0][3] and outs[0][1] in ("return", "end"):
                    (n, kind, env, _x, w) = outs[0]
                    v = ("c", None) if kind == "end" or n.ast.value is None else ai.ev(n.ast.value, env)
                    got = _truth(v)
                if got is None:
                    undecided.append(head)
                elif got != want:
                    bad.append((head, want, outs[0]))
            if bad:
                (head, want, o) = bad[0]
                more = sorted({show(h) for (h, _w, _o) in bad[1:]})
                r.violation(pf, pf.loc(o[0].ast) if o[0].ast is not None else pf.loc(),
                            "%s(%s) is %s: %s%s" % (
                                pf.name, show(head), not want,
                                ("a string with more or other leading bytes than one alleged prefix is outside the cap grammar "
                                 "(from_string reports it as unknown) but is recognised here") if not want else
                                "a string the cap grammar admits is not recognised",
                                ("; likewise %s" % ", ".join(more[:6])) if more else ""), o[4])
            elif undecided:
                raise AnalysisError("the result of %s is not decided by the leading bytes in %d scenario(s), e.g. %s(%s)" % (
                    pf.qual, len(undecided), pf.name, show(undecided[0])))
