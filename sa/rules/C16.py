"""C16 Capabilities attenuate correctly.

Decided from the diminishing constructors of allmydata.uri, the is_readonly /
is_mutable constants cross-checked against the classes' own fields and
interfaces, the guards of uri.from_string, UnknownNode.__init__ and the
deep_immutable plumbing of the node maker (DESIGN.md section 5, C16)."""
from sa.h import *

EXPLANATION = (
    "Decided (structural, all 18 cap classes): (1) get_readonly()/get_verify_cap() return self only where the class "
    "already is read-only / a verifier, None only where there is nothing to verify, otherwise a read-only / verifier "
    "class whose constructor arguments are the same-named fields passed through unchanged (never writekey; never "
    "writekey/readkey/key for verifiers), directory wrappers pass exactly _filenode_uri.get_readonly()/get_verify_cap(); "
    "(2) the directory wrapper class returned wraps the class its inner cap derives to; (3) storage index and read key "
    "are derived by the same expressions along writeable -> read-only (same storage index along the chain); "
    "(4) is_readonly()/is_mutable() are constants consistent with the class's fields (writekey <=> writeable), its "
    "interfaces (IVerifierURI => read-only, immutable; IMutableFileURI <=> mutable), its INNER_URI_CLASS and "
    "wrap_dirnode_cap; (5) from_string, path by path with its locals known by what they hold (`not deep_immutable`, False, a copy "
    "of such a local - never by their names): a writeable kind is parsed only on paths that found a local holding "
    "`not deep_immutable` true and met neither the 'imm.' nor the 'ro.' prefix (a flag cleared to False there cuts the "
    "path), a mutable read-only kind only on such paths that did not meet 'imm.'; both prefixes are tested; (6) UnknownNode: rw_uri is stored only where deep_immutable is "
    "false, every ro_uri stored carries the prefix its context requires, strip_prefix_for_ro removes 'imm.' only in an "
    "immutable context; (7) deep_immutable reaches uri.from_string / UnknownNode from create_from_cap and the node "
    "cache key separates the two contexts; (8) UnknownNode.__init__, path by path: a cap the path found to carry 'ro.'/'imm.' "
    "is never stored in rw_uri, the same given cap never ends in both rw_uri and ro_uri, a non-empty rw_uri is never paired "
    "with a ro_uri found to be alleged-immutable; (9) every value from_string can return is produced by this call's "
    "guarded parse (directly or through helpers that receive deep_immutable unchanged - (5) is then decided inside the "
    "helper); a value kept across calls must be looked up and stored under a key that depends on deep_immutable; "
    "(10) from_string and its helpers, path by path: once a recognised kind was refused (its prefix test held and the flag was "
    "found false, with no other kind test in between) every return gives UnknownURI(.., error) with an error that is not "
    "None on that path - never None, never an error-less UnknownURI; (11) UnknownNode.__init__: a given cap, or a string "
    "made from it, is stored in ro_uri only on paths on which uri.from_string of that same cap was found either not to be an "
    "UnknownURI or to have a false get_error(); (12) the cap given in the write slot reaches ro_uri (as is or inside a longer "
    "string) only on paths that found the 'ro.' or 'imm.' prefix on it; (13) from_string and helpers: on every path from a successful "
    "'imm.'/'ro.' prefix test to the first kind test, the variable the kind tests examine was re-bound to the tested string "
    "minus exactly that prefix (constant-folded slice bound); "
    "(14) NodeMaker.create_from_cap: every key under which a node is looked up or remembered in a container that outlives "
    "the call (the node cache) is an injective function - the string itself, a copy, constant/context tag + string, a tuple "
    "with the string as a member - of exactly the string handed to uri.from_string, never a slice or a many-to-one string "
    "method image of it (a key that drops the alleged prefix lets 'ro.'+writecap return the cached writeable node of the "
    "bare cap), followed through all reaching definitions of the key; (15) the string create_from_cap hands to "
    "uri.from_string is one of the given caps itself and UnknownNode receives (writecap, readcap) themselves in their own "
    "slots, never a derived string; "
    "(16) from_string and helpers, path by path with every local known as a value (copies share it; made from another value by "
    "cutting its front - a slice [k:], k > 0, removeprefix - or in some other way): where an alleged prefix was found, a helper "
    "or recursive call whose result is returned - a second entry into the kind dispatch, which is given only deep_immutable and "
    "decides (5) from scratch - is handed the very string the prefix was found on, never the cut string or a value made from "
    "it (a percent-decoding / whitespace retry of the already-stripped string forgets 'ro.'/'imm.'); a retry by looping back "
    "inside the function is already (5): what was found stays found. "
    "(17) from_string executed abstractly (helpers in place, module-level tables folded - lists / dicts only when nothing in the "
    "module re-binds or mutates them -, `for` over a table unrolled with tuple targets, next()/any()/comprehensions over it "
    "evaluated, dict literals and lookups followed) on <no prefix | 'imm.' | 'ro.'> + <BASE_STRING of each of the 18 cap classes | "
    "no known kind> + anything, with deep_immutable False and True: the class accepted is writeable only with deep_immutable "
    "false and no alleged prefix, mutable only with deep_immutable false and no 'imm.' - no prefix branch or table row raises a "
    "permission the context has ruled out (can_be_mutable <= not deep_immutable, can_be_writeable <= not deep_immutable and no "
    "prefix), whatever the shape of the dispatch.  Where the class parsed is picked by value (a row of a table: `cls.init_from_string(s)`) "
    "the path-wise clauses (5), (9), (10), (13), (16) have no branch per class to attach to and are decided on the same scenarios "
    "instead: (5) as (17); (9)/(16) every outcome is a parse of a cap class or an UnknownURI, a value out of module-level state "
    "stops the analysis; (10) a gated kind the context does not allow comes back as UnknownURI with an error that is not None; "
    "(13) behind an alleged prefix the parser is given the input minus exactly that prefix and a refused kind is recognised.  An "
    "outcome that cannot be classified, or a violation on a path through a test the execution could not evaluate, is exit 2. "
    "Prefix tests are read path-wise in all of these: `X.startswith((P, Q))` is `P or Q` - one of them on its true edge "
    "(enough where some alleged prefix must have been found; both possible where a found prefix forbids something, until a "
    "later test of the same string tells them apart), neither on its false edge; 'imm.' and 'ro.' exclude each other. "
    "Undecided: hash functions behind the derivations (C17), behaviour of node classes built from the caps; value-level "
    "clauses: which error class a refusal carries and its text, that BadURIError of a malformed known kind is reported, that "
    "the dispatch prefix literal matches the class parsed (init_from_string's own STRING_RE rejects a mismatch), the exact "
    "slices taken in UnknownNode.__init__ / strip_prefix_for_ro when a prefix is exchanged or dropped, that opaque UnknownNodes (rw_uri = ro_uri = None) record an error, that "
    "DirectoryNode raises the recorded error, forward-compatibility behaviour of the x-tahoe-future-test caps, which nodes "
    "create_from_cap chooses to remember (only the key discipline is decided; a key built by a call of a package function, a method of the node maker or a "
    "nested function is followed into the callee - each of its returns must be one of the strings it was given, whole; a return "
    "that is a part / image of a given string is reported - any other call stops the analysis with exit 2 rather than being "
    "judged) and its blacklist handling; in (16) a string handed on that was made from the whole tested string by a call the "
    "analysis cannot see through (unquote(u)) stops the analysis with exit 2: whether it keeps the prefix is value-level.")
TECHNIQUE = "static analysis: def-use dependence of constructor arguments, constant tables cross-checked, CFG dominance / small abstract interpretation (copies of the given caps, prefix/truth facts per path) in from_string and UnknownNode.__init__, provenance of from_string's return values through reaching definitions and helper calls, path-wise monitors (refusal -> error set; prefix found -> prefix cut; parse error examined -> ro_uri stored), injectivity of the node-cache key in the parsed string over all reaching definitions and through the package functions that build it; value provenance (whole / cut / derived) of the string handed to every re-entry of the parse after a prefix was found; bounded abstract execution of from_string (helpers, folded module-level tables, unrolled table loops) over all <alleged prefix> x <cap kind> x <context> scenarios"

URI_MOD = "allmydata.uri"
SECRET_FOR_RO = {"writekey"}
SECRET_FOR_VERIFY = {"writekey", "readkey", "key"}


# ------------------------------------------------------------------ helpers
def _loc(ci, node=None):
    return "%s:%s" % (ci.module.relpath, getattr(node, "lineno", None) or ci.node.lineno)


def _classes(idx):
    m = idx.module(URI_MOD)
    files = [c for c in m.classes.values() if "STRING_RE" in c.attrs]
    dirs = [c for c in m.classes.values() if "BASE_STRING_RE" in c.attrs]
    if len(files) < 9 or len(dirs) < 9:
        raise AnchorVanished("expected 9 file-cap and 9 directory-cap classes in allmydata.uri, found %d/%d" % (
            len(files), len(dirs)))
    return m, files, dirs


def _implements(ci):
    out = set()
    for c in ci.mro():
        for d in c.node.decorator_list:
            if isinstance(d, ast.Call) and call_tail(d) == "implementer":
                for a in d.args:
                    p = attr_path(a)
                    if p:
                        out.add(p.split(".")[-1])
    return out


def _const_method(ci, name):
    """The single constant every return of ci.<name>() gives, as ('const', v); else ('other', text)."""
    fn = ci.lookup(name)
    if fn is None:
        raise AnchorVanished("%s has no %s()" % (ci.qual, name))
    vals = set()
    for n in fn.cfg().find(is_return):
        v = n.ast.value
        if isinstance(v, ast.Constant):
            vals.add(("const", v.value))
        else:
            vals.add(("other", src(fn, v) if v is not None else "None"))
    if not vals:
        vals.add(("other", "no return"))
    if len(vals) == 1:
        return fn, next(iter(vals))
    return fn, ("other", "several values")


def _inner(idx, ci):
    e = ci.lookup_attr("INNER_URI_CLASS")
    k = idx.resolve_expr(ci.module, e) if e is not None else None
    return k if isinstance(k, ClassInfo) else None


def _ctor_pairs(idx, k, call):
    """[(parameter name, argument expr)] of a constructor call of class k."""
    init = k.lookup("__init__")
    ps = first_positional_params(init) if init is not None else []
    out = [(ps[i] if i < len(ps) else None, a) for i, a in enumerate(call.args)]
    out += [(kw.arg, kw.value) for kw in call.keywords]
    return out


def _derive(idx, ci, meth):
    """What ci.<meth>() returns: list of (return node, fn, kind, payload) with kind in self/none/class/other."""
    fn = ci.lookup(meth)
    if fn is None:
        raise AnchorVanished("%s has no %s()" % (ci.qual, meth))
    fnorm = FlowNorm(fn)
    out = []
    for n in fn.cfg().find(is_return):
        v = n.ast.value
        v = fnorm.resolve(n, v) if v is not None else None
        if v is None or (isinstance(v, ast.Constant) and v.value is None):
            out.append((n, fn, "none", None))
        elif isinstance(v, ast.Name) and v.id == "self":
            out.append((n, fn, "self", None))
        elif isinstance(v, ast.Call):
            k = idx.resolve_expr(fn.module, v.func)
            if isinstance(k, ClassInfo):
                out.append((n, fn, "class", (k, v, fnorm)))
            else:
                out.append((n, fn, "other", src(fn, v)))
        else:
            out.append((n, fn, "other", src(fn, v)))
    if not out:
        raise AnchorVanished("%s.%s has no return" % (ci.qual, meth))
    return out


def _derived_class(idx, ci, meth):
    """The class of ci.<meth>()'s result when it is unambiguous (ci itself for `return self`), else None."""
    ks = set()
    for (n, fn, kind, pay) in _derive(idx, ci, meth):
        if kind == "self":
            ks.add(ci.qual)
        elif kind == "class":
            ks.add(pay[0].qual)
        else:
            ks.add(None)
    return next(iter(ks)) if len(ks) == 1 else None


_FLOWNORMS = {}


def _startswith_members(F, fn, c, n=None):
    """Folded members of the argument of `X.startswith(P)` / `X.startswith((P, Q, ..))` (a tuple argument is the
    disjunction of its members); a member that does not fold to a constant is None.  Not such a call -> None."""
    if not (isinstance(c, ast.Call) and call_tail(c) == "startswith" and len(c.args) == 1 and not c.keywords
            and isinstance(c.func, ast.Attribute)):
        return None
    def fold(m):
        try:
            return F.fold(m, fn.module, None)
        except NotConstant:
            return None
    a = c.args[0]
    if isinstance(a, ast.Name) and n is not None and fold(a) is None:
        hit = _FLOWNORMS.get(id(fn))
        if hit is None or hit[0] is not fn:
            hit = _FLOWNORMS[id(fn)] = (fn, FlowNorm(fn))
        a = hit[1].resolve(n, a)                        # a local bound to the tuple just before the test
    if isinstance(a, ast.Tuple):
        return [fold(m) for m in a.elts]
    v = fold(a)
    return list(v) if isinstance(v, tuple) else [v]     # a name bound to a constant tuple of prefixes


def _prefix_test(F, fn, n, prefixes):
    """For a test node `X.startswith(P)` or `X.startswith((P, Q, ..))` whose members are all in `prefixes`:
    (X, names of the members in prefixes) - on the true edge one of them was found, on the false edge none is
    there.  A test that mentions no alleged prefix -> None; alleged prefixes mixed with anything else cannot be
    interpreted (fail closed)."""
    c = n.ast
    if n.kind != "test":
        return None
    ms = _startswith_members(F, fn, c, n)
    if not ms or not isinstance(c.func.value, ast.Name):
        return None
    names = []
    for v in ms:
        hit = [nm for nm, pv in prefixes.items() if v is not None and v == pv]
        names.append(hit[0] if hit else None)
    if all(nm is None for nm in names):
        return None
    if any(nm is None for nm in names):
        raise AnalysisError("%s: %s tests an alleged prefix together with something else: cannot interpret" % (
            fn.qual, src(fn, c)))
    return (c.func.value.id, tuple(sorted(set(names))))


def _kind_members(F, fn, n, prefixes):
    """For a test node `x.startswith(<constant bytes>)` / `x.startswith((<bytes>, ..))` none of which is an alleged
    prefix (a kind test of the dispatch): the byte strings, else None."""
    c = n.ast
    if n.kind != "test":
        return None
    ms = _startswith_members(F, fn, c, n)
    if not ms or not all(isinstance(v, bytes) and v not in prefixes.values() for v in ms):
        return None
    return ms


# -- what a path knows about the alleged prefixes of one string ---------------------------------------------
# facts: frozenset of (subject, kind, polarity).  kind is a prefix name ('imm' / 'ro') or, for the true edge of a
# tuple test that is not resolved yet, a frozenset of names ("one of these is there").
def _pfx_learn(facts, subj, names, pol, disjoint=None):
    """The facts after the edge `subj.startswith(<names>)` is pol; None when that contradicts what is known.
    disjoint: {name: names that cannot be there as well} (prefix-free constants)."""
    disjoint = disjoint or {}
    facts = set(facts)
    todo = [(frozenset(names), True)] if pol else [(frozenset([nm]), False) for nm in names]
    while todo:
        ks, p = todo.pop()
        if p:
            rem = frozenset(nm for nm in ks if (subj, nm, False) not in facts)
            if not rem:
                return None
            if len(rem) == 1:
                nm = next(iter(rem))
                if (subj, nm, True) in facts:
                    continue
                facts.add((subj, nm, True))
                facts -= {f for f in facts if f[0] == subj and isinstance(f[1], frozenset) and nm in f[1]}
                todo.extend((frozenset([o]), False) for o in sorted(disjoint.get(nm, ())))
            elif not any((subj, nm, True) in facts for nm in rem):
                facts.add((subj, rem, True))
        else:
            (nm,) = ks
            if (subj, nm, True) in facts:
                return None
            if (subj, nm, False) in facts:
                continue
            facts.add((subj, nm, False))
            for f in [f for f in facts if f[0] == subj and isinstance(f[1], frozenset) and nm in f[1]]:
                facts.discard(f)
                todo.append((f[1] - {nm}, True))
    return frozenset(facts)


def _pfx_may(facts, subj, name):
    """The path does not exclude that `subj` carries the prefix `name` after some prefix test on it held."""
    return (subj, name, True) in facts or any(
        f[0] == subj and isinstance(f[1], frozenset) and name in f[1] for f in facts)


def _pfx_found(facts, subj, names):
    """The path found one of the prefixes `names` on `subj` (whichever)."""
    return any((subj, nm, True) in facts for nm in names) or any(
        f[0] == subj and isinstance(f[1], frozenset) and f[1] <= set(names) for f in facts)


def _pfx_key(facts):
    return sorted((str(s_), sorted(k_) if isinstance(k_, frozenset) else [k_], p_) for (s_, k_, p_) in facts)


def _paths_without_prefix(F, fn, cfg, target, subj, wanted, prefixes, disjoint):
    """[(target node, Witness)]: the feasible paths entry -> target on which the string in the local `subj` (any local
    when None) was not found to start with one of the prefixes `wanted`.  Path-wise: a tuple test counts when all its
    members are wanted or the unwanted ones were excluded by a false edge / by a prefix that cannot be there as well;
    re-binding the local forgets what was known about it."""
    def transfer(n, lab, nxt, st):
        if n.kind == "test" and isinstance(lab, tuple) and lab[0] in ("T", "F"):
            pt = _prefix_test(F, fn, n, prefixes)
            if pt is not None and subj in (None, pt[0]):
                st = _pfx_learn(st, pt[0], pt[1], lab[0] == "T", disjoint)
                if st is None:
                    return None
        if st:
            gone = node_stores(n)
            if any(f[0] in gone for f in st):
                st = frozenset(f for f in st if f[0] not in gone)
        return st
    visited, parent = explore(cfg, frozenset(), transfer)
    out = []
    for (nid, st) in sorted(visited, key=lambda x: (x[0], _pfx_key(x[1]))):
        n = cfg.nodes[nid]
        if target(n) and not any(_pfx_found(st, s_, wanted) for s_ in ({f[0] for f in st} if subj is None else {subj})):
            out.append((n, witness(cfg, parent, (nid, st))))
    return out


def _local_names(fn):
    """Names bound inside fn (parameters and plain-name stores), minus `global` declarations."""
    out = set(fn.params)
    for n in fn.cfg().nodes:
        out |= {x for x in node_stores(n) if "." not in x and not x.endswith("[]")}
    for x in func_own_nodes(fn):
        if isinstance(x, ast.Global):
            out -= set(x.names)
    return out


def _flag_value(vals, v, init_nf):
    """Abstract value of an expression bound to a local: 'init' (`not <context>`), 'F' (False), a copy of a known local, else None."""
    if isinstance(v, ast.Constant) and v.value is False:
        return "F"
    if isinstance(v, ast.Name):
        return vals.get(v.id)
    if isinstance(v, ast.NamedExpr):
        return _flag_value(vals, v.value, init_nf)
    try:
        return "init" if norm_plain(v) == init_nf else None
    except Exception:
        return None


def _flag_bind(vals, targets, value, init_nf, new):
    for t in targets:
        if isinstance(t, ast.Name):
            new[t.id] = _flag_value(vals, value, init_nf)
        elif isinstance(t, (ast.Tuple, ast.List)) and isinstance(value, (ast.Tuple, ast.List)) and len(t.elts) == len(value.elts):
            for tt, vv in zip(t.elts, value.elts):
                _flag_bind(vals, [tt], vv, init_nf, new)


def _flag_locals(fn, di):
    """The context flags of a parse function, by role: plain locals every definition of which is `not <context>`, a
    boolean constant or a copy of such a local, at least one of them `not <context>` or False."""
    init_nf = norm_src("not %s" % di)
    defs = {}
    for n in fn.cfg().nodes:
        st = {x for x in node_stores(n) if "." not in x and not x.endswith("[]")}
        if not st:
            continue
        got = {}
        if n.kind == "stmt" and isinstance(n.ast, (ast.Assign, ast.AnnAssign)) and n.ast.value is not None:
            tg = n.ast.targets if isinstance(n.ast, ast.Assign) else [n.ast.target]

            def bind(ts, v):
                for t in ts:
                    if isinstance(t, ast.Name):
                        got[t.id] = v
                    elif isinstance(t, (ast.Tuple, ast.List)) and isinstance(v, (ast.Tuple, ast.List)) and len(t.elts) == len(v.elts):
                        for tt, vv in zip(t.elts, v.elts):
                            bind([tt], vv)
            bind(tg, n.ast.value)
        for x in st:
            defs.setdefault(x, []).append(got.get(x))
    flags = set()
    for _round in range(len(defs) + 1):
        nxt = set()
        for x, vs in defs.items():
            kinds = []
            for v in vs:
                if v is None:
                    kinds.append(None)
                elif isinstance(v, ast.Constant) and isinstance(v.value, bool):
                    kinds.append("F" if v.value is False else "T")
                elif isinstance(v, ast.Name) and v.id in defs:
                    kinds.append("copy" if v.id in flags else None)
                else:
                    try:
                        kinds.append("init" if norm_plain(v) == init_nf else None)
                    except Exception:
                        kinds.append(None)
            if all(k is not None for k in kinds) and any(k in ("init", "F") for k in kinds) and x not in fn.params:
                nxt.add(x)
        if nxt == flags:
            break
        flags = nxt
    return flags



_CONTAINER_READS = {"get", "pop", "setdefault", "__getitem__"}


class _ParseWalk:
    """Where the values returned by uri.from_string come from.

    Starting at the entry point, every value a reachable `return` may give is followed back through local copies
    (all reaching definitions) and through calls of package-local helper functions that receive the context
    parameter unchanged.  The leaves are
      sites  - (fn, ctx param, node, K, call): K.init_from_string(..) / K(..) of a cap class, evaluated at `node`;
      benign - UnknownURI(..) / None;
      lost   - (fn, node, message): a value that is not a function of this call's context: read from a container
               that outlives the call under a key that does not depend on the context parameter, read from
               module-level state, or produced by a helper that is not given the context.
    Anything else cannot be classified and stops the analysis (exit 2)."""

    def __init__(self, idx, byq):
        self.idx, self.byq = idx, byq
        self.sites, self.lost, self.leaves = [], [], []
        self.reentries = []      # (fn, ctx param, node, call, callee, callee's ctx param): the kind dispatch is (re-)entered
        self.funcs = {}          # qual -> (fn, ctx param)
        self._done = set()
        self.by_value = None     # why the walk gave up: the class parsed is selected by value (table row), not by a branch

    def walk(self, fn, di):
        old = self.funcs.get(fn.qual)
        if old is not None:
            if old[1] != di:
                raise AnalysisError("%s is reached with two different context parameters" % fn.qual)
            return
        if di not in fn.params:
            raise AnchorVanished("%s has no %s parameter" % (fn.qual, di))
        self.funcs[fn.qual] = (fn, di)
        cfg = fn.cfg()
        reach = cfg.reachable_nodes()
        env = (fn, di, cfg, FlowNorm(fn), _local_names(fn))
        n_ret = 0
        for n in cfg.find(is_return):
            if n.id in reach:
                n_ret += 1
                self.value(env, n, n.ast.value, 0)
        if not n_ret:
            raise AnchorVanished("%s has no reachable return" % fn.qual)

    def _leaf(self, fn, n, what):
        self.leaves.append((fn, n, what))

    def _lose(self, fn, n, msg):
        self._leaf(fn, n, "lost")
        self.lost.append((fn, n, msg))

    def value(self, env, n, e, depth):
        (fn, di, cfg, fnorm, locs) = env
        key = (fn.qual, n.id, id(e))
        if key in self._done:
            return
        self._done.add(key)
        if depth > 8:
            raise AnalysisError("%s: definition chain of a returned value is too long" % fn.qual)
        if e is None or (isinstance(e, ast.Constant) and e.value is None):
            return self._leaf(fn, n, "None")
        if isinstance(e, ast.IfExp):
            self.value(env, n, e.body, depth + 1)
            return self.value(env, n, e.orelse, depth + 1)
        if isinstance(e, ast.BoolOp):
            for v in e.values:
                self.value(env, n, v, depth + 1)
            return
        if isinstance(e, ast.NamedExpr):
            return self.value(env, n, e.value, depth + 1)
        if isinstance(e, ast.Name):
            if e.id not in locs:
                return self._lose(fn, n, "%s returns the module-level value %s, which does not depend on this call's %s "
                                  "context" % (short(fn), e.id, di))
            defs = fnorm.rd.get(n.id, {}).get(e.id, frozenset())
            if not defs:
                raise AnalysisError("%s: no definition of %s reaches line %s" % (fn.qual, e.id, n.lineno))
            for d in sorted(defs):
                if d == C.PARAM_DEF:
                    raise AnalysisError("%s returns its own parameter %s" % (fn.qual, e.id))
                dn = cfg.nodes[d]
                dv = fnorm._def_value(dn, e.id)
                if dv is None:
                    for x in (own_nodes(dn.ast) if dn.ast is not None else []):
                        if isinstance(x, ast.NamedExpr) and isinstance(x.target, ast.Name) and x.target.id == e.id:
                            dv = x.value
                if dv is None:
                    raise AnalysisError("%s: cannot follow the definition of %s at line %s" % (fn.qual, e.id, dn.lineno))
                self.value(env, dn, dv, depth + 1)
            return
        if isinstance(e, ast.Subscript):
            path = attr_path(e.value)
            if path and path.split(".")[0] not in locs:
                return self.container(env, n, path, e.slice, e)
            raise AnalysisError("%s returns %s: cannot classify" % (fn.qual, src(fn, e)))
        if isinstance(e, ast.Call):
            return self.call(env, n, e, depth)
        raise AnalysisError("%s returns %s: cannot classify" % (fn.qual, src(fn, e)))

    def call(self, env, n, e, depth):
        (fn, di, cfg, fnorm, locs) = env
        idx = self.idx
        f = e.func
        if isinstance(f, ast.Attribute) and f.attr == "init_from_string":
            k = idx.resolve_expr(fn.module, f.value)
            if isinstance(k, ClassInfo) and k.qual in self.byq:
                self._leaf(fn, n, k.name)
                self.sites.append((fn, di, n, k, e))
                return
            if isinstance(k, ClassInfo) and k.name == "UnknownURI":
                return self._leaf(fn, n, "UnknownURI")
            if k is None and any(isinstance(x, ast.Name) and x.id in locs for x in ast.walk(f.value)):
                raise _ByValue("%s parses %s, a class picked by value" % (fn.qual, src(fn, e)))
            raise AnalysisError("%s: %s is not a cap class" % (fn.qual, src(fn, f.value)))
        tgt = idx.resolve_expr(fn.module, f)
        if isinstance(tgt, ClassInfo):
            if tgt.qual in self.byq:
                self._leaf(fn, n, tgt.name)
                self.sites.append((fn, di, n, tgt, e))
                return
            if tgt.name == "UnknownURI":
                return self._leaf(fn, n, "UnknownURI")
            raise AnalysisError("%s returns a %s: not a cap class" % (fn.qual, tgt.name))
        if isinstance(tgt, FuncInfo) and tgt.cls is None and not isinstance(tgt.node, ast.Lambda):
            ps = first_positional_params(tgt)
            bound = [(ps[i] if i < len(ps) else None, a) for i, a in enumerate(e.args) if not isinstance(a, ast.Starred)]
            bound += [(kw.arg, kw.value) for kw in e.keywords if kw.arg is not None]
            if any(isinstance(a, ast.Starred) for a in e.args) or any(kw.arg is None for kw in e.keywords):
                raise AnalysisError("%s calls %s with */** arguments: cannot follow the context" % (fn.qual, tgt.name))
            carries = [p for (p, a) in bound if p is not None and fnorm.norm(n, a) == di]
            if len(carries) == 1:
                self.reentries.append((fn, di, n, e, tgt, carries[0]))
                return self.walk(tgt, carries[0])
            if any(di in depends_on(fn, a) for (_p, a) in bound):
                raise AnalysisError("%s passes its %s context to %s only in a derived form: cannot follow" % (
                    fn.qual, di, tgt.name))
            return self._lose(fn, n, "%s returns %s, but the helper %s is not given this call's %s context" % (
                short(fn), src(fn, e), tgt.name, di))
        if isinstance(f, ast.Attribute) and f.attr in _CONTAINER_READS and e.args:
            path = attr_path(f.value)
            if path and path.split(".")[0] not in locs:
                return self.container(env, n, path, e.args[0], e)
        if tgt is None and isinstance(f, ast.Name) and f.id in locs:
            raise _ByValue("%s returns %s, the call of a class picked by value" % (fn.qual, src(fn, e)))
        raise AnalysisError("%s returns %s: cannot classify" % (fn.qual, src(fn, e)))

    def container(self, env, n, path, key, e):
        """A value remembered in a container that outlives the call (module / object state)."""
        (fn, di, cfg, fnorm, locs) = env
        if di not in depends_on(fn, key):
            return self._lose(fn, n, "%s returns %s: a cap remembered from an earlier call in %s and looked up by a key "
                              "(%s) that does not include this call's %s context" % (
                                  short(fn), src(fn, e), path, src(fn, key), di))
        # keyed by the context: every entry ever put in must be keyed and produced the same way
        n_st = 0
        for g in self.idx.funcs.values():
            if g.module is not fn.module:
                continue
            for x in func_own_nodes(g):
                hit = isinstance(x, ast.Subscript) and isinstance(x.ctx, (ast.Store, ast.Del)) and attr_path(x.value) == path
                upd = isinstance(x, ast.Call) and isinstance(x.func, ast.Attribute) and attr_path(x.func.value) == path \
                    and x.func.attr in ("update", "setdefault", "__setitem__")
                if (hit or upd) and g is not fn:
                    raise AnalysisError("%s is also written by %s: cannot follow" % (path, g.qual))
                if upd:
                    raise AnalysisError("%s.%s(..) in %s: cannot follow" % (path, x.func.attr, g.qual))
        for sn in cfg.nodes:
            a = sn.ast
            if sn.kind != "stmt" or not isinstance(a, ast.Assign):
                continue
            for t in a.targets:
                if isinstance(t, ast.Subscript) and attr_path(t.value) == path:
                    n_st += 1
                    if di not in depends_on(fn, t.slice):
                        self._lose(fn, sn, "%s remembers a parsed cap in %s under a key (%s) that does not include the %s "
                                   "context" % (short(fn), path, src(fn, t.slice), di))
                    else:
                        self.value(env, sn, a.value, 1)
        if not n_st:
            raise AnalysisError("%s reads %s but no store into it was found" % (fn.qual, path))
        self._leaf(fn, n, "memo[%s]" % di)


# what bytes/str methods return when they do not return the whole receiver: a part or a many-to-one image of it
_LOSSY_METHODS = {"strip", "lstrip", "rstrip", "removeprefix", "removesuffix", "replace", "lower", "upper", "casefold",
                  "swapcase", "title", "capitalize", "split", "rsplit", "splitlines", "partition", "rpartition", "translate",
                  "expandtabs"}
_KEYED_READS = {"get", "pop", "setdefault", "__getitem__", "__contains__"}
_KEYED_WRITES = {"setdefault", "__setitem__"}


class _CapFlow:
    """Where the given cap strings of NodeMaker.create_from_cap go (flow-sensitive, through reaching definitions).

    copies(n, e) - the parameters / None the value of `e` at node `n` may *be* (copies, `a or b`, `a if c else b`), plus
                   every defining expression that is something else (a derived value);
    vid(n, e)    - an identity of the value: equal identities = same value;
    inj(n, e)    - is `e` an injective function of a cap string: leaves (whole cap values it contains), lossy (parts /
                   many-to-one transformations of a cap it is made from), unknown (cannot classify)."""

    def __init__(self, fn, caps, idx=None, depth=0):
        self.fn, self.caps = fn, tuple(caps)
        self.idx, self.depth = idx, depth
        self.cfg = fn.cfg()
        self.fnorm = FlowNorm(fn)
        self.rd = self.fnorm.rd
        self.defs = def_exprs(fn)
        self.locals = _local_names(fn)

    # -- basics
    def dep(self, e):
        return bool(set(self.caps) & depends_on(self.fn, e, defs=self.defs))

    def _defs(self, n, name):
        """[(def node or None for the parameter value, defining expr or None)] of a local name at node n."""
        out = []
        for d in sorted(self.rd.get(n.id, {}).get(name, frozenset())):
            if d == C.PARAM_DEF:
                out.append((None, None))
            else:
                dn = self.cfg.nodes[d]
                out.append((dn, self.fnorm._def_value(dn, name)))
        return out

    def copies(self, n, e, seen=None):
        seen = set() if seen is None else seen
        srcs, derived = set(), []

        def merge(res):
            srcs.update(res[0])
            derived.extend(res[1])
        if isinstance(e, ast.Constant) and e.value is None:
            srcs.add("None")
        elif isinstance(e, ast.Name) and e.id in self.locals:
            ds = self._defs(n, e.id)
            if not ds:
                derived.append((n, e))
            for (dn, dv) in ds:
                if dn is None:
                    srcs.add(e.id)
                elif dv is None:
                    derived.append((dn, e))
                elif (dn.id, e.id) not in seen:
                    seen.add((dn.id, e.id))
                    merge(self.copies(dn, dv, seen))
        elif isinstance(e, ast.BoolOp):
            for v in e.values:
                merge(self.copies(n, v, seen))
        elif isinstance(e, ast.IfExp):
            merge(self.copies(n, e.body, seen))
            merge(self.copies(n, e.orelse, seen))
        elif isinstance(e, ast.NamedExpr):
            merge(self.copies(n, e.value, seen))
        else:
            derived.append((n, e))
        return srcs, derived

    def vid(self, n, e):
        if isinstance(e, ast.Name) and e.id in self.locals:
            ds = self._defs(n, e.id)
            if len(ds) == 1:
                (dn, dv) = ds[0]
                if dn is None:
                    return "p:" + e.id
                if dv is not None and not (isinstance(dv, ast.Name) and dv.id == e.id):
                    return self.vid(dn, dv)
            return "phi:%s:%s" % (e.id, sorted(self.rd.get(n.id, {}).get(e.id, ())))
        extra = []
        for x in own_nodes(e):
            if isinstance(x, ast.Name) and x.id in self.locals:
                ds = self.rd.get(n.id, {}).get(x.id, frozenset())
                if len(ds) != 1:
                    extra.append("%s:%s" % (x.id, sorted(ds)))
        return "e:%s|%s" % (self.fnorm.norm(n, e), ",".join(sorted(set(extra))))

    # -- sites
    def parse_args(self, idx):
        fs_fn = idx.func("uri:from_string")
        u = first_positional_params(fs_fn)[0]
        out = []
        for n in self.cfg.nodes:
            for c in calls_at(n, "from_string") if n.kind in ("stmt", "test") else []:
                if idx.resolve_expr(self.fn.module, c.func) not in (fs_fn, None):
                    continue
                a = arg(c, 0, u)
                if a is None:
                    raise AnalysisError("create_from_cap calls from_string without a cap argument")
                out.append((n, c, a))
        if not out:
            raise AnchorVanished("create_from_cap no longer parses the cap with uri.from_string")
        return out

    def container_uses(self):
        """[(node, container path, key expr, ast node, is_store)] for keyed accesses of containers living on self / module."""
        out = []
        for n in self.cfg.nodes:
            for e in node_exprs(n) if n.kind in ("stmt", "test", "iter", "with") else []:
                for x in own_nodes(e):
                    if isinstance(x, ast.Subscript):
                        p = attr_path(x.value)
                        if p and p.split(".")[0] not in self.locals - {"self"} and not isinstance(x.slice, ast.Slice):
                            out.append((n, p, x.slice, x, isinstance(x.ctx, (ast.Store, ast.Del))))
                    elif isinstance(x, ast.Call) and isinstance(x.func, ast.Attribute) and x.args \
                            and x.func.attr in (_KEYED_READS | _KEYED_WRITES):
                        p = attr_path(x.func.value)
                        if p and p.split(".")[0] not in self.locals - {"self"}:
                            out.append((n, p, x.args[0], x, x.func.attr in _KEYED_WRITES))
                    elif isinstance(x, ast.Compare) and len(x.ops) == 1 and isinstance(x.ops[0], (ast.In, ast.NotIn)):
                        p = attr_path(x.comparators[0])
                        if p and "." in p and p.split(".")[0] not in self.locals - {"self"}:
                            out.append((n, p, x.left, x, False))
        return out

    # -- injectivity of a key in the cap string
    def inj(self, n, e, seen=None, res=None):
        seen = set() if seen is None else seen
        res = {"leaves": [], "lossy": [], "unknown": [], "steps": 0} if res is None else res
        res["steps"] += 1
        if not self.dep(e):
            return res                                  # carries nothing of the cap: does not matter
        srcs, derived = self.copies(n, e)
        if not derived and srcs - {"None"}:
            res["leaves"].append((self.vid(n, e), n, e))     # one of the given strings, whole
            return res
        if isinstance(e, ast.Name):
            ds = self._defs(n, e.id)
            if not ds:
                res["unknown"].append((n, e))
            for (dn, dv) in ds:
                if dn is None:
                    res["leaves"].append(("p:" + e.id, n, e))
                elif dv is None:
                    res["unknown"].append((dn, e))
                elif (dn.id, e.id) not in seen:
                    seen.add((dn.id, e.id))
                    self.inj(dn, dv, seen, res)
            return res
        if isinstance(e, (ast.BoolOp, ast.IfExp)):
            for v in (e.values if isinstance(e, ast.BoolOp) else (e.body, e.orelse)):
                self.inj(n, v, seen, res)
            return res
        if isinstance(e, ast.NamedExpr):
            return self.inj(n, e.value, seen, res)
        if isinstance(e, (ast.Tuple, ast.List)):
            subs = []
            for el in e.elts:
                if isinstance(el, ast.Starred):
                    res["unknown"].append((n, el))
                elif self.dep(el):
                    subs.append(self.inj(n, el, set(seen)))
            clean = [s for s in subs if s["leaves"] and not s["lossy"] and not s["unknown"]]
            for s in (clean or subs):                   # one whole member makes the tuple injective
                for k in ("leaves", "lossy", "unknown"):
                    res[k].extend(s[k])
            res["steps"] += sum(s["steps"] for s in subs)
            return res
        if isinstance(e, ast.BinOp) and isinstance(e.op, ast.Add):
            ops = []

            def flat(x):
                if isinstance(x, ast.BinOp) and isinstance(x.op, ast.Add):
                    flat(x.left)
                    flat(x.right)
                else:
                    ops.append(x)
            flat(e)
            carrying = [o for o in ops if self.dep(o)]
            if len(carrying) == 1:
                return self.inj(n, carrying[0], seen, res)
            # several operands made from the cap: decided only when none of them is a whole cap (all are parts / images)
            subs = [self.inj(n, o, set(seen)) for o in carrying]
            res["steps"] += sum(s_["steps"] for s_ in subs)
            if all(s_["lossy"] and not s_["leaves"] and not s_["unknown"] for s_ in subs):
                for s_ in subs:
                    res["lossy"].extend(s_["lossy"])
            else:
                res["unknown"].append((n, e))
            return res
        if self._transforms(e):
            res["lossy"].append((n, e, "only a part of" if isinstance(e, ast.Subscript) else "a many-to-one image of"))
            return res
        if isinstance(e, ast.Call) and self._through_call(n, e, seen, res):
            return res
        res["unknown"].append((n, e))
        return res

    # -- a key made by a function of the package: what that function returns, in terms of the strings it is given
    def _callee(self, e):
        """The package function / method of the same class a call runs, with its parameters (self dropped); else None."""
        f = e.func
        tgt = None
        if isinstance(f, ast.Name):
            g = self.fn
            while g is not None and tgt is None:
                tgt = g.nested.get(f.id)
                g = g.parent
        if tgt is None and isinstance(f, ast.Attribute) and isinstance(f.value, ast.Name) and f.value.id in ("self", "cls"):
            g = self.fn
            while g is not None and g.cls is None:
                g = g.parent
            tgt = g.cls.lookup(f.attr) if g is not None else None
        if tgt is None and self.idx is not None:
            try:
                tgt = self.idx.resolve_expr(self.fn.module, f)
            except Exception:
                tgt = None
        if not isinstance(tgt, FuncInfo) or isinstance(tgt.node, ast.Lambda):
            return None
        return tgt

    def _through_call(self, n, e, seen, res):
        """`e` is a call of a function of the package that is handed (something made from) the cap: the call is an
        injective function of the cap iff every value the callee may return is one of the strings it was given, whole
        (then: what the caller passed there); a return that is a part / many-to-one image of a given string makes the key
        lossy - the callee can drop an alleged prefix.  False when the call cannot be followed."""
        tgt = self._callee(e)
        if tgt is None or self.depth >= 3:
            return False
        if any(isinstance(a, ast.Starred) for a in e.args) or any(kw.arg is None for kw in e.keywords):
            return False
        a_ = tgt.node.args
        if a_.vararg or a_.kwarg:
            return False
        ps = first_positional_params(tgt)
        bound = {}
        for i, a in enumerate(e.args):
            if i >= len(ps):
                return False
            bound[ps[i]] = a
        for kw in e.keywords:
            if kw.arg not in tgt.params or kw.arg in bound:
                return False
            bound[kw.arg] = kw.value
        if isinstance(e.func, ast.Attribute) and self.dep(e.func.value) and not (
                isinstance(e.func.value, ast.Name) and e.func.value.id in ("self", "cls")):
            return False                                # a method of something made from the cap: not followed
        carrying = [p_ for p_, a in bound.items() if self.dep(a)]
        if not carrying:
            return False
        sub = _CapFlow(tgt, carrying, self.idx, self.depth + 1)
        reach = sub.cfg.reachable_nodes()
        rets = [rn for rn in sub.cfg.find(is_return) if rn.id in reach and rn.ast.value is not None]
        if not rets:
            return False
        whole, lossy, unknown, steps = set(), [], [], 0
        for rn in rets:
            sr = sub.inj(rn, rn.ast.value)
            steps += sr["steps"]
            lossy += [(rn, x, why) for (_dn, x, why) in sr["lossy"]]
            unknown += sr["unknown"]
            for (v, _dn, x) in sr["leaves"]:
                if not v.startswith("p:") or v[2:] not in bound:
                    unknown.append((rn, x))
                else:
                    whole.add(v[2:])
        res["steps"] += steps
        if lossy:
            (rn, x, why) = lossy[0]
            res["lossy"].append((n, e, "(through %s, which may return %s - %s the string it is given) %s" % (
                tgt.name, src(tgt, x), why, why)))
            return True
        if unknown:
            return False
        for p_ in sorted(whole):
            self.inj(n, bound[p_], seen, res)
        return True

    def _transforms(self, e):
        """A slice / item / lossy string method applied to a value that carries the cap."""
        if isinstance(e, ast.Subscript):
            return self.dep(e.value)
        if isinstance(e, ast.Call) and isinstance(e.func, ast.Attribute) and e.func.attr in _LOSSY_METHODS:
            return self.dep(e.func.value)
        return False


# ------------------------------------------------------------------ what from_string returns, scenario by scenario
class _ByValue(AnalysisError):
    """The kind dispatch picks the class to parse by *value* (a row of a table, a dict entry), not by a branch per
    class: the path-wise monitors have no branch to attach to; the parse is decided by abstract execution instead."""


_SUNK = ("?",)
_S_TYPES = {"bytes": bytes, "str": str, "int": int, "bool": bool, "tuple": tuple}
_S_MUTATORS = {"append", "extend", "insert", "remove", "pop", "popitem", "clear", "update", "setdefault", "add", "discard",
               "sort", "reverse", "__setitem__", "__delitem__"}


def _s_const(v):
    try:
        hash(v)
    except TypeError:
        return _SUNK
    return ("c", v)


def _s_truth(v):
    """True / False / None (not known) of an abstract value."""
    if v[0] == "c":
        return bool(v[1])
    if v[0] == "h":
        return True if v[1] else None
    if v[0] in ("t", "d"):
        return bool(v[1])
    return None


def _s_elements(v):
    """The members of an abstract iterable in order (None: not known)."""
    if v[0] == "c" and isinstance(v[1], tuple):
        return [_s_const(x) for x in v[1]]
    if v[0] == "t":
        return list(v[1])
    if v[0] == "d":
        return [_s_const(k) for (k, _x) in v[1]]
    return None


def _s_tuple(vals):
    vals = tuple(vals)
    if all(x[0] == "c" for x in vals):
        return ("c", tuple(x[1] for x in vals))
    return ("t", vals)


class _Sem:
    """Bounded abstract execution of the parse on ONE input whose leading bytes are known.

    Values: ('c', constant) - classes and functions of the package are the constants ('K', qual) / ('F', qual);
    ('h', head) - a byte string with these leading bytes, nothing known about the rest; ('t', members) / ('d', items) -
    a tuple / dict with abstract members; ('m', name) - module-level state that functions of the module mutate, or a
    value read out of it; ('o', 'parse', class qual, argument) - what K.init_from_string(arg) / K(..)
    of a cap class gives; ('o', 'unknown', error) - UnknownURI(.., error); ('o', 'new', qual) - an instance of another
    class; ('?',) - not known.  Module-level tables are folded (a list / dict only when nothing in the module can
    mutate or re-bind it); calls of plain package functions are executed in place (bounded depth); `for` over a known
    table is unrolled, with tuple targets; comprehensions / any / all / next over known tables are evaluated.
    'exc' edges are not followed (the scenarios are well-formed inputs).  A test whose truth is not known is followed
    both ways and the outcome is marked inexact."""

    MAX_DEPTH = 4

    def __init__(self, idx, F, byq):
        self.idx, self.F, self.byq = idx, F, byq
        self.states = 0
        self._mut, self._glob, self._k, self._f = {}, {}, {}, {}

    # -- module level
    def mutated(self, m):
        hit = self._mut.get(m.name)
        if hit is None:
            hit = set()
            for x in ast.walk(m.tree):
                if isinstance(x, ast.Global):
                    hit |= set(x.names)
                elif isinstance(x, (ast.Subscript, ast.Attribute)) and isinstance(x.ctx, (ast.Store, ast.Del)) \
                        and isinstance(x.value, ast.Name):
                    hit.add(x.value.id)
                elif isinstance(x, ast.Call) and isinstance(x.func, ast.Attribute) and x.func.attr in _S_MUTATORS \
                        and isinstance(x.func.value, ast.Name):
                    hit.add(x.func.value.id)
                elif isinstance(x, ast.AugAssign) and isinstance(x.target, ast.Name):
                    hit.add(x.target.id)
            self._mut[m.name] = hit
        return hit

    def glob(self, m, name):
        key = (m.name, name)
        if key in self._glob:
            return self._glob[key]
        self._glob[key] = _SUNK
        v = _SUNK
        tgt = self.idx.resolve_name(m, name)
        vals = m.assigns.get(name)
        if isinstance(tgt, ClassInfo) and not vals:
            self._k[tgt.qual] = tgt
            v = ("c", ("K", tgt.qual))
        elif isinstance(tgt, FuncInfo) and not vals:
            self._f[tgt.qual] = tgt
            v = ("c", ("F", tgt.qual))
        elif vals and name in self.mutated(m):
            v = ("m", name)                                   # module-level state that outlives the call
        elif vals and len(vals) == 1:
            v = self.ev(vals[0], {}, m, self.MAX_DEPTH)       # no calls of package functions at fold time
            if v == _SUNK:
                try:
                    v = _s_const(self.F.name(name, m, None))
                except Exception:
                    v = _SUNK
        elif not vals and tgt is None:
            try:
                v = _s_const(self.F.name(name, m, None))
            except Exception:
                v = _SUNK
        self._glob[key] = v
        return v

    # -- expressions
    def ev(self, e, env, m, depth):
        ev = lambda x: self.ev(x, env, m, depth)
        if isinstance(e, ast.Constant):
            return _s_const(e.value)
        if isinstance(e, ast.Name):
            return env[e.id] if e.id in env else self.glob(m, e.id)
        if isinstance(e, ast.UnaryOp) and isinstance(e.op, ast.Not):
            t = _s_truth(ev(e.operand))
            return _SUNK if t is None else ("c", not t)
        if isinstance(e, ast.BoolOp):
            last = _SUNK
            for x in e.values:
                last = ev(x)
                t = _s_truth(last)
                if t is None:
                    return _SUNK
                if t != isinstance(e.op, ast.And):
                    return last
            return last
        if isinstance(e, ast.IfExp):
            t = _s_truth(ev(e.test))
            return _SUNK if t is None else ev(e.body if t else e.orelse)
        if isinstance(e, ast.Compare):
            if len(e.ops) != 1:
                return _SUNK
            return self._compare(e.ops[0], ev(e.left), ev(e.comparators[0]))
        if isinstance(e, ast.Subscript):
            return self._subscript(e, ev)
        if isinstance(e, (ast.Tuple, ast.List)):
            if any(isinstance(x, ast.Starred) for x in e.elts):
                return _SUNK
            return _s_tuple(ev(x) for x in e.elts)
        if isinstance(e, ast.Dict):
            items = []
            for k, x in zip(e.keys, e.values):
                kv = ev(k) if k is not None else _SUNK
                if kv[0] != "c":
                    return _SUNK
                items = [it for it in items if it[0] != kv[1]] + [(kv[1], ev(x))]
            return ("d", tuple(items))
        if isinstance(e, ast.BinOp) and isinstance(e.op, ast.Add):
            a, b = ev(e.left), ev(e.right)
            if a[0] == "c" and b[0] == "c":
                try:
                    return _s_const(a[1] + b[1])
                except Exception:
                    return _SUNK
            if a[0] == "c" and isinstance(a[1], bytes) and b[0] == "h":
                return ("h", a[1] + b[1])
            if a[0] == "h" and (b[0] == "h" or (b[0] == "c" and isinstance(b[1], bytes))):
                return a
            if {a[0], b[0]} <= {"c", "t"} and all(_s_elements(x) is not None for x in (a, b)):
                return _s_tuple(_s_elements(a) + _s_elements(b))
            return _SUNK
        if isinstance(e, (ast.GeneratorExp, ast.ListComp)):
            return self._comprehension(e, env, m, depth)
        if isinstance(e, ast.Call):
            return self._call(e, env, m, depth)
        if any(isinstance(x, ast.Name) and x.id in env for x in ast.walk(e)):
            return _SUNK
        try:
            return _s_const(self.F.fold(e, m, None))
        except Exception:
            return _SUNK

    def _compare(self, op, a, b):
        pos = isinstance(op, (ast.Eq, ast.Is, ast.In))
        if isinstance(op, (ast.Eq, ast.NotEq)):
            if a[0] == "c" and b[0] == "c":
                return ("c", (a[1] == b[1]) == pos)
            for x, y in ((a, b), (b, a)):
                if x[0] == "h" and y[0] == "c" and not (isinstance(y[1], bytes) and y[1].startswith(x[1])):
                    return ("c", not pos)
            return _SUNK
        if isinstance(op, (ast.Is, ast.IsNot)):
            if a[0] == "c" and b[0] == "c":
                if a[1] is None or b[1] is None or (isinstance(a[1], bool) and isinstance(b[1], bool)):
                    return ("c", (a[1] is b[1]) == pos)
                if a[1] != b[1] or type(a[1]) is not type(b[1]):
                    return ("c", not pos)
                if isinstance(a[1], tuple) and a[1][:1] in (("K",), ("F",)):
                    return ("c", pos)
                return _SUNK
            for x, y in ((a, b), (b, a)):
                if x == ("c", None) and y[0] in ("h", "t", "d", "o"):
                    return ("c", not pos)
            return _SUNK
        if isinstance(op, (ast.In, ast.NotIn)):
            if a[0] == "c" and b[0] == "d":
                return ("c", any(k == a[1] for (k, _x) in b[1]) == pos)
            if a[0] == "c" and b[0] == "c" and isinstance(b[1], (tuple, bytes, str, frozenset)):
                try:
                    return ("c", (a[1] in b[1]) == pos)
                except Exception:
                    return _SUNK
        return _SUNK

    def _subscript(self, e, ev):
        v, sl = ev(e.value), e.slice
        if v[0] == "m":
            return v
        if isinstance(sl, ast.Slice):
            if sl.step is not None:
                return _SUNK
            lo = ev(sl.lower) if sl.lower is not None else ("c", 0)
            hi = ev(sl.upper) if sl.upper is not None else ("c", None)
            if lo[0] != "c" or hi[0] != "c" or type(lo[1]) is not int or lo[1] < 0 \
                    or not (hi[1] is None or (type(hi[1]) is int and hi[1] >= 0)):
                return _SUNK
            if v[0] == "h":
                if hi[1] is not None and hi[1] <= len(v[1]):
                    return ("c", v[1][lo[1]:hi[1]])
                return ("h", v[1][lo[1]:hi[1]])
            if v[0] == "c" and isinstance(v[1], (bytes, str, tuple)):
                return ("c", v[1][lo[1]:hi[1]])
            if v[0] == "t":
                return _s_tuple(v[1][lo[1]:hi[1]])
            return _SUNK
        i = ev(sl)
        if i[0] != "c":
            return _SUNK
        if v[0] == "d":
            for (k, x) in v[1]:
                if k == i[1] and (k is None) == (i[1] is None):
                    return x
            return _SUNK
        if type(i[1]) is not int:
            return _SUNK
        if v[0] == "c" and isinstance(v[1], (bytes, str, tuple)) and -len(v[1]) <= i[1] < len(v[1]):
            return _s_const(v[1][i[1]])
        if v[0] == "t" and -len(v[1]) <= i[1] < len(v[1]):
            return v[1][i[1]]
        if v[0] == "h" and 0 <= i[1] < len(v[1]):
            return ("c", v[1][i[1]])
        return _SUNK

    def bind(self, t, v, env):
        if isinstance(t, ast.Name):
            env[t.id] = v
        elif isinstance(t, (ast.Tuple, ast.List)):
            els = _s_elements(v) if v[0] in ("c", "t") else None
            if els is None or len(els) != len(t.elts) or any(isinstance(x, ast.Starred) for x in t.elts):
                for x in ast.walk(t):
                    if isinstance(x, ast.Name):
                        env[x.id] = _SUNK
            else:
                for tt, vv in zip(t.elts, els):
                    self.bind(tt, vv, env)
        elif isinstance(t, ast.Attribute) and attr_path(t):
            env[attr_path(t)] = v
        elif isinstance(t, ast.Subscript):
            for x in ast.walk(t.value):
                if isinstance(x, ast.Name) and x.id in env:
                    env[x.id] = _SUNK               # a member of a local container is replaced: contents no longer known

    def _comprehension(self, e, env, m, depth):
        if len(e.generators) != 1 or e.generators[0].is_async:
            return _SUNK
        g = e.generators[0]
        els = _s_elements(self.ev(g.iter, env, m, depth))
        if els is None or len(els) > 64:
            return _SUNK
        out = []
        for x in els:
            env2 = dict(env)
            self.bind(g.target, x, env2)
            keep = True
            for c in g.ifs:
                t = _s_truth(self.ev(c, env2, m, depth))
                if t is None:
                    return _SUNK
                keep = keep and t
            if keep:
                out.append(self.ev(e.elt, env2, m, depth))
        return _s_tuple(out)

    def _call(self, e, env, m, depth):
        ev = lambda x: self.ev(x, env, m, depth)
        f = e.func
        if any(isinstance(a, ast.Starred) for a in e.args) or any(kw.arg is None for kw in e.keywords):
            return _SUNK
        if isinstance(f, ast.Name) and f.id not in env and self.idx.resolve_name(m, f.id) is None and f.id not in m.assigns:
            nm, args = f.id, e.args
            if nm == "isinstance" and len(args) == 2 and not e.keywords:
                v = ev(args[0])
                ts = args[1].elts if isinstance(args[1], ast.Tuple) else [args[1]]
                if all(isinstance(t, ast.Name) and t.id in _S_TYPES and t.id not in env for t in ts):
                    if v[0] == "h":
                        return ("c", any(t.id == "bytes" for t in ts))
                    if v[0] == "c" and not (isinstance(v[1], tuple) and v[1][:1] in (("K",), ("F",))):
                        return ("c", isinstance(v[1], tuple(_S_TYPES[t.id] for t in ts)))
                    if v[0] == "t":
                        return ("c", any(t.id == "tuple" for t in ts))
                return _SUNK
            if nm == "len" and len(args) == 1 and not e.keywords:
                v = ev(args[0])
                if v[0] == "c" and isinstance(v[1], (bytes, str, tuple)):
                    return ("c", len(v[1]))
                if v[0] in ("t", "d"):
                    return ("c", len(v[1]))
                return _SUNK
            if nm == "bool" and len(args) == 1 and not e.keywords:
                t = _s_truth(ev(args[0]))
                return _SUNK if t is None else ("c", t)
            if nm in ("any", "all") and len(args) == 1 and not e.keywords:
                els = _s_elements(ev(args[0]))
                ts = [_s_truth(x) for x in els] if els is not None else [None]
                if any(t is None for t in ts):
                    return _SUNK
                return ("c", any(ts) if nm == "any" else all(ts))
            if nm in ("tuple", "list") and len(args) == 1 and not e.keywords:
                els = _s_elements(ev(args[0]))
                return _SUNK if els is None else _s_tuple(els)
            if nm == "next" and len(args) in (1, 2) and not e.keywords:
                els = _s_elements(ev(args[0]))
                if els is None:
                    return _SUNK
                if els:
                    return els[0]
                return ev(args[1]) if len(args) == 2 else _SUNK
            return _SUNK
        if isinstance(f, ast.Attribute):
            if f.attr == "init_from_string":
                recv = ev(f.value)
                if recv[0] == "c" and isinstance(recv[1], tuple) and recv[1][:1] == ("K",) and recv[1][1] in self.byq:
                    return ("o", "parse", recv[1][1], ev(e.args[0]) if e.args else _SUNK)
                return _SUNK
            recv = ev(f.value)
            if recv[0] == "m":
                return recv if f.attr in _CONTAINER_READS else _SUNK
            if f.attr == "startswith" and len(e.args) == 1 and not e.keywords:
                p = ev(e.args[0])
                if p[0] != "c":
                    return _SUNK
                ps = p[1] if isinstance(p[1], tuple) else (p[1],)
                if not ps or not all(isinstance(x, bytes) for x in ps):
                    return _SUNK
                if recv[0] == "c" and isinstance(recv[1], bytes):
                    return ("c", recv[1].startswith(ps))
                if recv[0] == "h":
                    res = False
                    for x in ps:
                        if recv[1].startswith(x):
                            return ("c", True)
                        if x.startswith(recv[1]):
                            res = None
                    return _SUNK if res is None else ("c", False)
                return _SUNK
            if f.attr == "removeprefix" and len(e.args) == 1 and not e.keywords:
                p = ev(e.args[0])
                if p[0] == "c" and isinstance(p[1], bytes):
                    if recv[0] == "c" and isinstance(recv[1], bytes):
                        return ("c", recv[1].removeprefix(p[1]))
                    if recv[0] == "h":
                        if recv[1].startswith(p[1]):
                            return ("h", recv[1][len(p[1]):])
                        return _SUNK if p[1].startswith(recv[1]) else recv
                return _SUNK
            if recv[0] == "d" and not e.keywords:
                if f.attr == "get" and len(e.args) in (1, 2):
                    k = ev(e.args[0])
                    if k[0] != "c":
                        return _SUNK
                    for (kk, x) in recv[1]:
                        if kk == k[1] and (kk is None) == (k[1] is None):
                            return x
                    return ev(e.args[1]) if len(e.args) == 2 else ("c", None)
                if f.attr == "items" and not e.args:
                    return _s_tuple(_s_tuple((_s_const(k), x)) for (k, x) in recv[1])
                if f.attr == "keys" and not e.args:
                    return _s_tuple(_s_const(k) for (k, _x) in recv[1])
                if f.attr == "values" and not e.args:
                    return _s_tuple(x for (_k, x) in recv[1])
            if recv != _SUNK:
                return _SUNK
        fv = ev(f)
        if fv[0] == "c" and isinstance(fv[1], tuple) and fv[1][:1] == ("K",):
            q = fv[1][1]
            if q in self.byq:
                return ("o", "parse", q, _SUNK)
            ci = self._k.get(q)
            if ci is not None and ci.name == "UnknownURI":
                err = [a for (p, a) in _ctor_pairs(self.idx, ci, e) if p == "error"]
                return ("o", "unknown", ev(err[0]) if err else ("c", None))
            return ("o", "new", q)
        if fv[0] == "c" and isinstance(fv[1], tuple) and fv[1][:1] == ("F",):
            tgt = self._f.get(fv[1][1])
            if tgt is None or depth >= self.MAX_DEPTH or tgt.cls is not None or tgt.node.decorator_list \
                    or tgt.node.args.vararg or tgt.node.args.kwarg or isinstance(tgt.node, ast.AsyncFunctionDef):
                return _SUNK
            given = {}
            ps = list(tgt.params)
            for i, a in enumerate(e.args):
                if i >= len(ps):
                    return _SUNK
                given[ps[i]] = ev(a)
            for kw in e.keywords:
                if kw.arg not in ps or kw.arg in given:
                    return _SUNK
                given[kw.arg] = ev(kw.value)
            if any(v_[0] in ("d", "m") for v_ in given.values()):
                return _SUNK                            # the callee could change the container in place: not followed
            outs = self.run(tgt, given, depth + 1)
            if len(outs) == 1 and outs[0][1] == "return" and outs[0][3]:
                return outs[0][2]
            return _SUNK
        return _SUNK

    # -- one function
    def defaults(self, fn):
        a = fn.node.args
        pos = list(a.posonlyargs) + list(a.args)
        out = {}
        for p, d in zip(pos[len(pos) - len(a.defaults):], a.defaults):
            out[p.arg] = self.ev(d, {}, fn.module, self.MAX_DEPTH)
        for p, d in zip(a.kwonlyargs, a.kw_defaults):
            if d is not None:
                out[p.arg] = self.ev(d, {}, fn.module, self.MAX_DEPTH)
        for p in pos + list(a.kwonlyargs):
            out.setdefault(p.arg, _SUNK)
        return out

    def run(self, fn, given, depth=0):
        """-> [(node, 'return' | 'raise' | 'end', value, exact, witness)]"""
        cfg, m = fn.cfg(), fn.module
        env0 = self.defaults(fn)
        env0.update(given)
        nested = set()

        def walk(node, inside):
            for ch in ast.iter_child_nodes(node):
                if isinstance(ch, (ast.FunctionDef, ast.AsyncFunctionDef, ast.Lambda, ast.ClassDef)):
                    continue
                if inside and isinstance(ch, (ast.For, ast.AsyncFor)):
                    nested.add(id(ch))
                walk(ch, inside or isinstance(ch, (ast.For, ast.AsyncFor, ast.While)))
        walk(fn.node, False)

        def freeze(env, exact):
            return (tuple(sorted(env.items(), key=lambda kv: kv[0])), exact)

        def transfer(n, lab, nxt, state):
            if lab == "exc":
                return None
            items, exact = state
            env = dict(items)
            a = n.ast
            touched = False
            for e_ in (node_exprs(n) if n.kind in ("stmt", "test", "iter", "with") else []):
                for x in own_nodes(e_):
                    if isinstance(x, ast.Call) and isinstance(x.func, ast.Attribute) and x.func.attr in _S_MUTATORS \
                            and isinstance(x.func.value, ast.Name) and env.get(x.func.value.id, _SUNK) != _SUNK:
                        env[x.func.value.id] = _SUNK    # a local container changed in place: contents no longer known
                        touched = True
            if n.kind == "stmt" and isinstance(a, ast.Delete):
                for x in ast.walk(a):
                    if isinstance(x, ast.Name) and x.id in env:
                        env[x.id] = _SUNK
                        touched = True
            if touched:
                items = freeze(env, exact)[0]
                state = (items, exact)
            if n.kind == "test":
                t = _s_truth(self.ev(a, env, m, depth))
                if isinstance(lab, tuple) and lab[0] in ("T", "F"):
                    if t is None:
                        return (items, False)
                    return state if (lab[0] == "T") == t else None
                return (items, False)
            if n.kind == "stmt" and isinstance(a, (ast.Return, ast.Raise)):
                return None
            if n.kind == "iter" and lab in ("iter", "done"):
                els = None if id(a) in nested else _s_elements(self.ev(a.iter, env, m, depth))
                if els is not None and len(els) <= 64:
                    key = "!it%d" % n.id
                    i = env.get(key, ("c", 0))[1]
                    if lab == "iter":
                        if i >= len(els):
                            return None
                        self.bind(a.target, els[i], env)
                        env[key] = ("c", i + 1)
                    else:
                        if i < len(els):
                            return None
                        env.pop(key, None)
                    return freeze(env, exact)
                for x in ast.walk(a.target):
                    if isinstance(x, ast.Name):
                        env[x.id] = _SUNK
                return freeze(env, False)
            if n.kind == "stmt" and isinstance(a, ast.Assign):
                v = self.ev(a.value, env, m, depth)
                for t in a.targets:
                    self.bind(t, v, env)
                return freeze(env, exact)
            if n.kind == "stmt" and isinstance(a, ast.AnnAssign) and a.value is not None:
                self.bind(a.target, self.ev(a.value, env, m, depth), env)
                return freeze(env, exact)
            if n.kind == "stmt" and isinstance(a, ast.AugAssign):
                self.bind(a.target, self.ev(aug_value(a), env, m, depth), env)
                return freeze(env, exact)
            for st in node_stores(n):
                if not st.endswith("[]"):
                    env[st] = _SUNK
            return freeze(env, exact)

        visited, parent = explore(cfg, freeze(env0, True), transfer, max_states=20000)
        self.states += len(visited)
        out = []
        for (i, st) in sorted(visited, key=lambda x: (x[0], not x[1][1], repr(x[1][0]))):
            n = cfg.nodes[i]
            env = dict(st[0])
            if n.kind == "stmt" and isinstance(n.ast, ast.Return):
                kind = "return"
                val = self.ev(n.ast.value, env, m, depth) if n.ast.value is not None else ("c", None)
            elif (n.kind == "stmt" and isinstance(n.ast, ast.Raise)) or n.kind == "raise":
                kind, val = "raise", _SUNK
            elif n.kind == "exit":
                kind, val = "end", ("c", None)
            else:
                continue
            out.append((n, kind, val, st[1], witness(cfg, parent, (i, st)) if depth == 0 else None))
        return out


# --------------------------------------------------------------------- run
def run(ctx: Context):
    idx = ctx.idx
    F = get_folder(idx)
    m, files, dirs = _classes(idx)
    every = files + dirs
    byq = {c.qual: c for c in every}
    is_dir = {c.qual for c in dirs}
    PREFIX = {"imm": F.module_const("uri", "ALLEGED_IMMUTABLE_PREFIX"), "ro": F.module_const("uri", "ALLEGED_READONLY_PREFIX")}
    if not (isinstance(PREFIX["imm"], bytes) and isinstance(PREFIX["ro"], bytes) and PREFIX["imm"] != PREFIX["ro"]
            and PREFIX["imm"] and PREFIX["ro"]):
        raise AnalysisError("alleged prefixes are not two distinct byte strings")
    # a string that starts with one prefix cannot start with another one unless one prefix continues the other
    DISJOINT = {a: {b for b in PREFIX if b != a and not PREFIX[a].startswith(PREFIX[b]) and not PREFIX[b].startswith(PREFIX[a])}
                for a in PREFIX}

    # constants table
    RO, MUT = {}, {}
    tbl_problems = []
    for ci in every:
        for name, T in (("is_readonly", RO), ("is_mutable", MUT)):
            fn, v = _const_method(ci, name)
            if v[0] == "const" and isinstance(v[1], bool):
                T[ci.qual] = v[1]
            else:
                T[ci.qual] = None
                tbl_problems.append((ci, fn, name, v[1]))
    impl = {c.qual: _implements(c) for c in every}
    inner = {c.qual: _inner(idx, c) for c in dirs}

    def init_fields(ci):
        init = ci.lookup("__init__")
        if init is None:
            raise AnchorVanished("%s.__init__" % ci.qual)
        return init, first_positional_params(init), def_exprs(init)

    # -- 1. diminishing constructors ----------------------------------------
    with ctx.rule("C16.1", "R7/R6", "get_readonly()/get_verify_cap(): self only if already read-only/verifier, otherwise a "
                  "read-only/verifier class built from the same-named fields only (no writekey; no readkey/key for "
                  "verifiers); wrappers pass _filenode_uri.get_readonly()/get_verify_cap()", expected=36) as r:
        for ci in every:
            for meth, secret in (("get_readonly", SECRET_FOR_RO), ("get_verify_cap", SECRET_FOR_VERIFY)):
                verify = meth == "get_verify_cap"
                for (n, fn, kind, pay) in _derive(idx, ci, meth):
                    r.site(ci.qual + "." + meth, None, kind)
                    loc = fn.loc(n.ast)
                    if kind == "self":
                        if verify:
                            r.require("IVerifierURI" in impl[ci.qual], ci.qual, loc, "%s.get_verify_cap() returns self but %s "
                                      "is not a verifier cap (it keeps %s)" % (ci.name, ci.name, "its keys"))
                        else:
                            r.require(RO[ci.qual] is True, ci.qual, loc, "%s.get_readonly() returns self but %s is writeable" % (
                                ci.name, ci.name))
                    elif kind == "none":
                        if not verify:
                            r.violation(ci.qual, loc, "%s.get_readonly() returns None" % ci.name)
                        elif ci.qual in is_dir:
                            k = inner[ci.qual]
                            ok = k is not None and all(x[2] == "none" for x in _derive(idx, k, "get_verify_cap"))
                            r.require(ok, ci.qual, loc, "%s.get_verify_cap() returns None although its inner cap has a "
                                      "verify cap" % ci.name)
                        else:
                            _i, _p, defs = init_fields(ci)
                            r.require("self.storage_index" not in defs, ci.qual, loc, "%s.get_verify_cap() returns None "
                                      "although the cap has a storage index" % ci.name)
                    elif kind == "class":
                        (k, call, fnorm) = pay
                        if k.qual not in byq:
                            r.violation(ci.qual, loc, "%s.%s() builds %s, not a cap class" % (ci.name, meth, k.name))
                            continue
                        if verify:
                            r.require("IVerifierURI" in impl[k.qual], ci.qual, loc, "%s.get_verify_cap() builds %s, which is "
                                      "not a verifier cap" % (ci.name, k.name))
                        else:
                            r.require(RO[k.qual] is True, ci.qual, loc, "%s.get_readonly() builds %s, which is not "
                                      "read-only" % (ci.name, k.name))
                            r.require(MUT[k.qual] == MUT[ci.qual], ci.qual, loc, "%s.get_readonly() builds %s: mutability "
                                      "changes from %s to %s" % (ci.name, k.name, MUT[ci.qual], MUT[k.qual]))
                        r.require((k.qual in is_dir) == (ci.qual in is_dir), ci.qual, loc, "%s.%s() builds %s: file and "
                                  "directory caps mixed" % (ci.name, meth, k.name))
                        pairs = _ctor_pairs(idx, k, call)
                        r.count(len(pairs))
                        if ci.qual in is_dir:
                            want = norm_src("self._filenode_uri.%s()" % meth)
                            ok = len(pairs) == 1 and fnorm.norm(n, pairs[0][1]) == want
                            r.require(ok, ci.qual, loc, "%s.%s() wraps %s instead of %s" % (
                                ci.name, meth, ", ".join(fnorm.norm(n, a) for (_p, a) in pairs), want))
                        else:
                            _i, kparams, _d = init_fields(k)
                            given = set()
                            for (p, a) in pairs:
                                given.add(p)
                                got = fnorm.norm(n, a)
                                deps = depends_on(fn, a)
                                leak = sorted(s for s in secret if ("self." + s) in deps)
                                if leak or p in secret:
                                    r.violation(ci.qual, loc, "%s.%s() passes %s to %s(%s=..): the derived cap would carry "
                                                "the stronger secret %s" % (ci.name, meth, got, k.name, p, ", ".join(leak) or p))
                                elif p is None or got != "self." + p:
                                    r.violation(ci.qual, loc, "%s.%s() passes %s as %s of %s; the field self.%s must be "
                                                "passed along unchanged" % (ci.name, meth, got, p, k.name, p))
                            init_k = k.lookup("__init__")
                            nreq = len(kparams) - len(init_k.node.args.defaults)
                            missing = [p for p in kparams[:nreq] if p not in given]
                            r.require(not missing, ci.qual, loc, "%s.%s() does not pass %s to %s" % (
                                ci.name, meth, ", ".join(missing), k.name))
                    else:
                        r.violation(ci.qual, loc, "%s.%s() returns %s" % (ci.name, meth, pay))

    # -- 2. wrapper kind follows the inner kind ------------------------------
    with ctx.rule("C16.2", "R5", "a directory cap's get_readonly()/get_verify_cap() result is the wrapper class whose "
                  "INNER_URI_CLASS is what its inner cap derives to", expected=18) as r:
        for ci in dirs:
            k_in = inner[ci.qual]
            if k_in is None:
                raise AnalysisError("%s.INNER_URI_CLASS does not resolve to a class" % ci.qual)
            for meth in ("get_readonly", "get_verify_cap"):
                r.site(ci.qual + "." + meth)
                want_inner = _derived_class(idx, k_in, meth)
                for (n, fn, kind, pay) in _derive(idx, ci, meth):
                    if kind == "none":
                        continue
                    k = ci if kind == "self" else (pay[0] if kind == "class" else None)
                    if k is None or k.qual not in is_dir:
                        continue        # reported by C16.1
                    got_inner = inner.get(k.qual)
                    r.require(want_inner is not None and got_inner is not None and got_inner.qual == want_inner,
                              ci.qual, fn.loc(n.ast), "%s.%s() gives a %s (wrapper of %s) around a %s: the result cannot be "
                              "serialised / is of the wrong kind" % (
                                  ci.name, meth, k.name, got_inner.name if got_inner else "?",
                                  want_inner.split(":")[-1] if want_inner else "?"))

    # -- 3. same storage index along the chain -------------------------------
    with ctx.rule("C16.3", "R6", "writeable -> read-only: readkey and storage index are derived by the same expressions on "
                  "both sides; fields feeding to_string/derivations are the constructor parameters", expected=3) as r:
        for ci in files:
            init, ps, defs = init_fields(ci)
            nrm = N(init)
            rk_sym = lambda t: re.sub(r"\b(self\.)?readkey\b", "<readkey>", t)
            si = [rk_sym(nrm.norm(v)) for v in defs.get("self.storage_index", [])]
            if "writekey" in ps:
                r.site(ci.qual, None, "writeable")
                rk = [nrm.norm(v) for v in defs.get("self.readkey", [])]
                ok = len(rk) == 1 and re.match(r"^(\w+\.)*ssk_readkey_hash\(writekey\)$", rk[0]) is not None
                r.require(ok, ci.qual, init.loc(), "%s: readkey is %s, not ssk_readkey_hash(writekey)" % (ci.name, rk))
                kq = _derived_class(idx, ci, "get_readonly")
                if kq is None or kq not in byq or kq == ci.qual:
                    continue        # C16.1 reports
                k = byq[kq]
                kinit, kps, kdefs = init_fields(k)
                ksi = [rk_sym(N(kinit).norm(v)) for v in kdefs.get("self.storage_index", [])]
                krk = kdefs.get("self.readkey", [])
                r.require(len(si) == 1 and si == ksi and "<readkey>" in si[0] and "writekey" not in si[0],
                          ci.qual, init.loc(), "%s derives its storage index as %s but %s as %s: the read-only cap would name "
                          "a different slot" % (ci.name, si, k.name, ksi))
                r.require(len(krk) == 1 and isinstance(krk[0], ast.Name) and krk[0].id == "readkey", k.qual, kinit.loc(),
                          "%s does not keep the readkey it is given" % k.name)
            elif "key" in ps:
                r.site(ci.qual, None, "immutable")
                ok = len(si) == 1 and re.match(r"^(\w+\.)*storage_index_hash\((self\.)?key\)$", si[0]) is not None
                r.require(ok, ci.qual, init.loc(), "%s: storage index is %s, not storage_index_hash(key)" % (ci.name, si))

    # -- 4. constants table ---------------------------------------------------
    with ctx.rule("C16.4", "R5", "is_readonly()/is_mutable() are constants consistent with the class's fields, interfaces, "
                  "INNER_URI_CLASS and wrap_dirnode_cap", expected=24) as r:
        for (ci, fn, name, what) in tbl_problems:
            r.violation(ci.qual, fn.loc(), "%s.%s() is not a constant True/False (%s)" % (ci.name, name, what))
        for ci in every:
            r.site(ci.qual, None, "ro=%s mut=%s" % (RO[ci.qual], MUT[ci.qual]))
            ro, mut = RO[ci.qual], MUT[ci.qual]
            if ro is None or mut is None:
                continue
            verifier = "IVerifierURI" in impl[ci.qual]
            loc_ro = ci.lookup("is_readonly").loc()
            loc_mut = ci.lookup("is_mutable").loc()
            if verifier:
                r.require(ro, ci.qual, loc_ro, "%s is a verifier cap but is_readonly() is False" % ci.name)
                r.require(not mut, ci.qual, loc_mut, "%s is a verifier cap but is_mutable() is True" % ci.name)
            if ci.qual in is_dir:
                k = inner[ci.qual]
                if k is None or k.qual not in byq:
                    r.violation(ci.qual, _loc(ci), "%s.INNER_URI_CLASS is not a cap class" % ci.name)
                    continue
                r.require(ro == RO[k.qual], ci.qual, loc_ro, "%s.is_readonly() is %s but it wraps %s whose is_readonly() is %s" % (
                    ci.name, ro, k.name, RO[k.qual]))
                if not verifier:
                    r.require(mut == MUT[k.qual], ci.qual, loc_mut, "%s.is_mutable() is %s but it wraps %s whose is_mutable() "
                              "is %s" % (ci.name, mut, k.name, MUT[k.qual]))
                r.require(verifier == ("IVerifierURI" in impl[k.qual]), ci.qual, _loc(ci), "%s wraps %s: verifier and "
                          "non-verifier mixed" % (ci.name, k.name))
            else:
                init, ps, defs = init_fields(ci)
                has_wk = "writekey" in ps or "self.writekey" in defs
                r.require(ro == (not has_wk), ci.qual, loc_ro, "%s %s a writekey but is_readonly() is %s" % (
                    ci.name, "holds" if has_wk else "holds no", ro))
                if not verifier:
                    r.require(mut == ("IMutableFileURI" in impl[ci.qual]), ci.qual, loc_mut, "%s.is_mutable() is %s but the "
                              "class %s IMutableFileURI" % (ci.name, mut, "implements" if "IMutableFileURI" in impl[ci.qual]
                                                            else "does not implement"))
                if verifier:
                    bad = sorted(s for s in SECRET_FOR_VERIFY if s in ps or ("self." + s) in defs)
                    r.require(not bad, ci.qual, init.loc(), "verifier cap %s stores %s" % (ci.name, ", ".join(bad)))
        # wrap_dirnode_cap
        w = idx.func("uri:wrap_dirnode_cap")
        wp = first_positional_params(w)[0]
        cfg = w.cfg()
        covered = set()
        for n in cfg.find(is_return):
            v = n.ast.value
            k = idx.resolve_expr(w.module, v.func) if isinstance(v, ast.Call) else None
            if not (isinstance(k, ClassInfo) and k.qual in is_dir):
                r.violation(w, w.loc(n.ast), "wrap_dirnode_cap returns %s" % src(w, v))
                continue
            r.site(w, n.ast, k.name)
            k_in = inner[k.qual]
            ok_arg = len(v.args) == 1 and isinstance(v.args[0], ast.Name) and v.args[0].id == wp

            def gate(t, lab, _k=k_in):
                c = t.ast
                if t.kind == "test" and isinstance(lab, tuple) and lab[0] == "T" and isinstance(c, ast.Call) \
                        and call_name(c) == "isinstance" and len(c.args) == 2 and isinstance(c.args[0], ast.Name) \
                        and c.args[0].id == wp:
                    kk = idx.resolve_expr(w.module, c.args[1])
                    return isinstance(kk, ClassInfo) and _k is not None and kk.qual == _k.qual
                return False
            bad = find_path_avoiding(cfg, lambda x, _n=n: x is _n, gate_edge=gate)
            r.require(ok_arg and not bad, k.qual, w.loc(n.ast), "wrap_dirnode_cap builds %s without having checked that the "
                      "file cap is a %s" % (k.name, k_in.name if k_in else "?"))
            if k_in is not None:
                covered.add(k_in.qual)
        for ci in files:
            if "IVerifierURI" not in impl[ci.qual] and ci.qual not in covered:
                r.violation(ci.qual, w.loc(), "wrap_dirnode_cap has no case for %s" % ci.name)

    # -- 5. from_string guards --------------------------------------------------
    _pw = {}

    def _computed_flags(w):
        """The path-wise monitors know a permission flag by what it is bound to: `not <context>`, a boolean constant, a
        copy of such a local - and learn the alleged prefixes from the branches taken.  A local that a parse function
        with gated classes tests for truth and that is *computed* from the context (`not (deep_immutable or imm)`,
        `can_be_mutable and not ro`, with imm / ro returned by a helper or bound to the value of a prefix test) carries
        what a prefix test found by value, not by the branch taken: no path-wise reading of it; the clauses are decided
        on the abstract execution of the scenarios instead (helpers executed in place)."""
        plain = N()
        for q in sorted({fn.qual for (fn, di, n, k, call) in w.sites if RO[k.qual] is not True or MUT[k.qual] is not False}):
            (fn, di) = w.funcs[q]
            flags = _flag_locals(fn, di)
            for n in fn.cfg().nodes:
                if n.kind != "test":
                    continue
                f = plain.cmp(n.ast, True)
                if not (f and f[0] in ("truth", "false") and isinstance(f[1], str)):
                    continue
                x = f[1]
                if x in flags or x in fn.params or x not in _local_names(fn):
                    continue
                if di in depends_on(fn, ast.Name(id=x, ctx=ast.Load())):
                    raise _ByValue("%s tests %s, a flag computed from the %s context and other values" % (fn.qual, x, di))

    def parse_walk():
        if "w" not in _pw:
            fs = idx.func("uri:from_string")
            if "deep_immutable" not in fs.params:
                raise AnchorVanished("from_string has no deep_immutable parameter")
            w = _ParseWalk(idx, byq)
            try:
                w.walk(fs, "deep_immutable")
                _computed_flags(w)
            except _ByValue as e:
                # table-driven dispatch: no branch per class for the path-wise monitors of C16.5/.9/.10/.13/.16 to
                # attach to; each of them decides its clause on the abstract execution of the scenarios instead
                w = _ParseWalk(idx, byq)
                w.by_value = str(e)
            _pw["w"] = w
        return _pw["w"]

    # Scenarios: from_string on <alleged prefix or none> + <BASE_STRING of a cap class, or no known kind> + anything,
    # deep_immutable False / True, executed abstractly (_Sem): through helpers, module-level tables, loops over them.
    _sc = {}

    def scenarios():
        if "v" not in _sc:
            fs = idx.func("uri:from_string")
            ps = first_positional_params(fs)
            if not ps or "deep_immutable" not in fs.params:
                raise AnchorVanished("from_string(u, deep_immutable, ..) signature changed")
            sem = _Sem(idx, F, byq)
            heads = []
            for ci in every:
                try:
                    b = F.class_attr(ci, "BASE_STRING")
                except NotConstant as e:
                    raise AnalysisError("cannot fold %s.BASE_STRING: %s" % (ci.qual, e))
                if not isinstance(b, bytes) or not b:
                    raise AnalysisError("%s.BASE_STRING is not a non-empty bytes constant" % ci.qual)
                heads.append((ci, b))
            heads.append((None, b"\x00"))
            rows = []
            for (ci, b) in heads:
                for al in ("", "imm", "ro"):
                    for di in (False, True):
                        head = (PREFIX[al] if al else b"") + b
                        outs = sem.run(fs, {ps[0]: ("h", head), "deep_immutable": ("c", di)})
                        if not outs:
                            raise AnalysisError("from_string(%r.., deep_immutable=%s): no outcome found" % (head, di))
                        rows.append((ci, b, al, di, head, outs))
            _sc["v"] = (fs, sem, rows)
        return _sc["v"]

    def sc_check(r, what):
        """Decide one clause on every scenario.  what: 'perm' - a writeable class is parsed only with deep_immutable
        false and no alleged prefix, a mutable one only with deep_immutable false and no 'imm.'; 'refusal' - a gated
        kind that the context does not allow comes back as UnknownURI with an error; 'cut' - behind an alleged prefix
        the parser gets the input minus exactly that prefix, and a refused kind is recognised (error set); 'leaves' -
        every outcome is a parse of a cap class or an UnknownURI.  -> number of scenarios that expect a refusal."""
        (fs, sem, rows) = scenarios()
        r.count(sem.states)
        n_refuse, sited, reported = 0, set(), set()
        try:
            memo_decided = parse_walk().by_value is None    # C16.9 decides the values remembered across calls path-wise
        except AnalysisError:
            memo_decided = False
        for (ci, b, al, di, head, outs) in rows:
            if (b, al) not in sited:
                sited.add((b, al))
                r.site(fs, None, "scenario %r.. (%s)" % ((PREFIX[al] if al else b"") + b, ci.name if ci else "no known kind"))
            allowed_w = not di and not al
            allowed_m = not di and al != "imm"
            refuse = ci is not None and ((RO[ci.qual] is not True and not allowed_w) or
                                         (RO[ci.qual] is True and MUT[ci.qual] is not False and not allowed_m))
            n_refuse += bool(refuse)
            scen = "from_string(%r.., deep_immutable=%s)" % (head, di)
            for (n, kind, val, exact, w) in outs:
                if kind == "return" and val[0] == "o" and val[1] in ("parse", "unknown"):
                    pass
                elif kind == "return" and val[0] == "m" and memo_decided:
                    continue
                else:
                    raise AnalysisError("%s ends in %s %s: cannot tell what it gives (path: %s)" % (
                        scen, kind, src(fs, n.ast) if n.ast is not None else "", w.brief(12) if w else "?"))
                bad = construct = None
                if val[1] == "parse":
                    k = byq[val[2]]
                    wr, mu = RO[k.qual] is not True, MUT[k.qual] is not False
                    if what == "perm" and ((wr and not allowed_w) or (not wr and mu and not allowed_m)):
                        construct = k.qual
                        bad = "%s gives a %s %s: %s - the permission in force when the class is accepted is higher " \
                              "than the context allows (can_be_mutable <= not deep_immutable and no 'imm.'; can_be_writeable " \
                              "<= not deep_immutable and no 'imm.'/'ro.')" % (
                                  scen, "writeable" if wr else "mutable", k.name,
                                  ("behind the %r prefix the deep-immutable context no longer counts" % PREFIX[al]) if al and di
                                  else ("the %r prefix did not clear the flag guarding it" % PREFIX[al]) if al
                                  else "the deep-immutable context is ignored")
                    elif what == "cut" and al:
                        if val[3][0] != "h":
                            raise AnalysisError("%s: cannot tell which string %s is given" % (scen, src(fs, n.ast)))
                        if val[3][1] != b:
                            construct = fs
                            bad = "%s hands the parser of %s a string starting %r, not the input minus exactly the alleged " \
                                  "prefix %r" % (scen, k.name, val[3][1], PREFIX[al])
                elif refuse and (what == "refusal" or (what == "cut" and al)):
                    if val[2] == _SUNK:
                        raise AnalysisError("%s: cannot tell whether the UnknownURI of %s carries an error" % (scen, src(fs, n.ast)))
                    if val[2] == ("c", None):
                        construct = fs
                        bad = "%s refuses the %s but returns an UnknownURI without error: the refusal is not reported, " \
                              "UnknownNode keeps the cap as an acceptable read-only/immutable one" % (scen, ci.name)
                if bad:
                    if not exact:
                        raise AnalysisError("%s: %s - on a path through a test that could not be evaluated: cannot decide" % (scen, bad))
                    key = (what, construct if isinstance(construct, str) else construct.qual, al, di, n.id)
                    if key not in reported:
                        reported.add(key)
                        r.violation(construct, fs.loc(n.ast), "%s (path: %s)" % (bad, w.brief(14)), w)
        return n_refuse

    with ctx.rule("C16.5", "R3", "from_string (and the helpers it returns through): a writeable kind is parsed only on paths that "
                  "found a flag true whose value there is `not deep_immutable` and that met neither alleged prefix, a mutable "
                  "kind only on such paths that did not meet 'imm.' (the flags are the locals holding `not deep_immutable` / "
                  "False, whatever they are called: 'imm.' must have cleared the one tested, 'ro.' the one guarding a "
                  "writeable kind)", expected=19) as r:
        pw = parse_walk()
        by_fn = {}
        for (fn, di, n, k, call) in pw.sites:
            by_fn.setdefault(fn.qual, (fn, di, []))[2].append((n, k))
        if pw.by_value:
            sc_check(r, "perm")
        elif not by_fn and not pw.lost:
            raise AnchorVanished("no K.init_from_string(..) is returned by from_string or its helpers")
        plain = N()
        for q in sorted(by_fn):
            (fn, di, sites) = by_fn[q]
            cfg = fn.cfg()
            init_nf = norm_src("not %s" % di)

            # Path-wise abstract interpretation.  A local is known by what it holds, never by its name:
            #   'init' = `not deep_immutable` (of the unchanged parameter), 'F' = False; anything else is unknown.
            # State: (known locals, prefix facts, passed a truth test of a local holding 'init').  Prefix facts
            # (_pfx_learn) are kept per tested variable; `X.startswith((P, Q))` is "P or Q" on its true edge, "neither" on
            # its false edge.  When the variable is re-bound, what was found on it stays found for the rest of the
            # path (subject ''), what was excluded is forgotten.
            def transfer(n, lab, nxt, st, fn=fn, di=di, init_nf=init_nf):
                vals_t, pf, guard = st
                vals = dict(vals_t)
                if n.kind == "test" and isinstance(lab, tuple) and lab[0] in ("T", "F"):
                    pt = _prefix_test(F, fn, n, PREFIX)
                    if pt is not None:
                        pf = _pfx_learn(pf, pt[0], pt[1], lab[0] == "T", DISJOINT)
                        if pf is None:
                            return None             # contradicts the prefix tests already passed: no such execution
                    else:
                        f = plain.cmp(n.ast, lab[0] == "T")
                        if f and f[0] in ("truth", "false") and f[1] in vals:
                            a = vals[f[1]]
                            if a == "F" and f[0] == "truth":
                                return None         # a flag that is False is not found true: no such execution
                            if a == "init" and f[0] == "truth":
                                guard = True
                stored = node_stores(n)
                if stored:
                    new = {}
                    if n.kind == "stmt" and isinstance(n.ast, (ast.Assign, ast.AnnAssign)) and n.ast.value is not None:
                        _flag_bind(vals, n.ast.targets if isinstance(n.ast, ast.Assign) else [n.ast.target], n.ast.value,
                                   init_nf, new)
                    for x in stored:
                        if "." not in x and not x.endswith("[]"):
                            vals.pop(x, None)
                    vals.update({k_: v_ for k_, v_ in new.items() if v_ is not None})
                    if di in stored:
                        vals, guard = {}, False     # the context itself was re-bound: nothing known any more
                    if any(f[0] in stored for f in pf):
                        pf = frozenset(("", f[1], True) if f[0] in stored else f for f in pf if f[2] or f[0] not in stored)
                return (tuple(sorted(vals.items())), pf, guard)

            def st_key(x):
                (nid, (vals_t, pf, guard)) = x
                return (nid, str(vals_t), _pfx_key(pf), guard)

            visited, parent = explore(cfg, ((), frozenset(), False), transfer)
            r.count(len(visited))
            by_node = {}
            for (nid, st) in sorted(visited, key=st_key):
                by_node.setdefault(nid, []).append(st)
            for (n, k) in sites:
                r.site(fn, n.ast, k.name)
                writeable = RO[k.qual] is not True
                if not writeable and MUT[k.qual] is False:
                    continue
                reported = set()
                for st in by_node.get(n.id, []):
                    (_vals, pf, guard) = st
                    subjects = {f[0] for f in pf}
                    imm = any(_pfx_may(pf, s_, "imm") for s_ in subjects)       # found, or one of a tuple test that
                    ro = any(_pfx_may(pf, s_, "ro") for s_ in subjects)         # held and was not told apart since
                    if not guard:
                        msg = "%s returns a %s %s on a path that never found a flag holding `not %s` true: a deep-immutable " \
                              "context%s is ignored" % (fn.name, "writeable" if writeable else "mutable", k.name, di,
                                                        " or an 'imm.'/'ro.' prefix" if writeable else " or an 'imm.' prefix")
                    elif imm:
                        msg = "%s returns a %s %s after the 'imm.' prefix was found: the flag guarding it was not cleared" % (
                            fn.name, "writeable" if writeable else "mutable", k.name)
                    elif ro and writeable:
                        msg = "%s returns a writeable %s after the 'ro.' prefix was found: the flag guarding it was not " \
                              "cleared" % (fn.name, k.name)
                    else:
                        continue
                    if msg not in reported:
                        reported.add(msg)
                        w = witness(cfg, parent, (n.id, st))
                        r.violation(k.qual, fn.loc(n.ast), "%s (path: %s)" % (msg, w.brief()), w)
            # both alleged prefixes are examined
            r.site(fn, None, "prefix tests")
            pts, can_find = set(), set()
            for n in cfg.nodes:
                pt = _prefix_test(F, fn, n, PREFIX)
                if pt is None:
                    continue
                pts |= set(pt[1])
                for st in by_node.get(n.id, []):                # on some path the test can still come out true
                    pf = _pfx_learn(st[1], pt[0], pt[1], True, DISJOINT)
                    if pf is not None:
                        can_find |= {nm for nm in pt[1] if _pfx_may(pf, pt[0], nm)}
            r.require({"imm", "ro"} <= pts, fn, fn.loc(), "%s does not test both alleged prefixes" % fn.name)
            if {"imm", "ro"} <= pts:
                lost = sorted(repr(PREFIX[nm]) for nm in {"imm", "ro"} - can_find)
                r.require(not lost, fn, fn.loc(), "%s tests the alleged prefix %s only where the tests before it have excluded "
                          "it: a cap carrying it is parsed as if it were not there" % (fn.name, " and ".join(lost)))

    # -- 6. UnknownNode ---------------------------------------------------------
    with ctx.rule("C16.6", "R3", "UnknownNode.__init__: rw_uri only where deep_immutable is false; every ro_uri stored "
                  "carries the prefix its context requires; strip_prefix_for_ro drops 'imm.' only in an immutable context; "
                  "rw_uri/ro_uri are written only by __init__", expected=7) as r:
        fn = idx.func("unknown:UnknownNode.__init__")
        cfg = fn.cfg()
        fnorm = FlowNorm(fn)
        if "deep_immutable" not in fn.params:
            raise AnchorVanished("UnknownNode.__init__ has no deep_immutable parameter")

        def di_edge(pol):
            def g(n, lab):
                f = fnorm.edge_fact(n, lab)
                return bool(f) and f[0] == pol and f[1] == "deep_immutable"
            return g

        def lacking(x, names, target):
            # paths to the store on which x was not found to carry one of `names` (a tuple test is "one of its members")
            return _paths_without_prefix(F, fn, cfg, target, x, names, PREFIX, DISJOINT)
        for n in cfg.find(stores("self.rw_uri")):
            v = assign_value(n, "self.rw_uri")
            if v is None or (isinstance(v, ast.Constant) and v.value is None):
                continue
            r.site(fn, n.ast, "rw_uri")
            r.count(len(cfg.nodes))
            for (t, w) in find_path_avoiding(cfg, lambda x, _n=n: x is _n, gate_edge=di_edge("false"), kill=stores("deep_immutable")):
                r.violation(fn, fn.loc(n.ast), "UnknownNode stores a write cap although deep_immutable may be true "
                            "(path: %s)" % w.brief(), w)
        n_ro = 0
        for n in cfg.find(stores("self.ro_uri")):
            v = n.ast.value if isinstance(n.ast, ast.Assign) else None
            if v is None or (isinstance(v, ast.Constant) and v.value is None):
                continue
            n_ro += 1
            r.site(fn, n.ast, "ro_uri")
            target = (lambda x, _n=n: x is _n)
            strength = None
            if isinstance(v, ast.BinOp) and isinstance(v.op, ast.Add):
                try:
                    lv = F.fold(v.left, fn.module, None)
                except NotConstant:
                    lv = None
                strength = "imm" if lv == PREFIX["imm"] else ("ro" if lv == PREFIX["ro"] else None)
            elif isinstance(v, ast.Name):
                if not lacking(v.id, ("imm",), target):
                    strength = "imm"
                elif not lacking(v.id, ("imm", "ro"), target):
                    strength = "ro"
            maybe_immutable = bool(find_path_avoiding(cfg, target, gate_edge=di_edge("false"), kill=stores("deep_immutable")))
            need = "imm" if maybe_immutable else "ro"
            ok = strength == "imm" or (strength == "ro" and need == "ro")
            r.require(ok, fn, fn.loc(n.ast), "UnknownNode stores ro_uri = %s which %s, but the context requires the %r prefix" % (
                src(fn, v), ("only carries %r" % PREFIX[strength]) if strength else "carries no alleged prefix", PREFIX[need]))
        if n_ro == 0:
            raise AnchorVanished("UnknownNode.__init__ stores no ro_uri")
        # who may write
        cg = get_callgraph(idx)
        for attr in ("rw_uri", "ro_uri"):
            for (f, nd) in cg.attr_stores(attr):
                if f.cls is not None and f.cls.name == "UnknownNode" and f.name != "__init__":
                    r.violation(f, f.loc(nd), "%s re-binds UnknownNode.%s" % (short(f), attr))
        # strip_prefix_for_ro
        sp = idx.func("unknown:strip_prefix_for_ro")
        r.site(sp)
        scfg = sp.cfg()
        snorm = FlowNorm(sp)
        sparams = first_positional_params(sp)
        if len(sparams) < 2:
            raise AnchorVanished("strip_prefix_for_ro(ro_uri, deep_immutable)")
        cut = norm_src("%s[len(ALLEGED_IMMUTABLE_PREFIX):]" % sparams[0])
        for n in scfg.find(is_return):
            v = n.ast.value
            got = snorm.norm(n, v) if v is not None else "None"
            strips_imm = False
            if isinstance(snorm.resolve(n, v), ast.Subscript):
                sl = snorm.resolve(n, v).slice
                try:
                    k = F.fold(sl.lower, sp.module, None) if isinstance(sl, ast.Slice) and sl.lower is not None else None
                except NotConstant:
                    k = None
                pt_paths = _paths_without_prefix(F, sp, scfg, lambda x, _n=n: x is _n, None, ("ro",), PREFIX, DISJOINT)
                # a slice that can be applied to a string starting with 'imm.' (i.e. not only behind the 'ro.' test)
                strips_imm = bool(pt_paths)
                if k is None:
                    strips_imm = True
            if strips_imm:
                def g(a, b):
                    f = snorm.edge_fact(a, b)
                    return bool(f) and f[0] == "truth" and f[1] == sparams[1]
                for (t, w) in find_path_avoiding(scfg, lambda x, _n=n: x is _n, gate_edge=g):
                    r.violation(sp, sp.loc(n.ast), "strip_prefix_for_ro returns %s, dropping the 'imm.' prefix, although the "
                                "context may be mutable (path: %s)" % (got, w.brief()), w)

    # -- 7. deep_immutable plumbing ----------------------------------------------
    with ctx.rule("C16.7", "R6", "deep_immutable reaches uri.from_string and UnknownNode unchanged from create_from_cap / "
                  "UnknownNode.__init__ / DirectoryNode._create_and_validate_node; the node cache key separates the contexts",
                  expected=5) as r:
        def passes(fn, tail, want_nf, what, positional=None, _depth=0):
            found = 0
            fnorm = FlowNorm(fn)
            for n in fn.cfg().nodes:
                for c in calls_at(n, tail) if n.kind in ("stmt", "test") else []:
                    a = kwarg(c, "deep_immutable")
                    if a is None and positional is not None and len(c.args) > positional:
                        a = c.args[positional]
                    if a is None:
                        # a call without the argument is acceptable only when it passes no cap at all
                        if all(isinstance(x, ast.Constant) and x.value is None for x in c.args) and not c.keywords:
                            continue
                        r.site(fn, c, what)
                        found += 1
                        r.violation(fn, fn.loc(c), "%s calls %s without deep_immutable: the context is lost" % (short(fn), tail))
                        continue
                    r.site(fn, c, what)
                    found += 1
                    got = fnorm.norm(n, a)
                    r.require(got == want_nf, fn, fn.loc(c), "%s passes deep_immutable=%s to %s (expected %s)" % (
                        short(fn), got, tail, want_nf))
            if not found and _depth < 3 and fn.cls is not None and isinstance(want_nf, str) and want_nf in fn.params:
                # the call was moved into a helper method of the same object: follow `self.m(..)` where the context is
                # handed on unchanged (positionally or by keyword) and look for the call there, under the helper's name for it
                for n in fn.cfg().nodes:
                    for c in (node_calls(n) if n.kind in ("stmt", "test") else []):
                        f = c.func
                        if not (isinstance(f, ast.Attribute) and isinstance(f.value, ast.Name) and f.value.id == "self"):
                            continue
                        tgt = fn.cls.lookup(f.attr)
                        if not isinstance(tgt, FuncInfo) or tgt is fn or not any(True for _c in calls_in_func(tgt, tail)):
                            continue
                        if any(isinstance(a, ast.Starred) for a in c.args) or any(kw.arg is None for kw in c.keywords):
                            raise AnalysisError("%s calls %s with */** arguments: cannot follow the context" % (fn.qual, tgt.name))
                        tps = first_positional_params(tgt)
                        if tps and tps[0] == "self" and not any(
                                isinstance(d, ast.Name) and d.id == "staticmethod" for d in tgt.node.decorator_list):
                            tps = tps[1:]
                        bound = [(tps[i] if i < len(tps) else None, a) for i, a in enumerate(c.args)]
                        bound += [(kw.arg, kw.value) for kw in c.keywords]
                        carries = [p_ for (p_, a) in bound if p_ is not None and fnorm.norm(n, a) == want_nf]
                        if len(carries) != 1:
                            r.site(fn, c, what)
                            found += 1
                            r.violation(fn, fn.loc(c), "%s calls its helper %s, which calls %s, without handing on %s unchanged: "
                                        "the context is lost" % (short(fn), tgt.name, tail, want_nf))
                            continue
                        passes(tgt, tail, carries[0], what, positional, _depth + 1)
                        found += 1
            if not found:
                raise AnchorVanished("%s no longer calls %s" % (fn.qual, tail))
        cfc = idx.func("nodemaker:NodeMaker.create_from_cap")
        passes(cfc, "from_string", "deep_immutable", "create_from_cap -> uri.from_string", positional=1)
        passes(cfc, "UnknownNode", "deep_immutable", "create_from_cap -> UnknownNode", positional=2)
        passes(idx.func("unknown:UnknownNode.__init__"), "from_string", "deep_immutable", "UnknownNode -> uri.from_string",
               positional=1)
        passes(idx.func("dirnode:DirectoryNode._create_and_validate_node"), "create_from_cap",
               norm_src("not self.is_mutable()"), "dirnode -> create_from_cap", positional=2)
        # cache key
        cfg = cfc.cfg()
        fnorm = FlowNorm(cfc)
        uses = []
        for n in cfg.nodes:
            for e in node_exprs(n) if n.kind in ("stmt", "test") else []:
                for x in own_nodes(e):
                    if isinstance(x, ast.Subscript) and attr_path(x.value) == "self._node_cache" and isinstance(x.slice, ast.Name):
                        uses.append((n, x.slice.id))
        if not uses:
            raise AnchorVanished("create_from_cap no longer uses self._node_cache[key]")
        r.site(cfc, None, "cache key")
        keys = {k for (_n, k) in uses}
        defs = def_exprs(cfc)
        for key in sorted(keys):
            vals = defs.get(key, [])
            if any("deep_immutable" in leaves(v) for v in vals) and len(vals) == 1:
                continue

            def under(pol, n):
                def g(a, b):
                    f = fnorm.edge_fact(a, b)
                    return bool(f) and f[0] == pol and f[1] == "deep_immutable"
                return not find_path_avoiding(cfg, lambda x: x is n, gate_edge=g)
            t_vals, f_vals, loose = set(), set(), []
            for n in cfg.find(stores(key)):
                v = n.ast.value if isinstance(n.ast, ast.Assign) else None
                nf = norm_plain(v) if v is not None else "?"
                if under("truth", n):
                    t_vals.add(nf)
                elif under("false", n):
                    f_vals.add(nf)
                else:
                    loose.append(nf)
            ok = t_vals and f_vals and not loose and not (t_vals & f_vals)
            r.require(bool(ok), cfc, cfc.loc(), "the node cache key %s does not separate the deep-immutable context from the "
                      "mutable one (%s / %s / %s): a node cached for one context is returned in the other" % (
                          key, sorted(t_vals), sorted(f_vals), loose))

    # -- 8. UnknownNode: an alleged read-only / immutable cap never sits in the write slot -----------------
    _uw = {}

    def unknown_walk():
        """Abstract interpretation of UnknownNode.__init__ shared by C16.8 / C16.11 / C16.12."""
        if "w" in _uw:
            return _uw["w"]
        fn = idx.func("unknown:UnknownNode.__init__")
        cfg = fn.cfg()
        plain = N()
        params = [p for p in fn.params if p != "self"]
        fs_fn = idx.func("uri:from_string")
        fs_u = first_positional_params(fs_fn)[0]
        unk_cls = idx.cls("uri:UnknownURI")

        def toks(vals, e):
            """Parameter values the expression may *be* (copies only; a derived string is a different cap)."""
            if isinstance(e, ast.Name):
                return vals.get(e.id, frozenset())
            if isinstance(e, ast.Attribute):
                return vals.get(attr_path(e) or "", frozenset())
            if isinstance(e, ast.BoolOp):
                out = frozenset()
                for v in e.values:
                    out |= toks(vals, v)
                return out
            if isinstance(e, ast.IfExp):
                return toks(vals, e.body) | toks(vals, e.orelse)
            if isinstance(e, ast.NamedExpr):
                return toks(vals, e.value)
            if isinstance(e, ast.Call):
                # the parse of a given cap, and the error of that parse, are values of their own: "parse(t)", "error(t)"
                if call_tail(e) == "from_string" and idx.resolve_expr(fn.module, e.func) in (fs_fn, None):
                    a = arg(e, 0, fs_u)
                    return frozenset("parse(%s)" % t for t in (toks(vals, a) if a is not None else ()) if "(" not in t)
                if call_tail(e) == "get_error" and isinstance(e.func, ast.Attribute) and not e.args and not e.keywords:
                    return frozenset("error(%s)" % t[6:-1] for t in toks(vals, e.func.value) if t.startswith("parse("))
            return frozenset()

        def bind(vals, t, v, new):
            if isinstance(t, (ast.Tuple, ast.List)):
                if isinstance(v, (ast.Tuple, ast.List)) and len(v.elts) == len(t.elts):
                    for tt, vv in zip(t.elts, v.elts):
                        bind(vals, tt, vv, new)
                else:
                    for tt in t.elts:
                        bind(vals, tt, None, new)
                return
            p = t.id if isinstance(t, ast.Name) else attr_path(t)
            if p:
                new[p] = toks(vals, v) if v is not None else frozenset()

        def add_fact(facts, f):
            (k, kind, pol) = f
            if (k, kind, not pol) in facts:
                return None
            return facts | {f}

        def transfer(n, lab, nxt, st):
            vals_t, facts = st
            vals = dict(vals_t)
            if n.kind == "test" and isinstance(lab, tuple) and lab[0] in ("T", "F"):
                pol = lab[0] == "T"
                pt = _prefix_test(F, fn, n, PREFIX)
                subj = kind = None
                if pt is not None:
                    # `X.startswith((P, Q))`: one of them on the true edge, neither on the false edge (_pfx_learn)
                    who = vals.get(pt[0], frozenset())
                    if len(who) == 1:
                        facts = _pfx_learn(facts, next(iter(who)), pt[1], pol, DISJOINT)
                        if facts is None:
                            return None         # contradicts what this path already established
                        if pol:
                            facts = add_fact(facts, (next(iter(who)), "truth", True))
                            if facts is None:
                                return None
                else:
                    f = plain.cmp(n.ast, pol)
                    c = n.ast
                    if isinstance(c, ast.Call) and call_name(c) == "isinstance" and len(c.args) == 2 \
                            and idx.resolve_expr(fn.module, c.args[1]) is unk_cls:
                        subj, kind = toks(vals, c.args[0]), "unknown"       # the parse gave / did not give an UnknownURI
                    elif f and f[0] in ("truth", "false") and isinstance(n.ast, (ast.Name, ast.Attribute, ast.Call)):
                        subj, kind = toks(vals, n.ast), "truth"
                    elif f and f[0] == "is" and "None" in f[1:] and isinstance(n.ast, ast.Compare) \
                            and isinstance(n.ast.left, (ast.Name, ast.Attribute)):
                        subj, kind, pol = toks(vals, n.ast.left), "truth", False      # `x is None` holds on this edge
                if subj is not None and len(subj) == 1:
                    facts = add_fact(facts, (next(iter(subj)), kind, pol))
                    if facts is None:
                        return None         # contradicts what this path already established
                    if kind != "truth" and pol:
                        facts = add_fact(facts, (next(iter(subj)), "truth", True))
                        if facts is None:
                            return None
            elif n.kind == "stmt" and isinstance(n.ast, (ast.Assign, ast.AnnAssign, ast.AugAssign)):
                new = {}
                if isinstance(n.ast, ast.Assign):
                    for t in n.ast.targets:
                        bind(vals, t, n.ast.value, new)
                elif isinstance(n.ast, ast.AnnAssign):
                    bind(vals, n.ast.target, n.ast.value, new)
                else:
                    bind(vals, n.ast.target, None, new)
                vals.update(new)
            elif n.kind in ("iter", "with", "except") or (n.kind == "stmt" and isinstance(n.ast, ast.Delete)):
                for s_ in node_stores(n):
                    vals[s_] = frozenset()
            return (tuple(sorted((k, v) for k, v in vals.items() if v)), facts)

        init = (tuple(sorted((p, frozenset([p])) for p in params)), frozenset())
        visited, parent = explore(cfg, init, transfer)
        _uw["w"] = (fn, cfg, toks, visited, parent)
        return _uw["w"]

    with ctx.rule("C16.8", "R3", "UnknownNode.__init__: a cap that the path taken found to carry the 'ro.'/'imm.' prefix is "
                  "never stored in rw_uri; the same cap value never ends up in both rw_uri and ro_uri; a non-empty rw_uri is "
                  "never paired with a ro_uri found to be alleged-immutable", expected=2) as r:
        (fn, cfg, toks, visited, parent) = unknown_walk()
        SLOTS = ("self.rw_uri", "self.ro_uri")
        r.count(len(visited))
        n_store = 0
        rw_nodes = [n for n in cfg.find(stores("self.rw_uri"))
                    if not (isinstance(getattr(n.ast, "value", None), ast.Constant) and n.ast.value.value is None)]
        for n in rw_nodes:
            n_store += 1
            r.site(fn, n.ast, "rw_uri store")
        if not n_store:
            raise AnchorVanished("UnknownNode.__init__ stores no rw_uri")
        r.site(fn, None, "slots on return")
        reported = set()
        for (nid, st) in sorted(visited, key=lambda x: (x[0], str(x[1]))):
            n = cfg.nodes[nid]
            vals, facts = dict(st[0]), st[1]
            if n in rw_nodes and isinstance(n.ast, (ast.Assign, ast.AnnAssign)) and n.ast.value is not None:
                for t in sorted(toks(vals, n.ast.value)):
                    for kind in ("imm", "ro"):
                        if _pfx_may(facts, t, kind) and ("A", nid, t) not in reported:
                            reported.add(("A", nid, t))
                            w = witness(cfg, parent, (nid, st))
                            r.violation(fn, fn.loc(n.ast), "UnknownNode stores %s in rw_uri on a path that found this cap (given "
                                        "as %s) to carry the alleged %r prefix: an alleged read-only/immutable cap is kept as "
                                        "the node's write cap (path: %s)" % (src(fn, n.ast.value), t, PREFIX[kind], w.brief()), w)
            if n is cfg.exit:
                rw, ro = vals.get(SLOTS[0], frozenset()), vals.get(SLOTS[1], frozenset())
                both = sorted(rw & ro)
                if both and "B" not in reported:
                    reported.add("B")
                    w = witness(cfg, parent, (nid, st))
                    r.violation(fn, fn.loc(), "UnknownNode ends with the same cap (given as %s) in both rw_uri and ro_uri: the "
                                "cap handed out as read-only is the write cap, or an alleged read-only cap is kept as write cap "
                                "(path: %s)" % (", ".join(both), w.brief(20)), w)
                for t in sorted(rw):
                    if (t, "truth", True) not in facts:
                        continue
                    for t2 in sorted(ro):
                        if t2 != t and _pfx_may(facts, t2, "imm") and "C" not in reported:
                            reported.add("C")
                            w = witness(cfg, parent, (nid, st))
                            r.violation(fn, fn.loc(), "UnknownNode ends with a write cap (%s) next to a ro_uri (%s) found to "
                                        "carry the alleged-immutable prefix: an object alleged immutable is given write "
                                        "authority (path: %s)" % (t, t2, w.brief(20)), w)

    # -- 11./12. UnknownNode: what may be stored in ro_uri ------------------------------------------------
    def ro_stores():
        """[(node, state, value expr, base cap tokens the value is made from)] for every reachable non-None ro_uri store."""
        (fn, cfg, toks, visited, parent) = unknown_walk()
        nodes = [n for n in cfg.find(stores("self.ro_uri")) if isinstance(n.ast, (ast.Assign, ast.AnnAssign))
                 and n.ast.value is not None and not (isinstance(n.ast.value, ast.Constant) and n.ast.value.value is None)]
        if not nodes:
            raise AnchorVanished("UnknownNode.__init__ stores no ro_uri")
        out = []
        for (nid, st) in sorted(visited, key=lambda x: (x[0], str(x[1]))):
            n = cfg.nodes[nid]
            if n not in nodes:
                continue
            vals = dict(st[0])
            made = set()
            for x in ast.walk(n.ast.value):
                if isinstance(x, (ast.Name, ast.Attribute)):
                    made |= {t for t in toks(vals, x) if "(" not in t}
            out.append((n, (nid, st), n.ast.value, sorted(made)))
        return fn, cfg, parent, nodes, out

    with ctx.rule("C16.11", "R3", "UnknownNode.__init__: a given cap (or a string made from it) is stored in ro_uri only on paths "
                  "that passed it through uri.from_string and found no refusal (the parse is not an UnknownURI, or its "
                  "get_error() is false)", expected=5) as r:
        fn, cfg, parent, nodes, hits = ro_stores()
        for n in nodes:
            r.site(fn, n.ast, "ro_uri store")
        r.count(len(hits))
        reported = set()
        for (n, ps, v, made) in hits:
            facts = ps[1][1]
            for t in made:
                ok = ("error(%s)" % t, "truth", False) in facts or ("parse(%s)" % t, "unknown", False) in facts
                if not ok and (n.id, t) not in reported:
                    reported.add((n.id, t))
                    w = witness(cfg, parent, ps)
                    why = "found an error in its parse" if ("error(%s)" % t, "truth", True) in facts else \
                        "never looked at the error of uri.from_string(%s, deep_immutable)" % t
                    r.violation(fn, fn.loc(n.ast), "UnknownNode stores ro_uri = %s on a path that %s: a cap that from_string "
                                "refuses in this context (a write cap behind 'ro.', a mutable cap behind 'imm.' or in a "
                                "deep-immutable directory) is kept and handed out as the node's read-only cap (path: %s)" % (
                                    src(fn, v), why, w.brief(20)), w)

    with ctx.rule("C16.12", "R3", "UnknownNode.__init__: the cap given in the write slot reaches ro_uri (as it is or inside a "
                  "longer string) only on paths that found it to carry the 'ro.' or 'imm.' prefix", expected=5) as r:
        fn, cfg, parent, nodes, hits = ro_stores()
        (_fn, _cfg, toks, visited, _parent) = unknown_walk()
        rw_toks = set()
        for (nid, st) in visited:
            n = cfg.nodes[nid]
            if stores("self.rw_uri")(n) and isinstance(n.ast, (ast.Assign, ast.AnnAssign)) and n.ast.value is not None:
                rw_toks |= {t for t in toks(dict(st[0]), n.ast.value) if "(" not in t}
        if not rw_toks:
            raise AnchorVanished("UnknownNode.__init__ stores none of its parameters in rw_uri")
        for n in nodes:
            r.site(fn, n.ast, "ro_uri store")
        r.count(len(hits))
        reported = set()
        for (n, ps, v, made) in hits:
            facts = ps[1][1]
            for t in made:
                if t in rw_toks and not _pfx_found(facts, t, ("ro", "imm")) and (n.id, t) not in reported:
                    reported.add((n.id, t))
                    w = witness(cfg, parent, ps)
                    r.violation(fn, fn.loc(n.ast), "UnknownNode stores ro_uri = %s, made from the cap given as %s (the write "
                                "slot), on a path that did not find an 'ro.'/'imm.' prefix on it: a possible write cap is "
                                "published as the node's read-only cap (path: %s)" % (src(fn, v), t, w.brief(20)), w)

    # -- 9. from_string's result is a function of this call's context ------------------------------------
    with ctx.rule("C16.9", "R6", "every value uri.from_string may return is produced by this call's context-guarded parse "
                  "(K.init_from_string / UnknownURI, directly or through helpers given deep_immutable unchanged); a value "
                  "remembered across calls is looked up and stored under a key that includes the context", expected=20) as r:
        pw = parse_walk()
        if pw.by_value:
            sc_check(r, "leaves")
        for (fn, n, what) in pw.leaves:
            r.site(fn, n.ast, what)
        r.count(len(pw.leaves))
        for (fn, n, msg) in pw.lost:
            r.violation(fn, fn.loc(n.ast), msg + ": a cap parsed in an ordinary context is handed to a caller that asked for "
                        "a deep-immutable interpretation")

    # -- 10. a refused cap is reported as refused ---------------------------------------------------------
    with ctx.rule("C16.10", "R3", "from_string (and helpers): once a recognised kind was refused (its prefix test held and "
                  "can_be_writeable/can_be_mutable was found false) every return gives an UnknownURI whose error is set: "
                  "UnknownNode and the node maker drop the cap only when the error says so", expected=1) as r:
        pw = parse_walk()
        unk = idx.cls("uri:UnknownURI")
        n_refusals = sc_check(r, "refusal") if pw.by_value else 0
        gated = sorted({fn.qual for (fn, di, n, k, call) in pw.sites if RO[k.qual] is not True or MUT[k.qual] is not False})
        for q in gated:
            (fn, di) = pw.funcs[q]
            cfg = fn.cfg()
            fnorm = FlowNorm(fn)
            FLAGS = _flag_locals(fn, di)        # by role (what they are bound to), not by name

            def kind_test(n, fn=fn):
                """A test `x.startswith(<constant bytes>)` (or a tuple of them) that is not about the alleged prefixes."""
                return _kind_members(F, fn, n, PREFIX) is not None

            def transfer(n, lab, nxt, st, fnorm=fnorm, kind_test=kind_test, FLAGS=FLAGS):
                # a refusal = "this kind's prefix test held" and "the flag is false" established next to each other, i.e.
                # with no other kind test in between (in either order: `K and not flag`, `not flag and K`, nested ifs)
                pending, refused, nones = st
                if n.kind == "test" and isinstance(lab, tuple):
                    f = fnorm.edge_fact(n, lab)
                    if kind_test(n):
                        if lab[0] == "T":
                            refused = refused or pending == "flag"
                            pending = "kind"
                        else:
                            pending = None
                    elif f and f[0] == "false" and f[1] in FLAGS:
                        refused = refused or pending == "kind"
                        pending = pending or "flag"
                stored = node_stores(n)
                if stored:
                    a = n.ast
                    val = a.value if (n.kind == "stmt" and isinstance(a, (ast.Assign, ast.AnnAssign))) else False
                    is_none = val is None or (isinstance(val, ast.Constant) and val.value is None) \
                        or (isinstance(val, ast.Name) and val.id in nones)
                    plain_t = [x for x in stored if "." not in x and not x.endswith("[]")]
                    nones = (nones | frozenset(plain_t)) if (is_none and val is not False) else (nones - frozenset(plain_t))
                return (pending, refused, nones)

            visited, parent = explore(cfg, (None, False, frozenset()), transfer)
            r.count(len(visited))
            reported = set()
            seen = set()
            for (nid, st) in sorted(visited, key=lambda x: (x[0], str(x[1]))):
                n = cfg.nodes[nid]
                if not is_return(n) or not st[1]:
                    continue
                if nid not in seen:
                    seen.add(nid)
                    n_refusals += 1
                    r.site(fn, n.ast, "return after a refusal")
                v = n.ast.value
                rv = fnorm.resolve(n, v) if v is not None else None
                what = None
                if rv is None or (isinstance(rv, ast.Constant) and rv.value is None):
                    what = "returns None"
                elif isinstance(rv, ast.Call) and idx.resolve_expr(fn.module, rv.func) is unk:
                    err = [a for (p, a) in _ctor_pairs(idx, unk, rv) if p == "error"]
                    e = err[0] if err else None
                    if e is None or (isinstance(e, ast.Constant) and e.value is None):
                        what = "returns %s, an UnknownURI without error" % src(fn, rv)
                    elif isinstance(e, ast.Name) and e.id in st[2]:
                        what = "returns %s where %s is still None" % (src(fn, rv), e.id)
                if what and nid not in reported:
                    reported.add(nid)
                    w = witness(cfg, parent, (nid, st))
                    r.violation(fn, fn.loc(n.ast), "%s %s after a recognised kind was refused because of an 'ro.'/'imm.' prefix "
                                "or the deep-immutable context: the refusal is not reported, UnknownNode keeps the cap (a write "
                                "cap behind 'ro.', a mutable cap behind 'imm.') as an acceptable read-only/immutable one "
                                "(path: %s)" % (fn.name, what, w.brief(12)), w)
        if not n_refusals:
            raise AnchorVanished("no return of from_string is reached after a refused kind (prefix test held, flag false)")

    # -- 13. the dispatch examines the cap without the alleged prefix that was found ----------------------
    with ctx.rule("C16.13", "R3", "from_string (and helpers): on every path from a successful 'imm.'/'ro.' prefix test to the "
                  "first kind test, the string the kind tests examine was re-bound to the tested string minus exactly that "
                  "prefix: otherwise a prefixed write/mutable cap is not recognised and comes back as an error-less "
                  "UnknownURI instead of a refusal", expected=2) as r:
        pw = parse_walk()
        n_pt = 0
        if pw.by_value:
            sc_check(r, "cut")
            n_pt = len(PREFIX)
        NO_PREFIX = ("-",)
        for q in sorted(pw.funcs):
            (fn, di) = pw.funcs[q]
            cfg = fn.cfg()
            pts = {n.id: _prefix_test(F, fn, n, PREFIX) for n in cfg.nodes}
            pts = {k: v for k, v in pts.items() if v is not None}
            if not pts:
                continue

            def kind_subject(n, fn=fn):
                if _kind_members(F, fn, n, PREFIX) is not None and isinstance(n.ast.func.value, ast.Name):
                    return n.ast.func.value.id
                return None

            def transfer(n, lab, nxt, st, fn=fn, pts=pts, kind_subject=kind_subject):
                # st: NO_PREFIX or (tested var, which prefixes it may be, frozenset of (var, status)) - status of every
                # variable re-bound since: 'cut' = tested string minus that prefix, 'miscut' = another slice of it, '?' other.
                # `X.startswith((P, Q))` leaves both candidates on its true edge; a later test of the same (not re-bound)
                # string narrows them: true edge -> its members, false edge -> the others.
                if kind_subject(n) is not None:
                    return None                 # examined on arrival at the first kind test
                if n.id in pts and isinstance(lab, tuple) and lab[0] in ("T", "F"):
                    (pv, names) = pts[n.id]
                    same = st != NO_PREFIX and st[0] == pv and dict(st[2]).get(pv) is None
                    if lab[0] == "T":
                        cands = (set(names) & set(st[1])) if same else set(names)
                        if not cands:
                            return None         # contradicts the prefix tests already passed
                        return (pv, tuple(sorted(cands)), st[2] if same else frozenset())
                    if same:
                        cands = set(st[1]) - set(names)
                        if not cands:
                            return None
                        st = (pv, tuple(sorted(cands)), st[2])
                if st == NO_PREFIX:
                    return st
                (var, which, bound) = st
                b = dict(bound)
                if n.kind == "stmt" and isinstance(n.ast, ast.Assign) and len(n.ast.targets) == 1 \
                        and isinstance(n.ast.targets[0], ast.Name):
                    t, v = n.ast.targets[0].id, n.ast.value
                    status = "?"
                    if isinstance(v, ast.Subscript) and isinstance(v.value, ast.Name) and isinstance(v.slice, ast.Slice) \
                            and v.value.id == var and b.get(var) is None:
                        sl = v.slice
                        try:
                            lo = F.fold(sl.lower, fn.module, None) if sl.lower is not None else 0
                        except NotConstant:
                            lo = None
                        if lo is not None:
                            status = "cut" if (all(lo == len(PREFIX[c]) for c in which) and sl.upper is None
                                               and sl.step is None) else "miscut"
                    elif isinstance(v, ast.Name) and (v.id in b or v.id == var):
                        status = b.get(v.id, "whole")
                    b[t] = status
                else:
                    for x in node_stores(n):
                        if "." not in x and not x.endswith("[]"):
                            b[x] = "?"
                return (var, which, frozenset(b.items()))

            visited, parent = explore(cfg, NO_PREFIX, transfer)
            r.count(len(visited))
            for nid in sorted(pts):
                n_pt += 1
                r.site(fn, cfg.nodes[nid].ast, "%s prefix test" % "/".join(repr(PREFIX[c]) for c in pts[nid][1]))
            reported = set()
            for (nid, st) in sorted(visited, key=lambda x: (x[0], str(x[1]))):
                n = cfg.nodes[nid]
                subj = kind_subject(n)
                if subj is None or st == NO_PREFIX:
                    continue
                (var, which, bound) = st
                status = dict(bound).get(subj, "whole" if subj == var else "?")
                if status == "cut" or (nid, which) in reported:
                    continue
                found = " or ".join(repr(PREFIX[c]) for c in which)
                if status == "?":
                    raise AnalysisError("%s: cannot tell what %s holds at the kind tests after the %s prefix was found" % (
                        fn.qual, subj, found))
                reported.add((nid, which))
                w = witness(cfg, parent, (nid, st))
                r.violation(fn, fn.loc(n.ast), "%s found the alleged prefix %s on %s but its kind tests examine %s, which %s: a "
                            "write or mutable cap behind the prefix is not recognised, so it is not refused but returned as an "
                            "UnknownURI without error and kept by UnknownNode (path: %s)" % (
                                fn.name, found, var, subj, "still carries the prefix" if status == "whole"
                                else "is not that string minus exactly the prefix", w.brief(12)), w)
        if not n_pt:
            raise AnchorVanished("no 'imm.'/'ro.' prefix test in from_string or its helpers")

    # -- 14./15. create_from_cap: the given cap strings stay whole -----------------------------------------
    # The alleged prefix is part of the cap *string*; uri.from_string and UnknownNode can honour it only if they
    # are handed the string as it was given, and a node remembered across calls may be returned only for the very
    # string (and context) it was parsed from.
    _cw = {}

    def cap_flow():
        if "w" not in _cw:
            fn = idx.func("nodemaker:NodeMaker.create_from_cap")
            ps = first_positional_params(fn)
            if len(ps) < 2:
                raise AnchorVanished("create_from_cap(writecap, readcap, ..) signature changed")
            _cw["w"] = _CapFlow(fn, ps[:2], idx)
        return _cw["w"]

    with ctx.rule("C16.14", "R6", "create_from_cap: every key under which a node is looked up or remembered in a container "
                  "that outlives the call is an injective function (the string itself, constant +, tuple member, copies) of "
                  "exactly the string handed to uri.from_string - never a part or a transformation of it: otherwise a cap "
                  "with an alleged 'ro.'/'imm.' prefix shares the entry of the bare cap and the prefix is never examined",
                  expected=2) as r:
        cf = cap_flow()
        fn, cfg = cf.fn, cf.cfg
        parses = cf.parse_args(idx)
        parse_ids = {cf.vid(n, a) for (n, c, a) in parses}
        uses = cf.container_uses()
        stored = {path for (n, path, key, x, is_store) in uses if is_store}
        uses = [u for u in uses if u[1] in stored]
        if not uses:
            raise AnchorVanished("create_from_cap no longer keeps nodes in a container keyed by the cap")
        for path in sorted(stored):
            for g in idx.funcs.values():
                if g.module is fn.module and g is not fn and g.name != "__init__":
                    for x in func_own_nodes(g):
                        if isinstance(x, ast.Subscript) and isinstance(x.ctx, (ast.Store, ast.Del)) and attr_path(x.value) == path:
                            raise AnalysisError("%s is also written by %s: cannot follow its keys" % (path, g.qual))
        for (n, path, key, x, is_store) in uses:
            r.site(fn, x, "%s %s[..]" % ("store into" if is_store else "lookup in", path))
            res = cf.inj(n, key)
            r.count(res["steps"])
            what = "%s %s[%s]" % ("remembers a node in" if is_store else "looks a node up in", path, src(fn, key))
            if res["lossy"]:
                for (dn, e, why) in res["lossy"]:
                    r.violation(fn, fn.loc(e), "create_from_cap %s, a key made from %s, which is %s the cap string and not the "
                                "string that is parsed: two caps that differ only in that part (an alleged 'ro.'/'imm.' prefix "
                                "and the bare cap) share one entry, so the node remembered for the bare cap - writeable, "
                                "mutable - is returned for the prefixed one without uri.from_string ever seeing the prefix" % (
                                    what, src(fn, e), why))
                continue
            if res["unknown"]:
                (dn, e) = res["unknown"][0]
                raise AnalysisError("create_from_cap %s: cannot tell whether %s keeps the whole cap string" % (
                    what, src(fn, e)))
            ids = {v for (v, dn, e) in res["leaves"]}
            if not ids:
                r.violation(fn, fn.loc(x), "create_from_cap %s, a key that does not contain the cap string that is parsed: a "
                            "node remembered for one cap is returned for another" % what)
            elif not ids <= parse_ids:
                r.violation(fn, fn.loc(x), "create_from_cap %s, a key made from %s while the string parsed is %s: the node "
                            "remembered under the key was not made from the string the key stands for" % (
                                what, ", ".join(sorted({src(fn, e) for (v, dn, e) in res["leaves"] if v not in parse_ids})),
                                ", ".join(sorted({src(fn, a) for (_n, _c, a) in parses}))))

    with ctx.rule("C16.15", "R6", "create_from_cap: the string handed to uri.from_string is one of the given caps itself and "
                  "UnknownNode receives (writecap, readcap) themselves, in their slots - never a string derived from them, "
                  "which would have lost (or gained) the alleged prefix the callee must examine", expected=3) as r:
        cf = cap_flow()
        fn = cf.fn
        wc, rc = cf.caps
        for (n, c, a) in cf.parse_args(idx):
            r.site(fn, c, "uri.from_string argument")
            srcs, derived = cf.copies(n, a)
            r.count(len(srcs) + len(derived))
            for (dn, e) in derived:
                r.violation(fn, fn.loc(e), "create_from_cap parses %s, which may be %s and not a given cap itself: "
                            "uri.from_string decides from the string's 'imm.'/'ro.' prefix whether the cap may be writeable or "
                            "mutable, so it must see the string as it was given" % (src(fn, a), src(fn, e)))
            bad = sorted(srcs - {wc, rc, "None"})
            r.require(not bad and (derived or srcs & {wc, rc}), fn, fn.loc(c), "create_from_cap parses %s, which is %s, not the "
                      "given writecap/readcap" % (src(fn, a), ", ".join(bad) or "no given cap"))
        un_init = idx.func("unknown:UnknownNode.__init__")
        ups = first_positional_params(un_init)
        if len(ups) < 2:
            raise AnchorVanished("UnknownNode.__init__(given_rw_uri, given_ro_uri, ..) signature changed")
        n_un = 0
        for n in cf.cfg.nodes:
            for c in calls_at(n, "UnknownNode") if n.kind in ("stmt", "test") else []:
                n_un += 1
                r.site(fn, c, "UnknownNode slots")
                if any(isinstance(a, ast.Starred) for a in c.args) or any(kw.arg is None for kw in c.keywords):
                    raise AnalysisError("UnknownNode is called with */** arguments in create_from_cap")
                for (pos, pname, allowed, slot) in ((0, ups[0], wc, "write"), (1, ups[1], rc, "read")):
                    a = arg(c, pos, pname)
                    if a is None:
                        r.violation(fn, fn.loc(c), "UnknownNode is not given its %s slot" % slot)
                        continue
                    srcs, derived = cf.copies(n, a)
                    r.count(len(srcs) + len(derived))
                    for (dn, e) in derived:
                        r.violation(fn, fn.loc(e), "create_from_cap gives UnknownNode %s in the %s slot, which may be %s and not "
                                    "the given %s itself: UnknownNode decides from the 'ro.'/'imm.' prefix of the strings it is "
                                    "given which of them may be kept as a write cap" % (src(fn, a), slot, src(fn, e), allowed))
                    bad = sorted(srcs - {allowed, "None"})
                    r.require(not bad, fn, fn.loc(c), "create_from_cap gives UnknownNode %s (%s) in the %s slot instead of %s: %s" % (
                        src(fn, a), ", ".join(bad), slot, allowed,
                        "a cap that grants no write authority is reported as the node's write cap" if slot == "write" else
                        "a cap of the write slot is published as the node's read-only cap"))
        if not n_un:
            raise AnchorVanished("create_from_cap no longer builds an UnknownNode")

    # -- 16. a second entry into the kind dispatch sees what the first one established -----------------------
    # from_string (and every helper it returns through) decides writeable / mutable from exactly two inputs: the
    # deep_immutable context and the alleged prefix at the front of the string it is given.  A helper - or from_string
    # itself, called again - is given the context unchanged (C16.9) and C16.5 is then decided inside it, from scratch.
    # That is sound only if the string handed on still carries the prefix this call has found and cut off: a retry /
    # fallback that re-parses the already-cut string (or anything made from it) starts again with
    # can_be_writeable = can_be_mutable = not deep_immutable, and 'ro.' + <encoded writecap> comes back writeable.
    with ctx.rule("C16.16", "R3", "from_string (and helpers): on every path on which an alleged 'imm.'/'ro.' prefix was "
                  "found, a helper or recursive call whose result is returned (a second entry into the kind dispatch, "
                  "given only deep_immutable) is handed the very string the prefix was found on, whole - never the "
                  "string cut behind the prefix or a value made from the cut string: the narrowed flags do not travel "
                  "with the call, so the constraint would be lost on the retry", expected=2) as r:
        pw = parse_walk()
        calls_by_fn = {}
        for (fn, di, n, e, tgt, tdi) in pw.reentries:
            calls_by_fn.setdefault(fn.qual, []).append((n, e, tgt, tdi))
        n_pt = 0
        if pw.by_value:
            sc_check(r, "leaves")       # helper / recursive calls are executed in place with the string they are given
            n_pt = len(PREFIX)

        def cap_params(tgt, tdi):
            """The parameters of a parse function that reach the strings its prefix / kind tests examine (None: it has
            no such test of its own - it only passes the string on)."""
            subj = set()
            for tn in tgt.cfg().nodes:
                pt = _prefix_test(F, tgt, tn, PREFIX)
                if pt is not None:
                    subj.add(pt[0])
                elif _kind_members(F, tgt, tn, PREFIX) is not None and isinstance(tn.ast.func.value, ast.Name):
                    subj.add(tn.ast.func.value.id)
            deps = set()
            for x in subj:
                deps |= depends_on(tgt, ast.Name(id=x, ctx=ast.Load()))
            ps = [p for p in first_positional_params(tgt) if p != tdi and p in deps]
            return ps or None

        for q in sorted(pw.funcs):
            (fn, di) = pw.funcs[q]
            cfg = fn.cfg()
            pts = {n.id: _prefix_test(F, fn, n, PREFIX) for n in cfg.nodes}
            pts = {k: v for k, v in pts.items() if v is not None}
            for nid in sorted(pts):
                n_pt += 1
                r.site(fn, cfg.nodes[nid].ast, "%s prefix test" % "/".join(repr(PREFIX[c]) for c in pts[nid][1]))
            calls = calls_by_fn.get(q, [])
            if not pts or not calls:
                continue

            # Values, path by path.  Every local made from a parameter is (vid, cuts, vias): vid names the value (copies
            # share it), cuts = the values it was made from by dropping their front (a slice [k:], k > 0, removeprefix)
            # possibly followed by anything else, vias = the values it was made from in any other way.  Prefix facts
            # (_pfx_learn) are kept per value, so they survive the re-binding of the tested variable.
            def desc(env, e, nid, fn=fn):
                if isinstance(e, ast.Name):
                    return env.get(e.id)
                if isinstance(e, ast.NamedExpr):
                    return desc(env, e.value, nid)
                cut_of = None
                if isinstance(e, ast.Subscript) and isinstance(e.slice, ast.Slice) and e.slice.lower is not None \
                        and e.slice.step is None:
                    try:
                        lo = F.fold(e.slice.lower, fn.module, None)
                    except NotConstant:
                        lo = None
                    if isinstance(lo, int) and lo > 0:
                        cut_of = e.value
                elif isinstance(e, ast.Call) and isinstance(e.func, ast.Attribute) and e.func.attr == "removeprefix" \
                        and len(e.args) == 1 and not e.keywords:
                    try:
                        pv = F.fold(e.args[0], fn.module, None)
                    except NotConstant:
                        pv = None
                    if isinstance(pv, bytes) and pv:
                        cut_of = e.func.value
                vid = "d:%s:%s" % (nid, norm_plain(e))
                if cut_of is not None:
                    d = desc(env, cut_of, nid)
                    if d is None:
                        return None
                    return (vid, d[1] | {d[0]}, d[2])
                ops = [env[x.id] for x in own_nodes(e) if isinstance(x, ast.Name) and x.id in env]
                if not ops:
                    return None
                cuts, vias = frozenset(), frozenset()
                for d in ops:
                    cuts |= d[1]
                    vias |= d[2] | {d[0]}
                if isinstance(e, ast.BinOp) and isinstance(e.op, ast.Add):
                    # an alleged prefix put (back) in front: no longer "the string without its prefix"
                    for o in (e.left, e.right):
                        try:
                            ov = F.fold(o, fn.module, None)
                        except NotConstant:
                            continue
                        if isinstance(ov, bytes) and any(ov.startswith(pv) for pv in PREFIX.values()):
                            cuts, vias = frozenset(), vias | cuts
                return (vid, cuts, vias)

            def transfer(n, lab, nxt, st, fn=fn, pts=pts, desc=desc):
                env_t, facts = st
                if n.id in pts and isinstance(lab, tuple) and lab[0] in ("T", "F"):
                    (pv, names) = pts[n.id]
                    d = dict(env_t).get(pv)
                    if d is not None:
                        facts = _pfx_learn(facts, d[0], names, lab[0] == "T", DISJOINT)
                        if facts is None:
                            return None
                stored = [x for x in node_stores(n) if "." not in x and not x.endswith("[]")]
                if stored:
                    env = dict(env_t)
                    new = {}

                    def bind(t, v):
                        if isinstance(t, ast.Name):
                            new[t.id] = desc(env, v, n.id) if v is not None else None
                        elif isinstance(t, (ast.Tuple, ast.List)) and isinstance(v, (ast.Tuple, ast.List)) \
                                and len(t.elts) == len(v.elts):
                            for tt, vv in zip(t.elts, v.elts):
                                bind(tt, vv)
                    if n.kind == "stmt" and isinstance(n.ast, (ast.Assign, ast.AnnAssign)) and n.ast.value is not None:
                        for t in (n.ast.targets if isinstance(n.ast, ast.Assign) else [n.ast.target]):
                            bind(t, n.ast.value)
                    for x in stored:
                        if x in new:
                            d = new[x]
                        else:
                            # bound some other way (loop target, `with .. as`, +=, walrus): made from whatever the node reads
                            ops = [env[y.id] for e_ in node_exprs(n) for y in own_nodes(e_)
                                   if isinstance(y, ast.Name) and y.id in env]
                            d = None
                            if ops:
                                cuts, vias = frozenset(), frozenset()
                                for o in ops:
                                    cuts |= o[1]
                                    vias |= o[2] | {o[0]}
                                d = ("d:%s:%s" % (n.id, x), cuts, vias)
                        if d is None:
                            env.pop(x, None)
                        else:
                            env[x] = d
                    env_t = tuple(sorted(env.items()))
                return (env_t, facts)

            init = (tuple(sorted((p, ("p:" + p, frozenset(), frozenset())) for p in fn.params if p != di)), frozenset())
            visited, parent = explore(cfg, init, transfer)
            r.count(len(visited))
            by_node = {}
            for (nid, st) in sorted(visited, key=lambda x: (x[0], str(x[1][0]), _pfx_key(x[1][1]))):
                by_node.setdefault(nid, []).append(st)
            reported = set()
            for (n, e, tgt, tdi) in calls:
                if any(isinstance(a, ast.Starred) for a in e.args) or any(kw.arg is None for kw in e.keywords):
                    raise AnalysisError("%s calls %s with */** arguments" % (fn.qual, tgt.name))
                tps = first_positional_params(tgt)
                bound = [(tps[i] if i < len(tps) else None, a) for i, a in enumerate(e.args)]
                bound += [(kw.arg, kw.value) for kw in e.keywords]
                cps = cap_params(tgt, tdi)
                args = [(p_, a) for (p_, a) in bound if p_ != tdi and (cps is None or p_ in cps)]
                for st in by_node.get(n.id, []):
                    (env_t, facts) = st
                    env = dict(env_t)
                    found = {}
                    for (v, k, pol) in facts:
                        if pol:
                            found.setdefault(v, set()).update(k if isinstance(k, frozenset) else {k})
                    for V in sorted(found):
                        which = " or ".join(repr(PREFIX[c]) for c in sorted(found[V]))
                        holders = sorted(x for x, d in env.items() if d[0] == V)
                        rels = []
                        for (p_, a) in args:
                            d = desc(env, a, n.id)
                            if d is None:
                                rels.append(("none", p_, a))
                            elif d[0] == V:
                                rels.append(("whole", p_, a))
                            elif V in d[1]:
                                rels.append(("cut", p_, a))
                            elif V in d[2]:
                                rels.append(("via", p_, a))
                            else:
                                rels.append(("none", p_, a))
                        if cps is None:
                            rels = [x for x in rels if x[0] != "none"]      # the callee only passes its arguments on
                        cut = [x for x in rels if x[0] == "cut"]
                        if cut:
                            (_k, p_, a) = cut[0]
                            key = (n.id, which, src(fn, a))
                            if key in reported:
                                continue
                            reported.add(key)
                            w = witness(cfg, parent, (n.id, st))
                            r.violation(fn, fn.loc(e), "%s found the alleged prefix %s on %s and then returns %s, a second "
                                        "parse of %s - a value made from that string with the prefix already cut off - while "
                                        "%s is given only the %s context: it starts again with writeable/mutable allowed, so "
                                        "the read-only / immutable constraint the prefix established is lost and a write cap "
                                        "behind the prefix comes back as a writeable cap object instead of a refusal; a "
                                        "(re-)entry into the dispatch must be given the string as it was tested (path: %s)" % (
                                            fn.name, which, "/".join(holders) or "the given string", src(fn, e), src(fn, a),
                                            tgt.name, di, w.brief(14)), w)
                        elif any(x[0] == "whole" for x in rels):
                            continue
                        else:
                            via = [x for x in rels if x[0] == "via"]
                            raise AnalysisError("%s found the alleged prefix %s and then returns %s: cannot tell whether %s "
                                                "still carries that prefix" % (
                                                    fn.qual, which, src(fn, e),
                                                    src(fn, via[0][2]) if via else "any argument of the call"))
        if not n_pt:
            raise AnchorVanished("no 'imm.'/'ro.' prefix test in from_string or its helpers")

    # -- 17. no prefix branch / table row raises a permission relative to the context ----------------------
    # Whatever the shape of the dispatch (if-chain, table of rows, dict, helpers): for every cap class, every alleged
    # prefix and both contexts, the class from_string accepts must be one the context allows.
    with ctx.rule("C16.17", "R3", "from_string executed abstractly on <none|'imm.'|'ro.'> + <BASE_STRING of each of the 18 "
                  "cap classes | no known kind> with deep_immutable False / True (helpers executed in place, module-level "
                  "tables folded, loops over them unrolled): a writeable class is accepted only with deep_immutable false "
                  "and no alleged prefix, a mutable read-only class only with deep_immutable false and no 'imm.' - no "
                  "prefix branch or table row may raise a permission the context has ruled out; every outcome is a parse "
                  "of a cap class or an UnknownURI", expected=57) as r:
        sc_check(r, "perm")
