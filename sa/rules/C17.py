"""C17 Key and secret derivations match the specification.

Every function of util/hashutil.py is folded, by a bounded symbolic interpreter
over its AST, to a *derivation descriptor*: a term over the function's
parameters built from  literal bytes | concatenation | netstring(.) |
sha256(.) | sha1(.) | x[:n] | %-format.  The descriptor is compared with

 (i)  what the specification spells out, read from /repo on every run
      (docs/specifications/lease.rst, file-encoding.rst, uri.rst and the
      reference implementation docs/specifications/derive_renewal_secret.py,
      which is folded by the same interpreter and whose published test vectors
      are evaluated on the folded descriptor of the *code's* chain with
      hashlib), and
 (ii) a compat-frozen table for the derivations the documents only describe in
      prose.  Each frozen entry says which bytes on disk / on the wire change
      when the entry changes - the only reason a frozen entry is legitimate.

The derivation chains at the call sites (client.py, immutable/upload.py,
mutable/filenode.py, mutable/common.py, uri.py, dirnode.py, mutable/publish.py
and retrieve.py) are checked as term trees over the hashutil functions with
normalised leaves.
"""
from sa.h import *
from sa.index import Module

import base64
import hashlib

EXPLANATION = (
    "Decided: (1) the primitives: netstring(s) is '<decimal len>:<s>,'; the SHA-256d hasher returns "
    "sha256(sha256(everything fed to it)) with truncation applied last; tagged_hash(tag,val,t) = "
    "SHA256d(netstring(tag)+val)[:t]; tagged_pair_hash netstrings tag and both values; (2) the seven derivations "
    "whose tag and construction are spelled out in docs/specifications (six lease-secret hashes from lease.rst - "
    "including the historical (secret, tag) argument order of the client secrets - and the CHK storage index from "
    "file-encoding.rst/uri.rst) fold to exactly the documented term; (3) every other derivation in hashutil.py "
    "folds to its entry in a compat-frozen table (tag bytes, argument order, netstring wrapping, truncation); "
    "(4) the lease.rst chain, the reference implementation derive_renewal_secret.py and the composition of the "
    "three hashutil functions are the same term, and that term evaluates (hashlib, independent of allmydata) to "
    "the published test vectors; (5) the call sites feed the chains with the documented inputs: lease secret from "
    "private/secret, storage index of the file, the server's lease seed, and the results travel unswapped to "
    "allocate_buckets (upload) and add_lease (checker); write enabler from writekey and the foolscap write-enabler seed; writekey->readkey->"
    "storage index in the SSK/MDMF caps, key->storage index in CHK caps; derive_mutable_keys; dirnode child-cap "
    "key/salt and the mutable data key are derived identically by writer and reader; the convergent key is fed "
    "(k, n, segsize, convergence secret) in the order the tag formats them; the AES objects of mutable "
    "publish/retrieve are keyed with the derived data key, the stored salt is the salt that was hashed and the read "
    "key comes from the node's cap; the uploader's storage index is the stored storage_index_hash(key); the lease "
    "secrets go to the server whose seed was hashed (allocate_buckets / add_lease receivers) under the storage index "
    "that was hashed, and the mutable slot writer of a server is given (write enabler, renew, cancel) of that server "
    "in wire order; (6) the folded descriptors reproduce "
    "the 25 known-answer vectors recorded in test_hashutil.py when evaluated with hashlib; (7) the convergent key is "
    "the digest of the convergence hasher and every block read from the uploadable's file handle is fed to that "
    "hasher (CFG monitor: no block is dropped before the next read or before digest(), and some execution feeds it); "
    "(8) every function of hashutil.py (and netstring) is a function of its own arguments: interpreted in a history of "
    "calls that share the module's state (dict tables, globals, hash objects kept there - aliasing of hash objects and "
    ".copy() are modelled), the same call gives the same term as on fresh state when it is repeated, after each argument "
    "was changed in turn and for every truncation - so no hasher stored in module state is fed after it was stored, a "
    "remembered state is copied before it is resumed and no memo key leaves an argument out. "
    "Undecided (8): histories longer than the one interpreted (a cache that misbehaves only when it overflows or evicts), "
    "state kept outside hashutil.py/netstring.py by the callers, containers other than dicts (exit 2), thread interleavings. "
    "Undecided: SHA-256/AES themselves, the values of runtime inputs (server seeds, RSA DER encodings), "
    "base32 arithmetic; the input-validation guards and asserts of the derivation helpers (lengths of seeds, k/n "
    "ranges - they only raise); the position of the file cursor when the convergent pass starts (f.seek(0)) and the "
    "block size; the MAC appended to encrypted child write caps (no longer verified by any reader) and the "
    "ciphertext slice [16:-32] of the dirnode reader (layout, not derivation); which encoding parameters are chosen "
    "(only that the chosen tuple is what the key is fed); server selection and status reporting in the anchored "
    "upload/checker functions.")
TECHNIQUE = ("static analysis: symbolic folding of hashutil.py to derivation terms, compared with terms parsed from "
             "the specification documents and a compat-frozen table; call-site chains as normalised term trees; the same "
             "interpreter run over a history of calls sharing module state (hash-object aliasing modelled) for history independence")

HU = "allmydata.util.hashutil"


# ======================================================================= terms
class T(tuple):
    """A symbolic byte-string term (distinct from python tuples of values)."""
    __slots__ = ()


def P(i):
    return T(("P", i))


DATA = T(("DATA",))


def cat(*ts):
    out = []
    for t in ts:
        parts = t[1] if (isinstance(t, T) and t[0] == "cat") else (t,)
        for p in parts:
            if isinstance(p, bytes):
                if p == b"":
                    continue
                if out and isinstance(out[-1], bytes):
                    out[-1] = out[-1] + p
                    continue
            elif not isinstance(p, T):
                raise Unsupported("concatenation of non-bytes value %r" % (p,))
            out.append(p)
    if not out:
        return b""
    if len(out) == 1:
        return out[0]
    return T(("cat", tuple(out)))


def dec(t):
    """ASCII decimal representation of an integer-valued term."""
    if isinstance(t, int) and not isinstance(t, (T, bool)):
        return b"%d" % t
    return T(("dec", t))


def length(t):
    return len(t) if isinstance(t, bytes) else T(("len", t))


def ns(t):
    """netstring(t) is not a node of its own: it is the concatenation <decimal length> ":" t "," so that any
    spelling of the same bytes has the same normal form."""
    return cat(dec(length(t)), b":", t, b",")


def sha(algo, t):
    return T((algo, t))


def sl(t, n):
    if n is None:
        return t
    if isinstance(t, bytes):
        return t[:n]
    return T(("slice", t, n))


def D(x, t=None):
    """SHA-256d with truncation applied last."""
    return sl(sha("sha256", sha("sha256", x)), t)


def TH(tag, val, t=None):
    return D(cat(ns(tag), val), t)


def TPH(tag, a, b, t=None):
    return D(cat(ns(tag), ns(a), ns(b)), t)


def fmt(tpl, args):
    """bytes %-format as a concatenation: literals, %d -> dec(arg), %s -> arg."""
    toks = percent_tokens(tpl)
    args = list(args)
    if sum(1 for k, _ in toks if k == "conv") != len(args):
        raise Unsupported("format %r with %d arguments" % (tpl, len(args)))
    out = []
    for k, v in toks:
        if k == "lit":
            out.append(v.encode("latin-1"))
            continue
        a = args.pop(0)
        if v == "d" and (isinstance(a, T) or (isinstance(a, int) and not isinstance(a, bool))):
            out.append(dec(a))
        elif v == "s" and isinstance(a, (bytes, T)):
            out.append(a)
        else:
            out.append(T(("fmt1", v, a)))
    return cat(*out)


def show(t) -> str:
    if isinstance(t, bytes):
        return '"%s"' % t.decode("latin-1").encode("unicode_escape").decode("ascii")
    if not isinstance(t, T):
        return repr(t)
    k = t[0]
    if k == "P":
        return "arg%d" % t[1]
    if k == "DATA":
        return "<data fed to the hasher>"
    if k == "S":
        return "<%s>" % t[1]
    if k == "cat":
        parts, out, i = t[1], [], 0
        while i < len(parts):
            p = parts[i]
            # re-sugar  dec(len(x)) ":" x ","...  as netstring(x)
            if isinstance(p, T) and p[0] == "dec" and isinstance(p[1], T) and p[1][0] == "len" and i + 3 < len(parts) + 0 \
                    and parts[i + 1] == b":" and parts[i + 2] == p[1][1] and isinstance(parts[i + 3], bytes) \
                    and parts[i + 3].startswith(b","):
                out.append("netstring(%s)" % show(p[1][1]))
                rest = parts[i + 3][1:]
                if rest:
                    out.append(show(rest))
                i += 4
                continue
            out.append(show(p))
            i += 1
        return " + ".join(out)
    if k == "dec":
        return "decimal(%s)" % show(t[1])
    if k == "fmt1":
        return "(%%%s %% %s)" % (t[1], show(t[2]))
    if k == "sha256" and isinstance(t[1], T) and t[1][0] == "sha256":
        return "SHA256d(%s)" % show(t[1][1])
    if k in ("sha256", "sha1"):
        return "%s(%s)" % (k, show(t[1]))
    if k == "slice":
        return "%s[:%d]" % (show(t[1]), t[2])
    if k == "len":
        return "len(%s)" % show(t[1])
    if k == "opaque":
        return "%s(%s)" % (t[1], ", ".join(show(a) for a in t[2]))
    return repr(tuple(t))


def subst(t, env):
    """Replace P(i)/S(name) leaves by env[...] (terms or bytes)."""
    if not isinstance(t, T):
        return t
    k = t[0]
    if k == "P":
        return env.get(t[1], t)
    if k == "S":
        return env.get(t[1], t)
    if k == "DATA":
        return env.get("DATA", t)
    if k == "cat":
        return cat(*[subst(x, env) for x in t[1]])
    if k == "dec":
        return dec(subst(t[1], env))
    if k == "fmt1":
        return T(("fmt1", t[1], subst(t[2], env)))
    if k in ("sha256", "sha1"):
        return sha(k, subst(t[1], env))
    if k == "slice":
        return sl(subst(t[1], env), t[2])
    if k == "len":
        return length(subst(t[1], env))
    if k == "opaque":
        return T(("opaque", t[1], tuple(subst(a, env) for a in t[2])))
    raise AnalysisError("unknown term %r" % (t,))


def conc(t, env) -> bytes:
    """Evaluate a closed term with hashlib (independent of allmydata)."""
    v = subst(t, env)

    def ev(x):
        if isinstance(x, (bytes, int)) and not isinstance(x, T):
            return x
        k = x[0]
        if k == "cat":
            return b"".join(ev(y) for y in x[1])
        if k == "dec":
            return str(int(ev(x[1]))).encode("ascii")
        if k == "sha256":
            return hashlib.sha256(ev(x[1])).digest()
        if k == "sha1":
            return hashlib.sha1(ev(x[1])).digest()
        if k == "slice":
            return ev(x[1])[:x[2]]
        if k == "len":
            return len(ev(x[1]))
        raise AnalysisError("term is not closed: %s" % show(x))
    return ev(v)


# ================================================================ interpreter
class Unsupported(Exception):
    pass


class _Ret(Exception):
    def __init__(self, v):
        self.v = v


class _Unknown:
    def __repr__(self):
        return "<symbolic truth value>"


UNKNOWN = _Unknown()


class Obj:
    def __init__(self, cls):
        self.cls = cls
        self.attrs = {}


class Bound:
    def __init__(self, obj, fn):
        self.obj = obj
        self.fn = fn


class HashObj:
    """hashlib.sha256()/sha1() object."""

    def __init__(self, algo, parts):
        self.algo = algo
        self.parts = list(parts)


class SpecHasher:
    """The specified SHA-256d hasher (used as a summary of _SHA256d_Hasher once rule C17.1 has examined it)."""

    def __init__(self, truncate_to=None):
        if isinstance(truncate_to, T):
            raise Unsupported("symbolic truncation length")
        self.parts = []
        self.trunc = truncate_to or None


class BMeth:
    def __init__(self, obj, name):
        self.obj = obj
        self.name = name


class MDict:
    """A dict that lives in module state (a cache / memo table of the module under interpretation).  It is shared by
    every call made on the same Sym, so that a *history* of calls can be interpreted.  Keys are constants, terms and
    tuples of them, compared structurally: distinct parameter symbols stand for distinct byte strings."""

    def __init__(self, where):
        self.where = where
        self.d = {}

    def __len__(self):
        return len(self.d)

    def __bool__(self):
        return bool(self.d)


class _PyExc(Unsupported):
    """A python exception of the interpreted code that the code itself may catch (KeyError of a cache lookup); not
    caught there, it ends the folding like anything else the interpreter does not model."""

    def __init__(self, name):
        Unsupported.__init__(self, "the code raises %s" % name)
        self.name = name


class Ext:
    def __init__(self, dotted):
        self.dotted = dotted


class Builtin:
    def __init__(self, name):
        self.name = name


_BUILTINS = {"len", "bytes", "int", "isinstance", "bool", "str", "repr", "type", "dict"}
_GLOBALS = "\0global names"        # key of a function environment: the names its `global` statements declare
_DICT_MAKERS = {"dict", "OrderedDict", "WeakValueDictionary"}


def _makes_state(e):
    """A module-level initialiser that builds a mutable object (dict display, call) rather than a constant."""
    if isinstance(e, ast.Dict):
        return True
    if isinstance(e, ast.Call):
        p = attr_path(e.func) or ""
        return p.split(".")[-1] in _DICT_MAKERS or p in ("hashlib.sha256", "hashlib.sha1", "sha256", "sha1") \
            or p.split(".")[-1].endswith("Hasher")
    return False
_CONST = (bytes, int, str, type(None), bool, float)


def is_const(v):
    return isinstance(v, _CONST) and not isinstance(v, T)


class Sym:
    """Bounded symbolic interpreter for the straight-line derivation code of hashutil (assignments, calls,
    returns, asserts ignored, `if <input check>: raise` ignored, hasher objects).  Anything else is
    Unsupported and makes the rule fail closed."""

    MAX_STEPS = 20000

    def __init__(self, idx, summaries=None):
        self.idx = idx
        self.folder = get_folder(idx)
        self.summ = summaries or {}
        self.steps = 0
        self.guards = []
        self.modstate = {}      # (module name, variable) -> value kept across the calls made on this Sym

    # -- calls
    def call(self, fn: FuncInfo, args, kwargs=None, selfobj=None):
        kwargs = dict(kwargs or {})
        if selfobj is None and fn.qual in self.summ:
            return self.summ[fn.qual](*args, **kwargs)
        a = fn.node.args
        if a.vararg or a.kwarg:
            raise Unsupported("varargs in %s" % fn.qual)
        names = [x.arg for x in list(getattr(a, "posonlyargs", [])) + list(a.args)]
        defaults = [None] * (len(names) - len(a.defaults)) + list(a.defaults)
        env = {}
        if selfobj is not None:
            env[names[0]] = selfobj
            names, defaults = names[1:], defaults[1:]
        if len(args) > len(names):
            raise Unsupported("too many arguments for %s" % fn.qual)
        for i, nm in enumerate(names):
            if i < len(args):
                env[nm] = args[i]
            elif nm in kwargs:
                env[nm] = kwargs.pop(nm)
            elif defaults[i] is not None:
                env[nm] = self.expr(defaults[i], {}, fn.module)
            else:
                raise Unsupported("missing argument %s of %s" % (nm, fn.qual))
        for k, d in zip(a.kwonlyargs, a.kw_defaults):
            if k.arg in kwargs:
                env[k.arg] = kwargs.pop(k.arg)
            elif d is not None:
                env[k.arg] = self.expr(d, {}, fn.module)
        if kwargs:
            raise Unsupported("unexpected keyword %s for %s" % (sorted(kwargs), fn.qual))
        try:
            self.block(fn.node.body, env, fn.module)
        except _Ret as r:
            return r.v
        return None

    def call_pkg(self, fn, args, kwargs):
        try:
            return self.call(fn, args, kwargs)
        except _PyExc:
            raise
        except Unsupported:
            if fn.qual not in self.summ and all(is_const(a) or isinstance(a, T) for a in args) and not kwargs:
                return T(("opaque", fn.name, tuple(args)))
            raise

    def instantiate(self, ci: ClassInfo, args, kwargs):
        if ci.qual in self.summ:
            return self.summ[ci.qual](*args, **kwargs)
        o = Obj(ci)
        init = ci.lookup("__init__")
        if init is not None:
            self.call(init, args, kwargs, selfobj=o)
        return o

    # -- statements
    def tick(self):
        self.steps += 1
        if self.steps > self.MAX_STEPS:
            raise Unsupported("step limit")

    def block(self, stmts, env, m):
        for st in stmts:
            self.stmt(st, env, m)

    def stmt(self, st, env, m):
        self.tick()
        if isinstance(st, ast.Expr):
            if isinstance(st.value, ast.Constant):
                return
            self.expr(st.value, env, m)
        elif isinstance(st, ast.Assign):
            v = self.expr(st.value, env, m)
            for t in st.targets:
                self.assign(t, v, env, m)
        elif isinstance(st, ast.AnnAssign) and st.value is not None:
            self.assign(st.target, self.expr(st.value, env, m), env, m)
        elif isinstance(st, ast.AugAssign):
            cur = self.expr(st.target, env, m)
            v = self.binop(st.op, cur, self.expr(st.value, env, m))
            self.assign(st.target, v, env, m)
        elif isinstance(st, ast.Return):
            raise _Ret(self.expr(st.value, env, m) if st.value is not None else None)
        elif isinstance(st, ast.Assert):
            return          # input checks; not part of the derivation
        elif isinstance(st, ast.Pass):
            return
        elif isinstance(st, ast.Delete):
            for t in st.targets:
                if isinstance(t, ast.Name):
                    env.pop(t.id, None)
                elif isinstance(t, ast.Attribute):
                    o = self.expr(t.value, env, m)
                    if isinstance(o, Obj):
                        o.attrs.pop(t.attr, None)
                elif isinstance(t, ast.Subscript) and isinstance(self.expr(t.value, env, m), MDict):
                    o = self.expr(t.value, env, m)
                    k = self.key(self.expr(t.slice, env, m))
                    if k not in o.d:
                        raise _PyExc("KeyError")
                    del o.d[k]
                else:
                    raise Unsupported("del target")
        elif isinstance(st, ast.Global):
            env.setdefault(_GLOBALS, set()).update(st.names)
        elif isinstance(st, ast.Try) and not getattr(st, "finalbody", None):
            try:
                self.block(st.body, env, m)
            except _PyExc as ex:
                for h in st.handlers:
                    names = []
                    if h.type is not None:
                        names = [attr_path(x) or "?" for x in (h.type.elts if isinstance(h.type, ast.Tuple) else [h.type])]
                    if h.type is None or any(nm.split(".")[-1] in (ex.name, "LookupError", "Exception", "BaseException")
                                             for nm in names):
                        if h.name:
                            raise Unsupported("except ... as %s" % h.name)
                        self.block(h.body, env, m)
                        break
                else:
                    raise
            else:
                self.block(st.orelse, env, m)
        elif isinstance(st, ast.If):
            c = self.expr(st.test, env, m)
            if c is UNKNOWN or isinstance(c, T):
                if not st.orelse and all(isinstance(x, ast.Raise) for x in st.body):
                    self.guards.append(st)      # `if <check on the inputs>: raise` - not part of the derivation
                    return
                raise Unsupported("the derivation branches on an input: if %s" % ast.unparse(st.test))
            self.block(st.body if c else st.orelse, env, m)
        else:
            raise Unsupported("statement %s" % type(st).__name__)

    def key(self, k):
        """A dict key of the interpreted code: constants, terms, tuples of them (compared structurally)."""
        if isinstance(k, T) or is_const(k):
            return k
        if isinstance(k, tuple):
            return tuple(self.key(x) for x in k)
        raise Unsupported("dict key %r" % (k,))

    def assign(self, t, v, env, m):
        if isinstance(t, ast.Name):
            if t.id in env.get(_GLOBALS, ()):
                self.modstate[(m.name, t.id)] = v
            else:
                env[t.id] = v
        elif isinstance(t, ast.Subscript) and isinstance(self.expr(t.value, env, m), MDict):
            self.expr(t.value, env, m).d[self.key(self.expr(t.slice, env, m))] = v
        elif isinstance(t, ast.Attribute):
            o = self.expr(t.value, env, m)
            if not isinstance(o, Obj):
                raise Unsupported("attribute store on %r" % (o,))
            o.attrs[t.attr] = v
        elif isinstance(t, (ast.Tuple, ast.List)) and isinstance(v, tuple) and not isinstance(v, T) \
                and len(v) == len(t.elts):
            for tt, vv in zip(t.elts, v):
                self.assign(tt, vv, env, m)
        else:
            raise Unsupported("assignment target %s" % type(t).__name__)

    # -- expressions
    def name(self, nm, env, m):
        if nm in env and nm not in env.get(_GLOBALS, ()):
            return env[nm]
        if (m.name, nm) in self.modstate:
            return self.modstate[(m.name, nm)]
        if nm in m.funcs:
            return m.funcs[nm]
        if nm in m.classes:
            return m.classes[nm]
        if nm in m.assigns:
            vs = m.assigns[nm]
            if len(vs) == 1 and _makes_state(vs[0]):
                # module state (a cache table, a shared hasher): one object for the whole history interpreted on this Sym
                self.modstate[(m.name, nm)] = None      # a self-referential initialiser does not recurse
                v = self.modstate[(m.name, nm)] = self.expr(vs[0], {}, m)
                if isinstance(v, MDict):
                    v.where = "%s.%s" % (m.name, nm)
                return v
            try:
                return self.folder.name(nm, m, None)
            except NotConstant as e:
                raise Unsupported("module constant %s.%s does not fold: %s" % (m.name, nm, e))
        if nm in m.imports:
            tgt = m.imports[nm]
            r = self.idx.resolve_dotted(tgt)
            if r is not None:
                return r
            mod, _, n2 = tgt.rpartition(".")
            m2 = self.idx.modules.get(mod)
            if m2 is not None:
                try:
                    return self.folder.name(n2, m2, None)
                except NotConstant as e:
                    raise Unsupported("%s does not fold: %s" % (tgt, e))
            return Ext(tgt)
        if nm in _BUILTINS:
            return Builtin(nm)
        raise Unsupported("unbound name %s" % nm)

    def binop(self, op, l, r):
        if isinstance(op, ast.Add):
            if isinstance(l, (bytes, T)) and isinstance(r, (bytes, T)):
                return cat(l, r)
            if is_const(l) and is_const(r):
                return l + r
        elif isinstance(op, ast.Mod):
            if isinstance(l, bytes):
                args = list(r) if (isinstance(r, tuple) and not isinstance(r, T)) else [r]
                return fmt(l, args)
            if is_const(l) and is_const(r):
                return l % r
        elif is_const(l) and is_const(r) and not isinstance(l, (bytes, str)):
            fn = {ast.Sub: lambda a, b: a - b, ast.Mult: lambda a, b: a * b, ast.FloorDiv: lambda a, b: a // b,
                  ast.Pow: lambda a, b: a ** b}.get(type(op))
            if fn is not None:
                return fn(l, r)
        elif isinstance(op, ast.Mult) and isinstance(l, bytes) and isinstance(r, int) and not isinstance(r, T):
            return l * r
        raise Unsupported("operator %s on %r, %r" % (type(op).__name__, l, r))

    def expr(self, e, env, m):
        self.tick()
        if isinstance(e, ast.Constant):
            return e.value
        if isinstance(e, ast.Name):
            return self.name(e.id, env, m)
        if isinstance(e, ast.Tuple):
            return tuple(self.expr(x, env, m) for x in e.elts)
        if isinstance(e, ast.Dict):
            if any(k is None for k in e.keys):
                raise Unsupported("** in a dict display")
            d = MDict("a dict")
            for k, v in zip(e.keys, e.values):
                d.d[self.key(self.expr(k, env, m))] = self.expr(v, env, m)
            return d
        if isinstance(e, ast.BinOp):
            return self.binop(e.op, self.expr(e.left, env, m), self.expr(e.right, env, m))
        if isinstance(e, ast.Attribute):
            o = self.expr(e.value, env, m)
            if isinstance(o, Obj):
                if e.attr in o.attrs:
                    return o.attrs[e.attr]
                f = o.cls.lookup(e.attr)
                if f is not None:
                    return Bound(o, f)
                raise Unsupported("attribute %s of a %s instance is not set" % (e.attr, o.cls.name))
            if isinstance(o, (HashObj, SpecHasher, MDict)):
                return BMeth(o, e.attr)
            if isinstance(o, Ext):
                return Ext(o.dotted + "." + e.attr)
            if isinstance(o, Module):
                return self.name(e.attr, {}, o)
            if isinstance(o, ClassInfo):
                f = o.lookup(e.attr)
                if f is not None:
                    return f
            raise Unsupported("attribute %s of %r" % (e.attr, o))
        if isinstance(e, ast.Subscript):
            v = self.expr(e.value, env, m)
            s = e.slice
            if isinstance(v, MDict) and not isinstance(s, ast.Slice):
                k = self.key(self.expr(s, env, m))
                if k not in v.d:
                    raise _PyExc("KeyError")
                return v.d[k]
            if isinstance(v, tuple) and not isinstance(v, T) and not isinstance(s, ast.Slice):
                i = self.expr(s, env, m)
                if isinstance(i, int) and not isinstance(i, (T, bool)) and -len(v) <= i < len(v):
                    return v[i]
            if isinstance(s, ast.Slice) and s.lower is None and s.step is None and s.upper is not None:
                n = self.expr(s.upper, env, m)
                if isinstance(n, int) and not isinstance(n, (T, bool)) and isinstance(v, (bytes, T)):
                    return sl(v, n)
            raise Unsupported("subscript %s" % ast.unparse(e))
        if isinstance(e, ast.Compare):
            vals = [self.expr(e.left, env, m)] + [self.expr(c, env, m) for c in e.comparators]
            if len(vals) == 2 and isinstance(e.ops[0], (ast.In, ast.NotIn)) and isinstance(vals[1], MDict):
                return (self.key(vals[0]) in vals[1].d) == isinstance(e.ops[0], ast.In)
            if len(vals) == 2 and isinstance(e.ops[0], (ast.Is, ast.IsNot)) and any(v is None for v in vals) \
                    and any(isinstance(v, (T, Obj, HashObj, SpecHasher, MDict)) for v in vals):
                return isinstance(e.ops[0], ast.IsNot)      # a byte string / object is never None
            if any(isinstance(v, T) or v is UNKNOWN for v in vals):
                return UNKNOWN
            l = vals[0]
            for op, r in zip(e.ops, vals[1:]):
                if isinstance(op, (ast.Is, ast.IsNot)):
                    ok = (l is r) if isinstance(op, ast.Is) else (l is not r)
                elif is_const(l) and is_const(r):
                    ok = {ast.Eq: lambda a, b: a == b, ast.NotEq: lambda a, b: a != b, ast.Lt: lambda a, b: a < b,
                          ast.LtE: lambda a, b: a <= b, ast.Gt: lambda a, b: a > b,
                          ast.GtE: lambda a, b: a >= b}[type(op)](l, r)
                else:
                    return UNKNOWN
                if not ok:
                    return False
                l = r
            return True
        if isinstance(e, ast.BoolOp):
            unknown = False
            for x in e.values:
                v = self.expr(x, env, m)
                if v is UNKNOWN or isinstance(v, T):
                    unknown = True
                    continue
                if isinstance(e.op, ast.And) and not v:
                    return v
                if isinstance(e.op, ast.Or) and v:
                    return v
            return UNKNOWN if unknown else (True if isinstance(e.op, ast.And) else False)
        if isinstance(e, ast.UnaryOp) and isinstance(e.op, ast.Not):
            v = self.expr(e.operand, env, m)
            return UNKNOWN if (v is UNKNOWN or isinstance(v, T)) else (not v)
        if isinstance(e, ast.Call):
            return self.callexpr(e, env, m)
        raise Unsupported("expression %s" % type(e).__name__)

    def callexpr(self, e, env, m):
        f = self.expr(e.func, env, m)
        args = [self.expr(a, env, m) for a in e.args]
        if any(k.arg is None for k in e.keywords):
            raise Unsupported("**kwargs")
        kwargs = {k.arg: self.expr(k.value, env, m) for k in e.keywords}
        if isinstance(f, FuncInfo):
            return self.call_pkg(f, args, kwargs)
        if isinstance(f, ClassInfo):
            return self.instantiate(f, args, kwargs)
        if isinstance(f, Bound):
            return self.call(f.fn, args, kwargs, selfobj=f.obj)
        if isinstance(f, BMeth) and isinstance(f.obj, MDict):
            return self.dictmeth(f.obj, f.name, args, kwargs)
        if isinstance(f, BMeth):
            o = f.obj
            if f.name == "copy" and not args and not kwargs:
                # a copy is a new object with the same state: feeding it leaves the original alone
                if isinstance(o, HashObj):
                    return HashObj(o.algo, o.parts)
                c = SpecHasher(o.trunc)
                c.parts = list(o.parts)
                return c
            if f.name == "update" and len(args) == 1 and not kwargs:
                if not isinstance(args[0], (bytes, T)):
                    raise Unsupported("hasher.update(%r)" % (args[0],))
                o.parts.append(args[0])
                return None
            if f.name == "digest" and not args and not kwargs:
                if isinstance(o, HashObj):
                    return sha(o.algo, cat(*o.parts))
                return D(cat(*o.parts), o.trunc)
            raise Unsupported("hash object method %s" % f.name)
        if isinstance(f, Ext):
            if f.dotted in ("hashlib.sha256", "hashlib.sha1") and len(args) <= 1 and not kwargs:
                return HashObj(f.dotted.split(".")[1], args)
            if f.dotted == "os.urandom":
                return T(("opaque", "os.urandom", tuple(args)))
            if f.dotted.split(".")[-1] in _DICT_MAKERS and not args and not kwargs:
                return MDict("a dict")
            if f.dotted in ("copy.copy", "copy.deepcopy") and len(args) == 1 and not kwargs:
                return self.copyof(args[0], f.dotted == "copy.deepcopy")
            raise Unsupported("call of %s" % f.dotted)
        if isinstance(f, Builtin):
            if f.name == "dict" and not args and not kwargs:
                return MDict("a dict")
            if f.name == "len" and len(args) == 1:
                if isinstance(args[0], MDict):
                    return len(args[0])
                if isinstance(args[0], (bytes, T)):
                    return length(args[0])
            if f.name == "bytes" and len(args) == 1 and isinstance(args[0], (bytes, T)):
                return args[0]
            if f.name == "isinstance":
                return UNKNOWN
            if f.name == "int" and len(args) == 1 and is_const(args[0]):
                return int(args[0])
            if f.name == "bool" and len(args) == 1:
                return UNKNOWN if (isinstance(args[0], T) or args[0] is UNKNOWN) else bool(args[0])
        raise Unsupported("call %s" % ast.unparse(e.func))


def _sym_dictmeth(self, o, name, args, kwargs):
    if kwargs and not (name == "popitem" and set(kwargs) == {"last"}):
        raise Unsupported("dict.%s with keywords" % name)
    if name in ("get", "pop", "setdefault") and 1 <= len(args) <= 2:
        k = self.key(args[0])
        if k in o.d:
            return o.d.pop(k) if name == "pop" else o.d[k]
        if name == "pop" and len(args) == 1:
            raise _PyExc("KeyError")
        dflt = args[1] if len(args) == 2 else None
        if name == "setdefault":
            o.d[k] = dflt
        return dflt
    if name == "clear" and not args:
        o.d.clear()
        return None
    if name == "__contains__" and len(args) == 1:
        return self.key(args[0]) in o.d
    if name == "__getitem__" and len(args) == 1:
        k = self.key(args[0])
        if k not in o.d:
            raise _PyExc("KeyError")
        return o.d[k]
    if name == "__setitem__" and len(args) == 2:
        o.d[self.key(args[0])] = args[1]
        return None
    if name == "move_to_end" and 1 <= len(args) <= 2:
        k = self.key(args[0])
        if k not in o.d:
            raise _PyExc("KeyError")
        v = o.d.pop(k)
        if len(args) == 2 and args[1] is False:
            o.d = dict([(k, v)] + list(o.d.items()))
        else:
            o.d[k] = v
        return None
    if name == "popitem" and len(args) <= 1:
        last = kwargs.get("last", args[0] if args else True)
        if not o.d:
            raise _PyExc("KeyError")
        k = list(o.d)[-1 if last else 0]
        return (k, o.d.pop(k))
    raise Unsupported("dict method %s" % name)


def _sym_copyof(self, v, deep):
    if isinstance(v, HashObj):
        return HashObj(v.algo, v.parts)
    if isinstance(v, SpecHasher):
        c = SpecHasher(v.trunc)
        c.parts = list(v.parts)
        return c
    if isinstance(v, Obj):
        c = Obj(v.cls)
        c.attrs = {k: (self.copyof(x, True) if deep else x) for k, x in v.attrs.items()}     # shallow: members shared
        return c
    if isinstance(v, T) or is_const(v) or isinstance(v, tuple):
        return v
    raise Unsupported("copy of %r" % (v,))


Sym.dictmeth = _sym_dictmeth
Sym.copyof = _sym_copyof


def finish(v):
    """An open hasher is closed by feeding <DATA> and taking the digest, so that X_hasher() and X_hash(data)
    have comparable descriptors."""
    if isinstance(v, SpecHasher):
        return D(cat(*(v.parts + [DATA])), v.trunc)
    if isinstance(v, Obj):
        raise Unsupported("unsummarised hasher object of class %s" % v.cls.name)
    return v


def fold_function(sym: Sym, fn: FuncInfo, args=None):
    n = len(first_positional_params(fn))
    v = sym.call(fn, args if args is not None else [P(i) for i in range(n)])
    return v


# ============================================================== specification
def _ws(text: str) -> str:
    return " ".join(text.split())


class LeaseSpec:
    """What docs/specifications/lease.rst says, parsed on every run."""

    REL = "docs/specifications/lease.rst"

    def __init__(self):
        txt = _ws(read_repo_text(self.REL))
        self.tags = {}
        for mo in re.finditer(r'\*\*(bucket|file|client) (renewal|cancel) tag\*\* is ``"([^"`]+)"``', txt):
            self.tags[(mo.group(1), mo.group(2))] = mo.group(3).encode("ascii")
        missing = [(a, b) for a in ("client", "file", "bucket") for b in ("renewal", "cancel") if (a, b) not in self.tags]
        if missing:
            raise AnchorVanished("lease.rst no longer states the tags %s" % missing)
        # the three definitions the constructions below rest on (frozen reading of the prose; if the prose
        # changes the rule must be re-read against it)
        need = [
            r"The \*\*netstring encoding\*\* of a byte string is the concatenation of: \* the ascii encoding of the "
            r"base 10 representation of the length of the string \* ``\":\"`` \* the string itself \* ``\",\"``",
            r"The \*\*sha256d digest\*\* is the \*\*sha256 digest\*\* of the \*\*sha256 digest\*\* of a string",
            r"The \*\*sha256d tagged digest\*\* is the \*\*sha256d digest\*\* of the concatenation of the "
            r"\*\*netstring encoding\*\* of one string with one other unmodified string",
            r"The \*\*sha256d tagged pair digest\*\* the \*\*sha256d digest\*\* of the concatenation of the "
            r"\*\*netstring encodings\*\* of each of three strings",
        ]
        for pat in need:
            if not re.search(pat, txt):
                raise AnchorVanished("lease.rst no longer contains the definition matching /%s/" % pat[:60])
        self.defs = {}
        for mo in re.finditer(r"The \*\*([a-z ]+)\*\* is the \*\*sha256d tagged( pair)? digest\*\* of \(([^)]*)\)", txt):
            ops = [o.strip().strip("*") for o in mo.group(3).split(",")]
            self.defs[mo.group(1)] = (bool(mo.group(2)), ops)
        for k in ("client renewal secret", "file renewal secret", "renewal secret"):
            if k not in self.defs:
                raise AnchorVanished("lease.rst no longer defines the %s" % k)
        if not re.search(r"\*\*lease secret\*\* is a 32 byte string", txt):
            raise AnchorVanished("lease.rst: lease secret definition")
        if not re.search(r"scheme for deriving \*\*cancel secret\*\* .* is similar to that used to derive the "
                         r"\*\*renewal secret\*\*", txt):
            raise AnchorVanished("lease.rst: cancel secret section")

    def term(self, name: str, kind: str, leaves: dict):
        """Term of the definition `name` (renewal wording); kind in renewal|cancel selects the tags."""
        pair, ops = self.defs[name]
        vals = []
        for o in ops:
            mo = re.match(r"^(bucket|file|client) renewal tag$", o)
            if mo:
                vals.append(self.tags[(mo.group(1), kind)])
            elif o in leaves:
                vals.append(leaves[o])
            elif o in self.defs:
                vals.append(self.term(o, kind, leaves))
            else:
                raise AnchorVanished("lease.rst: operand %r of the %s is not defined" % (o, name))
        if pair:
            if len(vals) != 3:
                raise AnchorVanished("lease.rst: tagged pair digest of %d strings" % len(vals))
            return D(cat(ns(vals[0]), ns(vals[1]), ns(vals[2])))
        if len(vals) != 2:
            raise AnchorVanished("lease.rst: tagged digest of %d strings" % len(vals))
        return D(cat(ns(vals[0]), vals[1]))


def storage_index_spec():
    txt = _ws(read_repo_text("docs/specifications/file-encoding.rst"))
    mo = re.search(r'SI = SHA256d\(netstring\("([^"]+)"\) \+ key\)', txt)
    if not mo:
        raise AnchorVanished("file-encoding.rst no longer spells out the storage-index hash")
    if not re.search(r"we wrap each in a netstring", txt):
        raise AnchorVanished("file-encoding.rst: pair-hash sentence")
    u = _ws(read_repo_text("docs/specifications/uri.rst"))
    mo2 = re.search(r"tagged SHA-256d hash, then truncated to (\d+) bits", u)
    if not mo2:
        raise AnchorVanished("uri.rst no longer states the storage-index truncation")
    return mo.group(1).encode("ascii"), int(mo2.group(1)) // 8


def adhoc_module(rel: str) -> Module:
    """Parse a python file of the repository that is outside the package (the reference implementation)."""
    src = read_repo_text(rel)
    try:
        tree = ast.parse(src)
    except SyntaxError as e:
        raise AnalysisError("%s does not parse: %s" % (rel, e))
    m = Module("docs:" + rel, rel, src, tree)
    for node in tree.body:
        if isinstance(node, ast.ImportFrom) and not node.level:
            for a in node.names:
                m.imports[a.asname or a.name] = (node.module or "") + "." + a.name
        elif isinstance(node, ast.Import):
            for a in node.names:
                m.imports[a.asname or a.name.split(".")[0]] = a.name if a.asname else a.name.split(".")[0]
        elif isinstance(node, ast.FunctionDef):
            m.funcs[node.name] = FuncInfo(m, node, m.name + ":" + node.name, None, None)
        elif isinstance(node, ast.Assign):
            for t in node.targets:
                if isinstance(t, ast.Name):
                    m.assigns.setdefault(t.id, []).append(node.value)
    return m


def b32dec(s: bytes) -> bytes:
    s = s.upper()
    s += b"=" * ((8 - len(s) % 8) % 8)
    return base64.b32decode(s)


def b32enc(b: bytes) -> bytes:
    return base64.b32encode(b).rstrip(b"=").lower()


# ================================================================ frozen table
P0, P1, P2, P3, P4 = P(0), P(1), P(2), P(3), P(4)
_CE = b"allmydata_immutable_content_to_key_with_added_secret_v1+"
_CETAG = cat(_CE, ns(P3), ns(cat(dec(P0), b",", dec(P1), b",", dec(P2))))


def _hash_and_hasher(stem, tag, why):
    return {stem + "_hash": (TH(tag, P0), why), stem + "_hasher": (TH(tag, DATA), why)}


# name -> (descriptor, which stored/transmitted bytes change if the entry changes)
FROZEN = {}
FROZEN.update(_hash_and_hasher("block", b"allmydata_encoded_subshare_v1",
                               "block-hash-tree leaves stored in every immutable and mutable share; the share hash root in the UEB / signed mutable prefix"))
FROZEN.update(_hash_and_hasher("uri_extension", b"allmydata_uri_extension_v1",
                               "the UEB hash field of every URI:CHK: capability string"))
FROZEN.update(_hash_and_hasher("plaintext", b"allmydata_plaintext_v1",
                               "plaintext_hash values sent to the helper / stored in old UEBs"))
FROZEN.update(_hash_and_hasher("crypttext", b"allmydata_crypttext_v1",
                               "the crypttext_hash field of the UEB in every immutable share"))
FROZEN.update(_hash_and_hasher("crypttext_segment", b"allmydata_crypttext_segment_v1",
                               "ciphertext hash tree stored in every immutable share; crypttext_root_hash in the UEB"))
FROZEN.update(_hash_and_hasher("plaintext_segment", b"allmydata_plaintext_segment_v1",
                               "plaintext hash tree nodes of shares written by old uploaders"))
FROZEN.update({
    "_convergence_hasher_tag": (_CETAG, "convergent AES key, hence ciphertext, storage index and cap of every convergently uploaded file"),
    "convergence_hasher": (D(cat(ns(_CETAG), DATA), 16), "convergent AES key (16 bytes) of every convergently uploaded file"),
    "convergence_hash": (D(cat(ns(subst(_CETAG, {3: P4})), P3), 16), "convergent AES key (16 bytes) of every convergently uploaded file"),
    "random_key": (T(("opaque", "os.urandom", (16,))), "128-bit key field of URI:CHK: strings (BASE32STR_128bits)"),
    "hmac": (sha("sha256", cat(T(("opaque", "_xor", (P0, 0x5c))),
                               sha("sha256", cat(T(("opaque", "_xor", (P0, 0x36))), P1)))),
             "the 32-byte MAC appended to every encrypted child write cap inside stored directories"),
    "mutable_rwcap_key_hash": (TPH(b"allmydata_mutable_writekey_and_salt_to_dirnode_child_capkey_v1", P0, P1, 16),
                               "AES key of the child write caps inside every stored directory"),
    "mutable_rwcap_salt_hash": (TH(b"allmydata_dirnode_child_rwcap_to_salt_v1", P0, 16),
                                "16-byte salt stored in front of every encrypted child write cap"),
    "ssk_writekey_hash": (TH(b"allmydata_mutable_privkey_to_writekey_v1", P0, 16),
                          "writekey field of URI:SSK:/URI:MDMF: strings; key of the encrypted private key stored in the share"),
    "ssk_write_enabler_master_hash": (TH(b"allmydata_mutable_writekey_to_write_enabler_master_v1", P0),
                                      "write enabler stored in the header of every mutable share"),
    "ssk_write_enabler_hash": (TPH(b"allmydata_mutable_write_enabler_master_and_nodeid_to_write_enabler_v1",
                                   TH(b"allmydata_mutable_writekey_to_write_enabler_master_v1", P0), P1),
                               "write enabler stored in the header of every mutable share and sent with every slot write"),
    "ssk_pubkey_fingerprint_hash": (TH(b"allmydata_mutable_pubkey_to_fingerprint_v1", P0),
                                    "fingerprint field of every SSK/MDMF capability string"),
    "ssk_readkey_hash": (TH(b"allmydata_mutable_writekey_to_readkey_v1", P0, 16),
                         "readkey field of URI:SSK-RO:/URI:MDMF-RO: strings"),
    "ssk_readkey_data_hash": (TPH(b"allmydata_mutable_readkey_to_datakey_v1", P0, P1, 16),
                              "AES key of the ciphertext stored in every mutable share"),
    "ssk_storage_index_hash": (TH(b"allmydata_mutable_readkey_to_storage_index_v1", P0, 16),
                               "storage index (share directory name, wire argument) of every mutable file"),
    "backupdb_dirhash": (TH(b"allmydata_backupdb_dirhash_v1", P0),
                         "dirhash column of existing backupdb.sqlite files"),
    "permute_server_hash": (sha("sha1", cat(P0, P1)),
                            "server permutation order, i.e. on which servers existing shares are looked for"),
})

NOT_DERIVATIONS = {"byteschr", "_xor", "timing_safe_compare"}
PRIMITIVES = {"tagged_hasher", "tagged_hash", "tagged_pair_hash"}


# ========================================================== call-site helpers
def hu_func(idx, m, call):
    """The hashutil function a call resolves to (through `hashutil.f` or `from ..hashutil import f`)."""
    if not isinstance(call, ast.Call):
        return None
    tgt = idx.resolve_expr(m, call.func)
    if isinstance(tgt, FuncInfo) and tgt.module.name == HU and tgt.parent is None and tgt.cls is None:
        return tgt
    return None


def chain(idx, fn, fnorm, node, expr, depth=8):
    """Term tree of an expression at a CFG node: ('H', hashutil function, subtrees) | ('leaf', normal form)."""
    e = fnorm.resolve(node, expr)
    if depth > 0 and isinstance(e, ast.Call):
        h = hu_func(idx, fn.module, e)
        if h is not None and not e.keywords:
            return ("H", h.name, tuple(chain(idx, fn, fnorm, node, a, depth - 1) for a in e.args))
    return ("leaf", fnorm.norm(node, e))


def H(name, *subs):
    return ("H", name, tuple(subs))


def L(src_text):
    return ("leaf", norm_src(src_text))


def show_chain(c):
    if c[0] == "leaf":
        return c[1]
    return "%s(%s)" % (c[1], ", ".join(show_chain(x) for x in c[2]))


def return_chains(idx, fn):
    fnorm = FlowNorm(fn)
    out = []
    for n in fn.cfg().find(is_return):
        if n.ast.value is not None:
            out.append((n, chain(idx, fn, fnorm, n, n.ast.value)))
    return out


def store_chains(idx, fn, path):
    fnorm = FlowNorm(fn)
    out = []
    for n in fn.cfg().find(stores(path)):
        v = assign_value(n, path)
        if v is not None:
            out.append((n, chain(idx, fn, fnorm, n, v)))
    return out


# ======================================================================== run
def run(ctx: Context):
    idx = ctx.idx
    hu = idx.module(HU)
    nsfn = idx.func("util.netstring:netstring")

    def F(name):
        return idx.func("util.hashutil:" + name)

    def check(r, fn, got, want, what=""):
        r.require(got == want, fn, fn.loc(), "%s%s computes %s ; specified: %s" % (
            short(fn), what, show(got) if isinstance(got, (T, bytes)) else repr(got), show(want)))

    # ---- 1. primitives ------------------------------------------------------
    with ctx.rule("C17.1", "R5", "primitives: netstring is '<len>:<s>,'; _SHA256d_Hasher = sha256(sha256(fed bytes)) "
                  "truncated last; tagged_hash/tagged_hasher prepend netstring(tag); tagged_pair_hash netstrings "
                  "tag and both values", expected=5) as r:
        raw = Sym(idx)
        r.site(nsfn, None)
        try:
            check(r, nsfn, raw.call(nsfn, [P0]), ns(P0))
        except Unsupported as e:
            raise AnalysisError("netstring cannot be folded: %s" % e)
        hcls = idx.cls("util.hashutil:_SHA256d_Hasher")
        dig = hcls.lookup("digest")
        if dig is None or hcls.lookup("update") is None:
            raise AnchorVanished("_SHA256d_Hasher.update/digest")
        r.site(dig, None)
        for tr in (None, 16, 5):
            try:
                s = Sym(idx)
                o = s.instantiate(hcls, [tr] if tr is not None else [], {})
                s.call(hcls.lookup("update"), [P0], {}, selfobj=o)
                s.call(hcls.lookup("update"), [P1], {}, selfobj=o)
                got = s.call(dig, [], {}, selfobj=o)
                again = s.call(dig, [], {}, selfobj=o)
            except Unsupported as e:
                raise AnalysisError("_SHA256d_Hasher cannot be folded: %s" % e)
            check(r, dig, got, D(cat(P0, P1), tr), " (truncate_to=%r)" % (tr,))
            r.require(again == got, dig, dig.loc(), "a second digest() returns %s, not the first digest" % show(again)
                      if isinstance(again, (T, bytes)) else "a second digest() returns %r" % (again,))
            r.count(s.steps)
        for nm, nargs, want in (("tagged_hasher", 1, lambda tr: D(cat(ns(P0), DATA), tr)),
                                ("tagged_hash", 2, lambda tr: D(cat(ns(P0), P1), tr)),
                                ("tagged_pair_hash", 3, lambda tr: D(cat(ns(P0), ns(P1), ns(P2)), tr))):
            fn = F(nm)
            r.site(fn, None)
            for tr in (None, 16):
                try:
                    s = Sym(idx)
                    v = s.call(fn, [P(i) for i in range(nargs)] + ([tr] if tr is not None else []))
                    if isinstance(v, Obj):
                        # an open hasher: feed <DATA>, take the digest
                        s.call(v.cls.lookup("update"), [DATA], {}, selfobj=v)
                        v = s.call(v.cls.lookup("digest"), [], {}, selfobj=v)
                except Unsupported as e:
                    raise AnalysisError("%s cannot be folded: %s" % (nm, e))
                check(r, fn, v, want(tr), " (truncate_to=%r)" % (tr,))
                r.count(s.steps)

    # ---- 9. a derivation is a function of its own arguments ----------------------
    # Rule 1 (and the summaries below) look at one call on fresh module state.  A table of hasher states or digests
    # kept in the module between calls (a prefix-state cache, a memo) is part of the derivation as well: here every
    # function is interpreted in a *history* of calls made on one interpreter, so that whatever the earlier calls left
    # in module state - including a live hash object that was stored and then fed on - is seen by the later ones.
    SPELLED = ["storage_index_hash", "my_renewal_secret_hash", "my_cancel_secret_hash", "file_renewal_secret_hash",
               "file_cancel_secret_hash", "bucket_renewal_secret_hash", "bucket_cancel_secret_hash"]
    with ctx.rule("C17.9", "R5", "every derivation depends on its own arguments only: interpreted in a history of calls "
                  "that share the module's state (the same arguments again, each argument changed in turn, every "
                  "truncation), each call gives the term the same call gives on fresh state - no hasher object kept in "
                  "module state is fed after it was stored, a remembered state is copied before use, a lookup key leaves "
                  "no argument out", expected=4 + len(SPELLED) + len(FROZEN)) as r:
        hist = Sym(idx)

        def closed(sym, fn, args):
            sym.steps = 0
            v = sym.call(fn, list(args))
            if isinstance(v, Obj) and v.cls.lookup("update") is not None and v.cls.lookup("digest") is not None:
                sym.call(v.cls.lookup("update"), [DATA], {}, selfobj=v)       # an open hasher: feed <DATA>, take the digest
                v = sym.call(v.cls.lookup("digest"), [], {}, selfobj=v)
            return v

        def say(v):
            return show(v) if isinstance(v, (T, bytes)) else repr(v)

        def history(fn, nargs, truncs):
            base = [P(i) for i in range(nargs)]
            variants = [base] + [base[:i] + [P(100 + i)] + base[i + 1:] for i in reversed(range(nargs))] + [base]
            calls = [(a, tr) for a in variants for tr in truncs]
            done = []
            for (a, tr) in calls:
                full = a + ([tr] if tr is not None else [])
                try:
                    want = closed(Sym(idx), fn, full)
                except Unsupported as e:
                    raise AnalysisError("%s cannot be folded: %s" % (fn.name, e))
                try:
                    got = closed(hist, fn, full)
                except Unsupported as e:
                    raise AnalysisError("%s cannot be folded after the calls %s: %s" % (
                        fn.name, "; ".join(done[-3:]) or "of the functions before it", e))
                r.count(hist.steps)
                me = "%s(%s)" % (fn.name, ", ".join(say(x) for x in full))
                if got != want:
                    state = sorted("%s.%s" % k for k, v in hist.modstate.items() if k[0] == fn.module.name or isinstance(v, MDict))
                    r.violation(fn, fn.loc(), "%s gives %s when it is called after %s, and %s when it is the first call: the "
                                "result depends on earlier calls through the state kept in %s (a hash object stored there and "
                                "fed afterwards, a remembered state used without copying it, or a lookup key that leaves an "
                                "argument out), so the secrets / keys derived for the second and later servers or files differ "
                                "from the specified ones" % (me, say(got), "; ".join(done[-3:]) or "the functions before it",
                                                             say(want), ", ".join(state) or "module state"))
                    return False
                done.append(me)
            return True

        ok = True
        for (fn, nargs, truncs) in ((nsfn, 1, (None,)), (F("tagged_hasher"), 1, (None, 16)), (F("tagged_hash"), 2, (None, 16)),
                                    (F("tagged_pair_hash"), 3, (None, 16))):
            r.site(fn, None, "primitive")
            ok = history(fn, nargs, truncs) and ok
        for nm in SPELLED + sorted(FROZEN):
            fn = F(nm)
            r.site(fn, None)
            if ok:          # built on the primitives: a primitive that is not a function of its arguments is reported once
                history(fn, len(first_positional_params(fn)), (None,))

    # the verified primitives are used as summaries from here on, so that a broken primitive is reported once
    summaries = {
        nsfn.qual: lambda s: ns(s) if isinstance(s, (bytes, T)) else (_ for _ in ()).throw(Unsupported("netstring(%r)" % (s,))),
        idx.cls("util.hashutil:_SHA256d_Hasher").qual: lambda truncate_to=None: SpecHasher(truncate_to),
        F("tagged_hasher").qual: lambda tag, truncate_to=None: _spec_tagged_hasher(tag, truncate_to),
        F("tagged_hash").qual: lambda tag, val, truncate_to=None: _need_static(truncate_to) or TH(tag, val, truncate_to),
        F("tagged_pair_hash").qual: lambda tag, val1, val2, truncate_to=None:
            _need_static(truncate_to) or TPH(tag, val1, val2, truncate_to),
    }

    def fold(name_or_fn, args=None):
        fn = F(name_or_fn) if isinstance(name_or_fn, str) else name_or_fn
        s = Sym(idx, summaries)
        try:
            v = finish(fold_function(s, fn, args))
        except Unsupported as e:
            raise AnalysisError("%s cannot be folded to a derivation descriptor: %s" % (fn.qual, e))
        return v, s

    # ---- 2. derivations spelled out in the specification -----------------------
    lease = LeaseSpec()
    with ctx.rule("C17.2", "R5", "the derivations whose tag and construction docs/specifications spell out fold to "
                  "the documented term (lease.rst: client/file/bucket renewal and cancel secrets; "
                  "file-encoding.rst + uri.rst: CHK storage index)", expected=7) as r:
        for kind, stem in (("renewal", "renewal"), ("cancel", "cancel")):
            spec = {
                "my_%s_secret_hash" % stem: lease.term("client renewal secret", kind, {"lease secret": P0}),
                "file_%s_secret_hash" % stem: lease.term("file renewal secret", kind,
                                                         {"client renewal secret": P0, "storage index": P1}),
                "bucket_%s_secret_hash" % stem: lease.term("renewal secret", kind,
                                                           {"file renewal secret": P0, "peer id": P1}),
            }
            for nm, want in spec.items():
                fn = F(nm)
                got, s = fold(fn)
                r.site(fn, None, "lease.rst")
                r.count(s.steps)
                check(r, fn, got, want)
        tag, trunc = storage_index_spec()
        fn = F("storage_index_hash")
        got, s = fold(fn)
        r.site(fn, None, "file-encoding.rst/uri.rst")
        check(r, fn, got, D(cat(ns(tag), P0), trunc))

    # ---- 3. compat-frozen table ----------------------------------------------
    with ctx.rule("C17.3", "R5", "every other derivation of hashutil.py folds to its compat-frozen descriptor "
                  "(tag bytes, argument order, netstring wrapping, truncation)", expected=len(FROZEN)) as r:
        for nm in sorted(FROZEN):
            want, why = FROZEN[nm]
            fn = F(nm)
            got, s = fold(fn)
            r.site(fn, None)
            r.count(s.steps)
            r.require(got == want, fn, fn.loc(), "%s computes %s ; compat-frozen: %s ; a change alters %s" % (
                nm, show(got) if isinstance(got, (T, bytes)) else repr(got), show(want), why))
        known = set(FROZEN) | NOT_DERIVATIONS | PRIMITIVES | {
            "storage_index_hash", "my_renewal_secret_hash", "my_cancel_secret_hash", "file_renewal_secret_hash",
            "file_cancel_secret_hash", "bucket_renewal_secret_hash", "bucket_cancel_secret_hash"}
        extra = sorted(set(hu.funcs) - known)
        if extra:
            ctx.note("hashutil functions without a descriptor entry (new derivations are not judged): %s" % ", ".join(extra))
        # the lengths the caps are built around
        fo = get_folder(idx)
        for cname, val, why in (("KEYLEN", 16, "128-bit AES keys in every cap string"),
                                ("IVLEN", 16, "16-byte salt/IV slots in directories and SDMF shares"),
                                ("CRYPTO_VAL_SIZE", 32, "32-byte hash and secret fields of shares and lease records")):
            v = fo.module_const("util.hashutil", cname)
            r.require(v == val, HU + ":" + cname, hu.relpath, "%s is %r; compat-frozen %d (%s)" % (cname, v, val, why))

    # ---- 4. reference implementation, whole chain, published vectors -----------
    with ctx.rule("C17.4", "R5", "lease.rst chain == derive_renewal_secret.py (folded) == "
                  "bucket(file(my(lease secret), storage index), peer id) in hashutil; the folded code chain "
                  "evaluates to the published test vectors", expected=7) as r:
        leaves = {"lease secret": P0, "storage index": P1, "peer id": P2}
        code = {}
        for kind in ("renewal", "cancel"):
            a, _ = fold("my_%s_secret_hash" % kind, [P0])
            b, _ = fold("file_%s_secret_hash" % kind, [a, P1])
            c, _ = fold("bucket_%s_secret_hash" % kind, [b, P2])
            code[kind] = c
            want = lease.term("renewal secret", kind, leaves)
            fn = F("bucket_%s_secret_hash" % kind)
            r.site(fn, None, "%s chain vs lease.rst" % kind)
            r.require(c == want, fn, fn.loc(), "the %s-secret chain of hashutil is %s ; lease.rst specifies %s" % (
                kind, show(c), show(want)))
        REF = "docs/specifications/derive_renewal_secret.py"
        rm = adhoc_module(REF)
        if "derive_renewal_secret" not in rm.funcs:
            raise AnchorVanished("derive_renewal_secret() in %s" % REF)
        rf = rm.funcs["derive_renewal_secret"]
        try:
            ref = Sym(idx, summaries).call(rf, [P0, P1, P2])
        except Unsupported as e:
            raise AnalysisError("%s cannot be folded: %s" % (REF, e))
        r.site(REF + ":derive_renewal_secret")
        r.require(ref == code["renewal"], REF + ":derive_renewal_secret", REF,
                  "the reference implementation computes %s ; hashutil's chain computes %s" % (
                      show(ref) if isinstance(ref, (T, bytes)) else repr(ref), show(code["renewal"])))
        # the published vectors
        vectors = []
        for n in ast.walk(rm.tree):
            if isinstance(n, ast.Call) and isinstance(n.func, ast.Name) and n.func.id == "dict" and not n.args:
                kw = {k.arg: k.value.value for k in n.keywords if isinstance(k.value, ast.Constant)}
                if {"lease_secret", "storage_index", "tubid", "expected"} <= set(kw):
                    vectors.append(kw)
        if len(vectors) < 4:
            raise AnchorVanished("%s: %d test vectors found (4 published)" % (REF, len(vectors)))
        for i, v in enumerate(vectors):
            try:
                env = {0: b32dec(v["lease_secret"]), 1: b32dec(v["storage_index"]), 2: b32dec(v["tubid"])}
            except Exception as e:
                raise AnalysisError("test vector %d is not base32: %s" % (i, e))
            r.site("%s vector %d" % (REF, i))
            r.count(1)
            if not isinstance(code["renewal"], T):
                # the chain does not even fold to a byte-string term (already reported above); no vector can hold
                r.violation(F("bucket_renewal_secret_hash"), F("bucket_renewal_secret_hash").loc(),
                            "published test vector %d: the code's renewal-secret chain is %r, not a hash of the three "
                            "inputs" % (i, code["renewal"]))
                continue
            got = b32enc(conc(code["renewal"], env))
            r.require(got == v["expected"], F("bucket_renewal_secret_hash"), F("bucket_renewal_secret_hash").loc(),
                      "published test vector %d: the code's renewal-secret chain %s gives %s, the specification "
                      "publishes %s" % (i, show(code["renewal"]), got.decode(), v["expected"].decode()))

    # ---- 5. call-site chains ---------------------------------------------------
    with ctx.rule("C17.5", "R6/E6", "lease-secret chain at its call sites: SecretHolder hashes the lease secret read "
                  "from private/secret; upload and mutable filenode hash it with the file's storage index and then "
                  "with the server's lease seed; renew/cancel reach allocate_buckets / add_lease unswapped, to the server whose seed was "
                  "hashed and under the storage index that was hashed; the mutable slot writers get (write enabler, "
                  "renew, cancel) of their own server", expected=22) as r:
        # SecretHolder
        SH = "client:SecretHolder"
        init = idx.func(SH + ".__init__")
        ips = first_positional_params(init)
        for attr, pos in (("self._lease_secret", 0), ("self._convergence_secret", 1)):
            sc = store_chains(idx, init, attr)
            if not sc:
                raise AnchorVanished("SecretHolder.__init__ does not store %s" % attr)
            for n, c in sc:
                r.site(init, n.ast, attr)
                r.require(c == ("leaf", ips[pos]), init, init.loc(n.ast),
                          "%s is bound to %s, not to constructor argument %d" % (attr, show_chain(c), pos))
        for meth, want in (("get_renewal_secret", H("my_renewal_secret_hash", L("self._lease_secret"))),
                           ("get_cancel_secret", H("my_cancel_secret_hash", L("self._lease_secret")))):
            fn = idx.func(SH + "." + meth)
            rc = return_chains(idx, fn)
            if not rc:
                raise AnchorVanished("%s returns nothing" % meth)
            for n, c in rc:
                r.site(fn, n.ast)
                r.require(c == want, fn, fn.loc(n.ast), "%s returns %s ; specified %s" % (
                    short(fn), show_chain(c), show_chain(want)))
        # the SecretHolder is built from private/secret (base32-decoded) and the convergence secret
        isec = idx.func("client:_Client.init_secrets")
        made = calls_in_func(isec, "SecretHolder")
        if not made:
            raise AnchorVanished("init_secrets does not build a SecretHolder")
        fnorm = FlowNorm(isec)
        for c in made:
            r.site(isec, c, "SecretHolder(...)")
            node = [n for n in isec.cfg().nodes if any(x is c for x in node_calls(n))][0]
            a0 = arg(c, 0, ips[0])
            a1 = arg(c, 1, ips[1])
            feeds0 = calls_feeding(isec, a0) if a0 is not None else []
            cfgnames0 = {x.args[0].value for x in feeds0 if call_tail(x) in ("get_or_create_private_config", "get_private_config")
                         and x.args and isinstance(x.args[0], ast.Constant)}
            r.require(cfgnames0 == {"secret"} and any(call_name(x) == "base32.a2b" for x in feeds0), isec, isec.loc(c),
                      "the lease secret given to SecretHolder is %s: it must be base32.a2b of private/secret "
                      "(reads: %s)" % (fnorm.norm(node, a0) if a0 is not None else None, sorted(cfgnames0)))
            feeds1 = calls_feeding(isec, a1) if a1 is not None else []
            dep1 = depends_on(isec, a1) if a1 is not None else set()
            r.require("self.convergence" in dep1 or any(
                x.args and isinstance(x.args[0], ast.Constant) and x.args[0].value == "convergence" for x in feeds1),
                isec, isec.loc(c), "the convergence secret given to SecretHolder is %s" % (
                    fnorm.norm(node, a1) if a1 is not None else None))

        # immutable upload
        SEL = "immutable.upload:Tahoe2ServerSelector"
        gs = idx.func(SEL + ".get_shareholders")
        gps = gs.params
        for need in ("storage_index", "secret_holder"):
            if need not in gps:
                raise AnchorVanished("get_shareholders parameter %s" % need)
        gnorm = FlowNorm(gs)
        ct = idx.func(SEL + "._create_trackers")
        ctp = first_positional_params(ct)
        cts = [c for c in calls_in_func(gs, "_create_trackers")]
        if not cts:
            raise AnchorVanished("get_shareholders does not call _create_trackers")
        want_file = {
            "file_renewal_secret": H("file_renewal_secret_hash", L("secret_holder.get_renewal_secret()"), L("storage_index")),
            "file_cancel_secret": H("file_cancel_secret_hash", L("secret_holder.get_cancel_secret()"), L("storage_index")),
        }
        for pn in want_file:
            if pn not in ctp:
                raise AnchorVanished("_create_trackers parameter %s" % pn)
        for c in cts:
            node = [n for n in gs.cfg().nodes if any(x is c for x in node_calls(n))][0]
            for pn, want in want_file.items():
                a = arg(c, ctp.index(pn), pn)
                r.site(gs, c, pn)
                got = chain(idx, gs, gnorm, node, a) if a is not None else ("leaf", "<missing>")
                r.require(got == want, gs, gs.loc(c), "_create_trackers(%s=...) receives %s ; specified %s" % (
                    pn, show_chain(got), show_chain(want)))
        mk = ct.nested.get("_make_trackers")
        if mk is None:
            raise AnchorVanished("_create_trackers._make_trackers")
        mnorm = FlowNorm(mk)
        cst = calls_in_func(mk, "create_server_tracker")
        if not cst:
            raise AnchorVanished("_make_trackers does not call create_server_tracker")
        for c in cst:
            node = [n for n in mk.cfg().nodes if any(x is c for x in node_calls(n))][0]
            srv = mnorm.norm(node, c.args[0]) if c.args else "?"
            want_r = H("bucket_renewal_secret_hash", L("file_renewal_secret"), L("%s.get_lease_seed()" % srv))
            want_c = H("bucket_cancel_secret_hash", L("file_cancel_secret"), L("%s.get_lease_seed()" % srv))
            got_r = chain(idx, mk, mnorm, node, c.args[1]) if len(c.args) > 1 else ("leaf", "<missing>")
            got_c = chain(idx, mk, mnorm, node, c.args[2]) if len(c.args) > 2 else ("leaf", "<missing>")
            r.site(mk, c, "per-server secrets")
            r.require(got_r == want_r, mk, mk.loc(c), "renew secret for server %s is %s ; specified %s" % (
                srv, show_chain(got_r), show_chain(want_r)))
            r.require(got_c == want_c, mk, mk.loc(c), "cancel secret for server %s is %s ; specified %s" % (
                srv, show_chain(got_c), show_chain(want_c)))
        # the tracker factory passes (server, renew, cancel) on to ServerTracker's secrets, which go to allocate_buckets
        fac = gs.nested.get("_create_server_tracker")
        if fac is None:
            raise AnchorVanished("get_shareholders._create_server_tracker")
        fps = first_positional_params(fac)
        stinit = idx.func("immutable.upload:ServerTracker.__init__")
        sps = first_positional_params(stinit)
        for c in calls_in_func(fac, "ServerTracker"):
            r.site(fac, c, "ServerTracker(...)")
            for formal, actual in (("server", fps[0]), ("bucket_renewal_secret", fps[1]), ("bucket_cancel_secret", fps[2]),
                                   ("storage_index", "storage_index")):
                if formal not in sps:
                    raise AnchorVanished("ServerTracker.__init__ parameter %s" % formal)
                a = arg(c, sps.index(formal), formal)
                r.require(isinstance(a, ast.Name) and a.id == actual, fac, fac.loc(c),
                          "ServerTracker(%s=%s) ; specified %s" % (formal, src(fac, a) if a is not None else None, actual))
        for attr, formal in (("self.renew_secret", "bucket_renewal_secret"), ("self.cancel_secret", "bucket_cancel_secret"),
                             ("self.storage_index", "storage_index")):
            sc = store_chains(idx, stinit, attr)
            if not sc:
                raise AnchorVanished("ServerTracker.__init__ does not store %s" % attr)
            for n, c in sc:
                r.require(c == ("leaf", formal), stinit, stinit.loc(n.ast), "%s is bound to %s ; specified %s" % (
                    attr, show_chain(c), formal))
        q = idx.func("immutable.upload:ServerTracker.query")
        ab = calls_in_func(q, "allocate_buckets")
        if not ab:
            raise AnchorVanished("ServerTracker.query does not call allocate_buckets")
        qn = FlowNorm(q)
        for c in ab:
            r.site(q, c, "allocate_buckets")
            got = [attr_path(a) for a in c.args[:3]]
            r.require(got == ["self.storage_index", "self.renew_secret", "self.cancel_secret"], q, q.loc(c),
                      "allocate_buckets is given %s ; specified (storage_index, renew_secret, cancel_secret)" % got)
            # the secrets were hashed with the lease seed of `server`: they must be sent to that server
            node = [n for n in q.cfg().nodes if any(x is c for x in node_calls(n))][0]
            rcv = qn.norm(node, c.func.value) if isinstance(c.func, ast.Attribute) else "?"
            r.require(rcv == norm_src("self._server.get_storage_server()"), q, q.loc(c),
                      "allocate_buckets is sent to %s ; the secrets are derived for self._server" % rcv)
        sc = store_chains(idx, stinit, "self._server")
        if not sc:
            raise AnchorVanished("ServerTracker.__init__ does not store self._server")
        for n, c in sc:
            r.require(c == ("leaf", "server"), stinit, stinit.loc(n.ast),
                      "self._server is bound to %s ; the secrets are derived for `server`" % show_chain(c))

        # immutable checker (add-lease while checking)
        CK = "immutable.checker:Checker"
        cki = idx.func(CK + ".__init__")
        if "secret_holder" not in cki.params:
            raise AnchorVanished("Checker.__init__ parameter secret_holder")
        for attr, want in (
            ("self.file_renewal_secret", H("file_renewal_secret_hash", L("secret_holder.get_renewal_secret()"),
                                           L("self._verifycap.get_storage_index()"))),
            ("self.file_cancel_secret", H("file_cancel_secret_hash", L("secret_holder.get_cancel_secret()"),
                                          L("self._verifycap.get_storage_index()"))),
        ):
            sc = store_chains(idx, cki, attr)
            if not sc:
                raise AnchorVanished("Checker.__init__ does not store %s" % attr)
            for n, c in sc:
                r.site(cki, n.ast, attr)
                r.require(c == want, cki, cki.loc(n.ast), "%s = %s ; specified %s" % (attr, show_chain(c), show_chain(want)))
        for meth, hname, attr in (("_get_renewal_secret", "bucket_renewal_secret_hash", "self.file_renewal_secret"),
                                  ("_get_cancel_secret", "bucket_cancel_secret_hash", "self.file_cancel_secret")):
            fn = idx.func(CK + "." + meth)
            sp = first_positional_params(fn)[0]
            rc = return_chains(idx, fn)
            if not rc:
                raise AnchorVanished("%s returns nothing" % meth)
            for n, c in rc:
                r.site(fn, n.ast)
                want = H(hname, L(attr), ("leaf", sp))
                r.require(c == want, fn, fn.loc(n.ast), "%s returns %s ; specified %s" % (short(fn), show_chain(c), show_chain(want)))
        gb = idx.func(CK + "._get_buckets")
        gbp = first_positional_params(gb)
        gbn = FlowNorm(gb)
        als = calls_in_func(gb, "add_lease")
        if not als:
            raise AnchorVanished("Checker._get_buckets does not call add_lease")
        for c in als:
            node = [n for n in gb.cfg().nodes if any(x is c for x in node_calls(n))][0]
            r.site(gb, c, "add_lease")
            got = [gbn.norm(node, a) for a in c.args[:3]]
            want = [gbp[1], norm_src("self._get_renewal_secret(%s.get_lease_seed())" % gbp[0]),
                    norm_src("self._get_cancel_secret(%s.get_lease_seed())" % gbp[0])]
            r.require(got == want, gb, gb.loc(c), "add_lease(%s) ; specified add_lease(%s)" % (", ".join(got), ", ".join(want)))
            rcv = gbn.norm(node, c.func.value) if isinstance(c.func, ast.Attribute) else "?"
            r.require(rcv == norm_src("%s.get_storage_server()" % gbp[0]), gb, gb.loc(c),
                      "add_lease is sent to %s ; the secrets are derived with the lease seed of %s" % (rcv, gbp[0]))
        # ... and the lease is added under the storage index the file secrets were hashed with
        gcalls = [cs for cs in get_callgraph(idx).calls_named("_get_buckets")
                  if _owner_cls(cs.fn) is gb.cls]
        if not gcalls:
            raise AnchorVanished("nobody calls Checker._get_buckets")
        for cs in gcalls:
            a = arg(cs.call, 1, gbp[1])
            r.site(cs.fn, cs.call, "_get_buckets(storage index)")
            cn = [n for n in cs.fn.cfg().nodes if any(x is cs.call for x in node_calls(n))]
            got = FlowNorm(cs.fn).norm(cn[0], a) if (a is not None and cn) else None
            r.require(got == norm_src("self._verifycap.get_storage_index()"), cs.fn, cs.fn.loc(cs.call),
                      "_get_buckets (which adds the lease) is given the storage index %s ; the file secrets are hashed "
                      "with self._verifycap.get_storage_index()" % got)
        sc = store_chains(idx, cki, "self._verifycap")
        if not sc:
            raise AnchorVanished("Checker.__init__ does not store self._verifycap")
        vp = first_positional_params(cki)[0]
        for n, c in sc:
            r.require(c == ("leaf", vp), cki, cki.loc(n.ast),
                      "self._verifycap (whose storage index the file secrets are hashed with) is bound to %s, not to "
                      "the constructor argument %s" % (show_chain(c), vp))

        # mutable filenode
        MF = "mutable.filenode:MutableFileNode"
        for meth, want in (
            ("get_renewal_secret", H("bucket_renewal_secret_hash",
                                     H("file_renewal_secret_hash", L("self._secret_holder.get_renewal_secret()"),
                                       L("self._storage_index")), L("server.get_lease_seed()"))),
            ("get_cancel_secret", H("bucket_cancel_secret_hash",
                                    H("file_cancel_secret_hash", L("self._secret_holder.get_cancel_secret()"),
                                      L("self._storage_index")), L("server.get_lease_seed()"))),
            ("get_write_enabler", H("ssk_write_enabler_hash", L("self._writekey"),
                                    L("server.get_foolscap_write_enabler_seed()"))),
        ):
            fn = idx.func(MF + "." + meth)
            sp = first_positional_params(fn)[0]
            rc = return_chains(idx, fn)
            if not rc:
                raise AnchorVanished("%s returns nothing" % meth)
            want = _rename_leaf(want, "server", sp)
            for n, c in rc:
                r.site(fn, n.ast)
                r.require(c == want, fn, fn.loc(n.ast), "%s returns %s ; specified %s" % (
                    short(fn), show_chain(c), show_chain(want)))

        # mutable publish: the slot writer of a server gets (write enabler, renew, cancel) derived for THAT server, in the
        # order of the wire protocol's `secrets` tuple
        WR = {"MDMFSlotWriteProxy", "SDMFSlotWriteProxy"}
        wps = None
        for wname in sorted(WR):
            wi = idx.func("mutable.layout:%s.__init__" % wname)
            ps_ = first_positional_params(wi)
            for need in ("storage_server", "secrets"):
                if need not in ps_:
                    raise AnchorVanished("%s.__init__ parameter %s" % (wname, need))
            pos = (ps_.index("storage_server"), ps_.index("secrets"))
            if wps is not None and wps != pos:
                raise AnalysisError("the two slot writers take (storage_server, secrets) at different positions")
            wps = pos
            sc = store_chains(idx, wi, "self._secrets")
            if not sc:
                raise AnchorVanished("%s.__init__ does not store self._secrets" % wname)
            for n, c in sc:
                r.require(c == ("leaf", "secrets"), wi, wi.loc(n.ast), "%s._secrets is bound to %s" % (wname, show_chain(c)))
        for meth in ("publish", "update"):
            pf = idx.func("mutable.publish:Publish." + meth)
            pfn = FlowNorm(pf)
            dexp = def_exprs(pf)
            seen = 0
            for n in pf.cfg().nodes:
                for c in node_calls(n):
                    if not isinstance(c.func, ast.Name):
                        continue
                    srcs = [c.func] if c.func.id in WR else dexp.get(c.func.id, [])
                    if not srcs or not all(isinstance(x, ast.Name) and x.id in WR for x in srcs):
                        continue
                    seen += 1
                    r.site(pf, c, "slot writer secrets")
                    a_srv = arg(c, wps[0], "storage_server")
                    a_sec = arg(c, wps[1], "secrets")
                    e_srv = pfn.resolve(n, a_srv) if a_srv is not None else None
                    if not (isinstance(e_srv, ast.Call) and call_tail(e_srv) == "get_storage_server" and not e_srv.args
                            and isinstance(e_srv.func, ast.Attribute)):
                        r.violation(pf, pf.loc(c), "the slot writer's storage server is %s ; specified <server>.get_storage_server()" % (
                            pfn.norm(n, a_srv) if a_srv is not None else None))
                        continue
                    srv = pfn.norm(n, e_srv.func.value)
                    e_sec = pfn.resolve(n, a_sec) if a_sec is not None else None
                    got = [pfn.norm(n, x) for x in e_sec.elts] if isinstance(e_sec, ast.Tuple) else [
                        pfn.norm(n, a_sec) if a_sec is not None else None]
                    want = [norm_src("self._node.%s(%s)" % (m, srv)) for m in
                            ("get_write_enabler", "get_renewal_secret", "get_cancel_secret")]
                    r.require(got == want, pf, pf.loc(c), "the slot writer for server %s is given the secrets (%s) ; specified (%s)" % (
                        srv, ", ".join(map(str, got)), ", ".join(want)))
            if not seen:
                raise AnchorVanished("Publish.%s no longer creates slot writers" % meth)

    with ctx.rule("C17.6", "R6/E6", "key chains: writekey->readkey->storage index in writeable SSK/MDMF caps, "
                  "readkey->storage index in read-only caps, key->storage index in CHK caps and at upload; "
                  "derive_mutable_keys; the node's keys come from its cap; data key, dirnode child-cap key and the "
                  "convergent key are derived identically by writer and reader; the AES objects are keyed with "
                  "the derived keys and the stored salt is the salt that was hashed", expected=38) as r:
        for cname in ("WriteableSSKFileURI", "WriteableMDMFFileURI"):
            fn = idx.func("uri:%s.__init__" % cname)
            wk = first_positional_params(fn)[0]
            for attr, want in (("self.writekey", ("leaf", wk)),
                               ("self.readkey", H("ssk_readkey_hash", ("leaf", wk))),
                               ("self.storage_index", H("ssk_storage_index_hash", H("ssk_readkey_hash", ("leaf", wk))))):
                got = _attr_chain(idx, fn, attr)
                r.site(fn, None, attr)
                r.require(got == want, fn, fn.loc(), "%s.%s = %s ; specified %s" % (
                    cname, attr[5:], show_chain(got), show_chain(want)))
        for cname in ("ReadonlySSKFileURI", "ReadonlyMDMFFileURI"):
            fn = idx.func("uri:%s.__init__" % cname)
            rk = first_positional_params(fn)[0]
            for attr, want in (("self.readkey", ("leaf", rk)),
                               ("self.storage_index", H("ssk_storage_index_hash", ("leaf", rk)))):
                got = _attr_chain(idx, fn, attr)
                r.site(fn, None, attr)
                r.require(got == want, fn, fn.loc(), "%s.%s = %s ; specified %s" % (
                    cname, attr[5:], show_chain(got), show_chain(want)))
        fn = idx.func("uri:CHKFileURI.__init__")
        k = first_positional_params(fn)[0]
        for attr, want in (("self.key", ("leaf", k)), ("self.storage_index", H("storage_index_hash", ("leaf", k)))):
            got = _attr_chain(idx, fn, attr)
            r.site(fn, None, attr)
            r.require(got == want, fn, fn.loc(), "CHKFileURI.%s = %s ; specified %s" % (
                attr[5:], show_chain(got), show_chain(want)))
        # upload: the storage index is the hash of the encryption key that is used
        ge = idx.func("immutable.upload:EncryptAnUploadable._get_encryptor")
        got_fn = ge.nested.get("_got")
        if got_fn is None:
            raise AnchorVanished("_get_encryptor._got")
        kp = first_positional_params(got_fn)[0]
        fnorm = FlowNorm(got_fn)
        found = False
        for n in got_fn.cfg().nodes:
            for c in node_calls(n):
                h = hu_func(idx, got_fn.module, c)
                if h is not None and h.name.endswith("storage_index_hash"):
                    found = True
                    ch = chain(idx, got_fn, fnorm, n, c)
                    r.site(got_fn, c)
                    r.require(ch == H("storage_index_hash", ("leaf", kp)), got_fn, got_fn.loc(c),
                              "upload storage index is %s ; specified storage_index_hash(<the AES key>)" % show_chain(ch))
            for c in calls_at(n, "create_encryptor"):
                a0 = arg(c, 0)
                r.require(a0 is not None and fnorm.norm(n, a0) == kp, got_fn, got_fn.loc(c),
                          "the encryptor is keyed with %s, the storage index is derived from %s" % (
                              src(got_fn, a0), kp))
        if not found:
            raise AnchorVanished("_get_encryptor._got no longer derives the storage index")
        # ... and that hash is what the uploader publishes as the file's storage index
        sc = store_chains(idx, got_fn, "self._storage_index")
        if not sc:
            raise AnchorVanished("_get_encryptor._got does not store self._storage_index")
        for n, c in sc:
            r.site(got_fn, n.ast, "self._storage_index")
            r.require(c == H("storage_index_hash", ("leaf", kp)), got_fn, got_fn.loc(n.ast),
                      "the upload's storage index is %s ; specified storage_index_hash(<the AES key>)" % show_chain(c))

        # derive_mutable_keys
        dk = idx.func("mutable.common:derive_mutable_keys")
        kp = first_positional_params(dk)[0]
        fnorm = FlowNorm(dk)
        rets = dk.cfg().find(is_return)
        if not rets:
            raise AnchorVanished("derive_mutable_keys returns nothing")
        for n in rets:
            v = n.ast.value
            r.site(dk, n.ast)
            if not (isinstance(v, ast.Tuple) and len(v.elts) == 3):
                r.violation(dk, dk.loc(n.ast), "derive_mutable_keys returns %s, not (writekey, encprivkey, fingerprint)" % src(dk, v))
                continue
            wk = chain(idx, dk, fnorm, n, v.elts[0])
            fp = chain(idx, dk, fnorm, n, v.elts[2])
            want_wk = H("ssk_writekey_hash", L("rsa.der_string_from_signing_key(%s[1])" % kp))
            want_fp = H("ssk_pubkey_fingerprint_hash", L("rsa.der_string_from_verifying_key(%s[0])" % kp))
            r.require(wk == want_wk, dk, dk.loc(n.ast), "writekey is %s ; specified %s" % (show_chain(wk), show_chain(want_wk)))
            r.require(fp == want_fp, dk, dk.loc(n.ast), "fingerprint is %s ; specified %s" % (show_chain(fp), show_chain(want_fp)))
            enc = fnorm.resolve(n, v.elts[1])
            ok = isinstance(enc, ast.Call) and call_tail(enc) == "encrypt_privkey" and len(enc.args) == 2 and \
                chain(idx, dk, fnorm, n, enc.args[0]) == want_wk and \
                fnorm.norm(n, enc.args[1]) == norm_src("rsa.der_string_from_signing_key(%s[1])" % kp)
            r.require(ok, dk, dk.loc(n.ast), "encprivkey is %s ; specified encrypt_privkey(writekey, DER(privkey))" % (
                fnorm.norm(n, v.elts[1])))

        # the mutable node takes its keys from the cap
        ic = idx.func("mutable.filenode:MutableFileNode.init_from_cap")
        for attr, want in (("self._storage_index", "self._uri.storage_index"), ("self._readkey", "self._uri.readkey"),
                           ("self._fingerprint", "self._uri.fingerprint")):
            sc = store_chains(idx, ic, attr)
            if not sc:
                raise AnchorVanished("init_from_cap does not store %s" % attr)
            for n, c in sc:
                r.site(ic, n.ast, attr)
                r.require(c == L(want), ic, ic.loc(n.ast), "%s = %s ; specified %s" % (attr, show_chain(c), want))
        sc = store_chains(idx, ic, "self._uri")
        if not sc:
            raise AnchorVanished("init_from_cap does not store self._uri")
        capp = first_positional_params(ic)[0]
        for n, c in sc:
            r.site(ic, n.ast, "self._uri")
            r.require(c == ("leaf", capp), ic, ic.loc(n.ast), "self._uri (the source of the node's keys) is bound to %s, "
                      "not to the cap %s the node is created from" % (show_chain(c), capp))
        wks = [(n, c) for (n, c) in store_chains(idx, ic, "self._writekey") if c != ("leaf", "None")]
        if not wks:
            raise AnchorVanished("init_from_cap does not store the writekey")
        for n, c in wks:
            r.site(ic, n.ast, "self._writekey")
            r.require(c == L("self._uri.writekey"), ic, ic.loc(n.ast), "self._writekey = %s ; specified self._uri.writekey" % show_chain(c))
        # a new mutable file: the triple of derive_mutable_keys is unpacked in its order and the cap is built from
        # (writekey, fingerprint); the node's read key and storage index are the cap's
        cw = idx.func("mutable.filenode:MutableFileNode.create_with_keys")
        seen = 0
        for n in func_own_nodes(cw):
            if isinstance(n, ast.Assign) and any(isinstance(x, ast.Name) and x.id == "derive_mutable_keys"
                                                 for x in ast.walk(n.value)):
                seen += 1
                r.site(cw, n, "derive_mutable_keys result")
                tg = n.targets[0]
                got = [attr_path(x) for x in tg.elts] if isinstance(tg, (ast.Tuple, ast.List)) else [attr_path(tg)]
                r.require(got == ["self._writekey", "self._encprivkey", "self._fingerprint"], cw, cw.loc(n),
                          "the (writekey, encprivkey, fingerprint) triple is unpacked into %s" % got)
        if not seen:
            raise AnchorVanished("create_with_keys no longer uses derive_mutable_keys")
        seen = 0
        for c in calls_in_func(cw, "WriteableSSKFileURI") + calls_in_func(cw, "WriteableMDMFFileURI"):
            seen += 1
            r.site(cw, c, "new cap")
            got = [attr_path(a) for a in c.args]
            r.require(got == ["self._writekey", "self._fingerprint"] and not c.keywords, cw, cw.loc(c),
                      "the new cap is built from %s ; specified (self._writekey, self._fingerprint)" % got)
        if seen < 2:
            raise AnchorVanished("create_with_keys no longer builds the SDMF and MDMF caps")
        for attr, want in (("self._storage_index", "self._uri.storage_index"), ("self._readkey", "self._uri.readkey")):
            sc = store_chains(idx, cw, attr)
            if not sc:
                raise AnchorVanished("create_with_keys does not store %s" % attr)
            for n, c in sc:
                r.site(cw, n.ast, attr)
                r.require(c == L(want), cw, cw.loc(n.ast), "%s = %s ; specified %s" % (attr, show_chain(c), want))
        # writer / reader agreement of symmetric keys
        pairs = [
            ("mutable data key", "ssk_readkey_data_hash",
             [("mutable.publish:Publish._encode_segment.encrypt", "create_encryptor"),
              ("mutable.retrieve:Retrieve._decrypt_segment.decrypt", "create_decryptor")],
             ["salt", "readkey"]),
        ]
        for what, hname, fns, roles in pairs:
            for q, aes_ctor in fns:
                fn = idx.func(q)
                fnorm = FlowNorm(fn)
                seen = 0
                for n in fn.cfg().nodes:
                    for c in node_calls(n):
                        h = hu_func(idx, fn.module, c)
                        if h is not None and h.name == hname:
                            seen += 1
                            r.site(fn, c, what)
                            got = [a.id if isinstance(a, ast.Name) else src(fn, a) for a in c.args]
                            r.require(got == roles, fn, fn.loc(c), "%s is %s(%s) ; writer and reader must both use (%s)" % (
                                what, hname, ", ".join(got), ", ".join(roles)))
                if not seen:
                    raise AnchorVanished("%s no longer derives the %s" % (q, what))
                # the derived key is the key the AES object is made with
                seen = 0
                want = H(hname, *[("leaf", x) for x in roles])
                for n in fn.cfg().nodes:
                    for c in calls_at(n, aes_ctor):
                        seen += 1
                        a0 = arg(c, 0)
                        got = chain(idx, fn, fnorm, n, a0) if a0 is not None else ("leaf", "<missing>")
                        r.site(fn, c, "%s(%s)" % (aes_ctor, what))
                        r.require(got == want, fn, fn.loc(c), "%s is keyed with %s ; specified %s" % (
                            aes_ctor, show_chain(got), show_chain(want)))
                if not seen:
                    raise AnchorVanished("%s no longer calls %s" % (q, aes_ctor))
        # writer: the salt that is stored next to the ciphertext is the salt the key was derived from, and the read
        # key comes from the node (i.e. from the cap); reader: likewise
        penc = idx.func("mutable.publish:Publish._encode_segment.encrypt")
        pn = FlowNorm(penc)
        rets = [n for n in penc.cfg().find(is_return) if isinstance(n.ast.value, ast.Tuple) and n.ast.value.elts]
        if not rets:
            raise AnchorVanished("Publish._encode_segment.encrypt no longer returns (salt, crypttext)")
        for n in rets:
            r.site(penc, n.ast, "stored salt")
            got = pn.norm(n, n.ast.value.elts[0])
            r.require(got == "salt", penc, penc.loc(n.ast), "the salt handed on for storage is %s, not the salt the data "
                      "key was derived from" % got)
        pes = penc.parent
        pesn = FlowNorm(pes)
        epar = first_positional_params(penc)
        seen = 0
        for n in pes.cfg().nodes:
            for c in node_calls(n):
                av = None
                if isinstance(c.func, ast.Name) and c.func.id == penc.name:
                    av = arg(c, 0, epar[0])
                else:
                    for i, a in enumerate(c.args):
                        if isinstance(a, ast.Name) and a.id == penc.name and i + 1 < len(c.args):
                            av = c.args[i + 1]
                if av is None:
                    continue
                seen += 1
                r.site(pes, c, "read key given to encrypt")
                got = pesn.norm(n, av)
                r.require(got == "self.readkey", pes, pes.loc(c), "the segment is encrypted under a key derived from %s ; "
                          "specified self.readkey" % got)
        if not seen:
            raise AnchorVanished("_encode_segment no longer runs encrypt(readkey)")
        pcls = idx.cls("mutable.publish:Publish")
        seen = 0
        for mname, meth in pcls.methods.items():
            if not any(isinstance(x, ast.Attribute) and x.attr == "readkey" and isinstance(x.ctx, ast.Store)
                       for x in func_own_nodes(meth)):
                continue
            for n, c in store_chains(idx, meth, "self.readkey"):
                seen += 1
                r.site(meth, n.ast, "self.readkey")
                r.require(c == L("self._node.get_readkey()"), meth, meth.loc(n.ast),
                          "Publish.readkey = %s ; specified self._node.get_readkey()" % show_chain(c))
        if not seen:
            raise AnchorVanished("Publish no longer stores self.readkey")
        rdec = idx.func("mutable.retrieve:Retrieve._decrypt_segment.decrypt")
        rds = rdec.parent
        rdn = FlowNorm(rds)
        seen = 0
        for n in rds.cfg().nodes:
            if "readkey" in node_stores(n):
                v = assign_value(n, "readkey")
                seen += 1
                r.site(rds, n.ast, "readkey")
                got = rdn.norm(n, v) if v is not None else None
                r.require(got == norm_src("self._node.get_readkey()"), rds, rds.loc(n.ast),
                          "the segment is decrypted under a key derived from %s ; specified self._node.get_readkey()" % got)
        if not seen:
            raise AnchorVanished("_decrypt_segment no longer binds readkey")
        grk = idx.func("mutable.filenode:MutableFileNode.get_readkey")
        for n in grk.cfg().find(is_return):
            r.site(grk, n.ast)
            got = attr_path(n.ast.value) if n.ast.value is not None else None
            r.require(got == "self._readkey", grk, grk.loc(n.ast), "get_readkey returns %s ; specified self._readkey" % got)
        # dirnode child write caps
        enc = idx.func("dirnode:_encrypt_rw_uri")
        eps = first_positional_params(enc)
        fnorm = FlowNorm(enc)
        seen = 0
        for n in enc.cfg().nodes:
            for c in calls_at(n, "create_encryptor"):
                seen += 1
                got = chain(idx, enc, fnorm, n, arg(c, 0))
                want = H("mutable_rwcap_key_hash", H("mutable_rwcap_salt_hash", ("leaf", eps[1])), ("leaf", eps[0]))
                r.site(enc, c, "child-cap key (writer)")
                r.require(got == want, enc, enc.loc(c), "child write caps are encrypted under %s ; specified %s" % (
                    show_chain(got), show_chain(want)))
        for n in enc.cfg().find(is_return):
            # the stored salt is the one the key was derived from
            parts = _concat_parts(fnorm.resolve(n, n.ast.value))
            first = chain(idx, enc, fnorm, n, parts[0]) if parts else None
            r.require(first == H("mutable_rwcap_salt_hash", ("leaf", eps[1])), enc, enc.loc(n.ast),
                      "the stored prefix is %s, not the salt the key was derived from" % (show_chain(first) if first else None))
        if not seen:
            raise AnchorVanished("_encrypt_rw_uri no longer creates an encryptor")
        dec = idx.func("dirnode:DirectoryNode._decrypt_rwcapdata")
        dp = first_positional_params(dec)[0]
        fnorm = FlowNorm(dec)
        seen = 0
        for n in dec.cfg().nodes:
            for c in calls_at(n, "create_decryptor"):
                seen += 1
                got = chain(idx, dec, fnorm, n, arg(c, 0))
                want = H("mutable_rwcap_key_hash", L("%s[:16]" % dp), L("self._node.get_writekey()"))
                r.site(dec, c, "child-cap key (reader)")
                r.require(got == want, dec, dec.loc(c), "child write caps are decrypted under %s ; specified %s" % (
                    show_chain(got), show_chain(want)))
        if not seen:
            raise AnchorVanished("_decrypt_rwcapdata no longer creates a decryptor")
        # convergent key: argument order (k, n, segsize, convergence)
        cv = idx.func("immutable.upload:FileHandle._get_encryption_key_convergent")
        g = cv.nested.get("_got")
        if g is None:
            raise AnchorVanished("_get_encryption_key_convergent._got")
        fnorm = FlowNorm(g)
        gp = first_positional_params(g)[0]
        seen = 0
        for n in g.cfg().nodes:
            for c in node_calls(n):
                h = hu_func(idx, g.module, c)
                if h is not None and h.name == "convergence_hasher":
                    seen += 1
                    r.site(g, c, "convergent key")
                    got = [fnorm.norm(n, a) for a in c.args]
                    # params = (k, happy, n, segsize)
                    want = [norm_src("%s[0]" % gp), norm_src("%s[2]" % gp), norm_src("%s[3]" % gp), "self.convergence"]
                    r.require(got == want and not c.keywords, g, g.loc(c),
                              "convergence_hasher(%s) ; specified (k, n, segsize, convergence secret) = (%s)" % (
                                  ", ".join(got), ", ".join(want)))
        if not seen:
            raise AnchorVanished("_get_encryption_key_convergent no longer calls convergence_hasher")
        gp_fn = idx.func("immutable.upload:BaseUploadable.get_all_encoding_parameters")
        ok = False
        for n in [x for f in [gp_fn] + list(gp_fn.nested.values()) for x in func_own_nodes(f)]:
            if isinstance(n, ast.Assign) and isinstance(n.value, ast.Tuple) and len(n.value.elts) == 4:
                names = [x.id if isinstance(x, ast.Name) else None for x in n.value.elts]
                if names == ["k", "happy", "n", "segsize"]:
                    ok = True
        r.require(ok, gp_fn, gp_fn.loc(), "get_all_encoding_parameters no longer yields (k, happy, n, segsize): the "
                  "convergent key would be fed different parameters")

    # ---- 8. the convergent key hashes the file --------------------------------------
    with ctx.rule("C17.8", "E1/E3", "convergent key (file-encoding.rst: SHA-256d of tag, encoding parameters, convergence "
                  "secret *and the contents of the file*): every block read from the uploadable's file handle is fed "
                  "to the convergence hasher before the next read / before digest(), some execution does feed the "
                  "hasher, and the key that is kept is that hasher's digest", expected=3) as r:
        cv = idx.func("immutable.upload:FileHandle._get_encryption_key_convergent")
        g = cv.nested.get("_got")
        if g is None:
            raise AnchorVanished("_get_encryption_key_convergent._got")
        cfg = g.cfg()
        fnorm = FlowNorm(g)
        hcalls = [c for n in cfg.nodes for c in node_calls(n)
                  if (hu_func(idx, g.module, c) is not None and hu_func(idx, g.module, c).name == "convergence_hasher")]
        if not hcalls:
            raise AnchorVanished("_get_encryption_key_convergent._got creates no convergence hasher")

        def hasher_of(n, c, tail):
            """the convergence_hasher(..) call whose result c = <hasher>.<tail>(...) is invoked on, or None"""
            if not (isinstance(c, ast.Call) and isinstance(c.func, ast.Attribute) and c.func.attr == tail):
                return None
            rcv = fnorm.resolve(n, c.func.value)
            for hc in hcalls:
                if rcv is hc:
                    return hc
            return None

        # the key that is kept (and returned) is the digest of a convergence hasher
        sk = [n for n in cfg.find(stores("self._key"))]
        if not sk:
            raise AnchorVanished("_get_encryption_key_convergent._got no longer stores self._key")
        key_hashers = []
        for n in sk:
            v = assign_value(n, "self._key")
            e = fnorm.resolve(n, v) if v is not None else None
            r.site(g, n.ast, "self._key")
            hc = hasher_of(n, e, "digest") if (isinstance(e, ast.Call) and not e.args and not e.keywords) else None
            if hc is None:
                r.violation(g, g.loc(n.ast), "the convergent key is %s ; specified <convergence hasher>.digest()" % (
                    fnorm.norm(n, v) if v is not None else None))
            elif not any(hc is x for x in key_hashers):
                key_hashers.append(hc)

        # blocks: local names bound to <self._filehandle>.read(..)
        reads = {}
        for n in cfg.nodes:
            if n.kind != "stmt" or not isinstance(n.ast, ast.Assign) or len(n.ast.targets) != 1 \
                    or not isinstance(n.ast.targets[0], ast.Name):
                continue
            v = n.ast.value
            if isinstance(v, ast.Call) and call_tail(v) == "read" and isinstance(v.func, ast.Attribute) \
                    and attr_path(fnorm.resolve(n, v.func.value)) == "self._filehandle":
                reads[n.id] = n.ast.targets[0].id
        if not reads:
            raise AnchorVanished("_get_encryption_key_convergent._got no longer reads blocks from self._filehandle")

        def empty_fact(n, lab, var):
            f = fnorm.edge_fact(n, lab)
            if f is None:
                return False
            op, a, b = f
            ln = norm_src("len(%s)" % var)
            if op == "false" and a == var:
                return True
            if op == "==" and {a, b} in ({ln, "0"}, {var, norm_src('b""')}):
                return True
            if (op, a, b) in (("<", ln, "1"), ("<=", ln, "0")):
                return True
            return False

        r.site(g, hcalls[0], "blocks read are fed")
        r.site(g, hcalls[0], "some execution feeds the hasher")
        for hcall in key_hashers:
            feeds = {}
            digests = set()
            for n in cfg.nodes:
                for c in node_calls(n):
                    if hasher_of(n, c, "update") is hcall and len(c.args) == 1 and isinstance(c.args[0], ast.Name) \
                            and c.args[0].id in reads.values():
                        feeds[n.id] = c.args[0].id
                    if hasher_of(n, c, "digest") is hcall:
                        digests.add(n.id)

            def transfer(n, lab, nxt, st):
                pending, fed, bad = st
                if bad:
                    return None                                  # the violating state is terminal
                if isinstance(lab, tuple) and isinstance(lab[1], ast.Constant) and bool(lab[1].value) != (lab[0] == "T"):
                    return None                                  # `while True:` is never left by its false edge
                if lab == "exc":
                    return None
                # effect of leaving n
                if n.id in feeds and feeds[n.id] == pending:
                    pending, fed = None, True
                if n.id in reads:
                    pending = reads[n.id]
                if pending is not None and isinstance(lab, tuple) and empty_fact(n, lab, pending):
                    pending = None                               # an empty block: nothing to feed
                # effect of arriving at nxt with a block in hand
                if pending is not None and (nxt.id in reads or nxt.id in digests):
                    return (pending, fed, True)
                return (pending, fed, False)

            visited, parent = explore(cfg, (None, False, False), transfer)
            r.count(len(visited))
            bad = sorted((ps for ps in visited if ps[1][2]), key=lambda ps: ps[0])
            reported = set()
            for ps in bad:
                if ps[0] in reported:
                    continue
                reported.add(ps[0])
                tn = cfg.nodes[ps[0]]
                r.violation(g, g.loc(tn.ast), "a block `%s` read from the file reaches `%s` without having been fed to "
                            "the convergence hasher: the convergent key (and with it the storage index) no longer covers "
                            "the whole file" % (ps[1][0], src(g, tn.ast)), witness(cfg, parent, ps))
            if not bad:
                r.require(any(nid in digests and st[1] for (nid, st) in visited), g, g.loc(hcall),
                          "no execution of _got feeds file data to the convergence hasher whose digest becomes the key: "
                          "the convergent key does not depend on the contents of the file")

    # ---- 7. the repository's own known-answer vectors --------------------------
    with ctx.rule("C17.7", "R5", "the folded descriptors, evaluated with hashlib, reproduce the known-answer vectors "
                  "recorded in test_hashutil.py (compatibility vectors; also a check of the folding itself)",
                  expected=20) as r:
        TREL = "src/allmydata/test/test_hashutil.py"
        try:
            ttree = ast.parse(read_repo_text(TREL))
        except SyntaxError as e:
            raise AnalysisError("%s does not parse: %s" % (TREL, e))
        skipped = []
        for c in ast.walk(ttree):
            if not (isinstance(c, ast.Call) and isinstance(c.func, ast.Attribute) and c.func.attr == "_testknown"
                    and len(c.args) >= 2 and isinstance(c.args[0], ast.Attribute) and isinstance(c.args[1], ast.Constant)):
                continue
            nm = c.args[0].attr
            args = [_lit(a) for a in c.args[2:]]
            if nm not in hu.funcs or any(a is None for a in args):
                skipped.append(nm)
                continue
            fn = hu.funcs[nm]
            term, s_ = fold(fn)
            if not isinstance(term, (T, bytes)) or _has(term, "opaque"):
                skipped.append(nm)
                continue
            try:
                got = b32enc(conc(term, dict(enumerate(args))))
            except Exception as e:
                raise AnalysisError("vector for %s cannot be evaluated: %s" % (nm, e))
            r.site(fn, None, "vector %s" % c.args[1].value.decode("ascii", "replace")[:12])
            r.count(1)
            r.require(got == c.args[1].value, fn, fn.loc(), "%s%r: the folded derivation %s gives %s ; the recorded known answer "
                      "is %s" % (nm, tuple(args), show(term), got.decode(), c.args[1].value.decode("ascii", "replace")))
        if skipped:
            ctx.note("known-answer vectors not evaluated (opaque helper / non-literal arguments): %s" % ", ".join(sorted(set(skipped))))


def _lit(a):
    if isinstance(a, ast.Constant) and isinstance(a.value, (bytes, int)):
        return a.value
    if isinstance(a, ast.BinOp) and isinstance(a.op, ast.Mult):
        l, r_ = _lit(a.left), _lit(a.right)
        if l is not None and r_ is not None:
            try:
                return l * r_
            except Exception:
                return None
    if isinstance(a, ast.Call) and isinstance(a.func, ast.Attribute) and a.func.attr == "a2b" and len(a.args) == 1:
        v = _lit(a.args[0])
        if isinstance(v, bytes):
            try:
                return b32dec(v)
            except Exception:
                return None
    return None


def _has(t, kind):
    if not isinstance(t, T):
        return False
    if t[0] == kind:
        return True
    return any(_has(x, kind) or (isinstance(x, tuple) and not isinstance(x, T) and any(_has(y, kind) for y in x)) for x in t[1:])


def _need_static(tr):
    if isinstance(tr, T) or tr is UNKNOWN:
        raise Unsupported("symbolic truncation length")
    return None


def _spec_tagged_hasher(tag, truncate_to=None):
    _need_static(truncate_to)
    h = SpecHasher(truncate_to)
    h.parts.append(ns(tag))
    return h


def _owner_cls(fn):
    while fn is not None and fn.cls is None:
        fn = fn.parent
    return fn.cls if fn is not None else None


def _rename_leaf(c, old, new):
    if c[0] == "leaf":
        return ("leaf", re.sub(r"\b%s\b" % re.escape(old), new, c[1]))
    return ("H", c[1], tuple(_rename_leaf(x, old, new) for x in c[2]))


def _attr_chain(idx, fn, attr, depth=4):
    """Chain of the value stored into self.<attr> in fn, with `self.x` leaves replaced by the chain stored into
    self.x earlier in the same function."""
    sc = store_chains(idx, fn, attr)
    if len(sc) != 1:
        raise AnchorVanished("%s stores %s %d times" % (fn.qual, attr, len(sc)))
    c = sc[0][1]

    def expand(c, d):
        if c[0] == "leaf":
            if d > 0 and c[1].startswith("self.") and c[1] != attr and re.match(r"^self\.\w+$", c[1]):
                inner = store_chains(idx, fn, c[1])
                if len(inner) == 1:
                    return expand(inner[0][1], d - 1)
            return c
        return ("H", c[1], tuple(expand(x, d) for x in c[2]))
    return expand(c, depth)


def _concat_parts(e):
    if isinstance(e, ast.BinOp) and isinstance(e.op, ast.Add):
        return _concat_parts(e.left) + _concat_parts(e.right)
    return [e]
