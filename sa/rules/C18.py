"""C18 Read-only directory access is transitive.

Decided: where a child's write cap may be decrypted, how it may reach the
packed plaintext, what get_write_uri() may return per node class, and which cap
a child node is built from (DESIGN.md section 5, C18)."""
from sa.h import *
import copy

EXPLANATION = (
    "Decided (structural, all paths): (1) DirectoryNode._unpack_contents calls _decrypt_rwcapdata only on the "
    "edge 'not self.is_readonly()', the rw slot handed to the node factory is fed by nothing but the empty "
    "constant and that decryption, and _decrypt_rwcapdata has no other caller; (2) in _pack_normalized_children "
    "no write-authority value of the child (get_write_uri/get_uri/get_cap/...) and not the directory writekey "
    "reaches the packed bytes except through _encrypt_rw_uri(writekey, .), which is called only under "
    "'writekey is not None'; (3) _encrypt_rw_uri returns the plaintext cap only through AES under a key derived "
    "from the writekey parameter (and a hash / HMAC of it), and hashutil's key hash uses both of its arguments; "
    "(4) every node class: get_write_uri() returns None, a delegated get_write_uri(), or a cap only on the edge "
    "'not self.is_readonly()', is_readonly() is derived from the cap object, and UnknownNode.rw_uri is only ever "
    "fed by the rw argument; (5) NodeMaker.create_from_cap builds the node from 'writecap or readcap' and keys "
    "its cache by that cap - decided in create_from_cap and in every helper it calls on self / in its module (key "
    "builder, uncached constructor, filing helper), each expression expanded into create_from_cap's own parameters by "
    "following the helper calls with their positional / keyword parameter binding and every plain assignment of a "
    "local: every uri.from_string parses 'writecap or readcap', _create_from_single_cap is given that parse, every "
    "keyed use of self._node_cache (subscript, get / setdefault / pop / .., 'in', also through a local alias) has a key "
    "made of cap-independent parts and exactly that one cap term (sum or tuple), UnknownNode gets (writecap, readcap) "
    "in order; decorated / recursive / generator helpers, comprehensions in those expressions and unkeyed uses of the "
    "cache are refused (ANALYSIS-ERROR); _create_and_validate_node / _create_readonly_node pass the caps in (rw, ro) order "
    "and diminish with (None, get_readonly_uri()); (6) MutableFileNode._writekey is stored non-None only under "
    "'not filecap.is_readonly()' or from fresh keys, get_writekey returns it, and the directory packs/decrypts "
    "with self._node.get_writekey(); (7) in _encrypt_rw_uri the AES-CTR key stream (everything given to "
    "create_encryptor) depends - through the package-local hash helpers, followed by parameter->return summaries - "
    "on the child's write cap (or on fresh randomness) and on the writekey, so no two children of a directory "
    "share a key stream, and the reader-visible salt hash hands its argument to nothing but a tagged hash; "
    "(8) every call of _pack_normalized_children - and, transitively, of every function that passes its own "
    "writekey parameter through to it (pack_children; NodeMaker.create_new_mutable_directory / "
    "create_immutable_directory) - is keyed by None, by <node>.get_writekey() or by such a pass-through "
    "parameter, the packers are never taken as values, and (in 6) the non-None value init_from_cap stores in "
    "_writekey is the writekey field of its cap.  Gates written as conditional expressions ('x if c else y') "
    "count like if statements; the truth of writekey counts as 'writekey is not None'; "
    "(9) every node class (wrappers such as blacklist.ProhibitedNode included): what get_readonly_uri() answers - the "
    "string the packer stores in clear in the ro_uri slot and _create_readonly_node rebuilds the child from - is, on "
    "every returning path, None, <cap>.get_readonly().to_string() (also through a get_readcap() that is itself "
    "<cap>.get_readonly()), another node's own get_readonly_uri(), UnknownNode's ro slot (a slot get_write_uri() does "
    "not return), or the node's own cap (get_uri() / <cap>.to_string()) only where the node is read-only: "
    "is_readonly() constantly True for every class that inherits the method, or the return sits on an "
    "'is_readonly()' edge; a class-body alias of the method is judged as the aliased method, re-binding it on an "
    "object is refused; "
    "(10, = C16.11/C16.12, abstract interpretation of UnknownNode.__init__ with the given caps as tokens and per-path "
    "prefix / parse facts) the string an UnknownNode keeps in its ro slot - which (9) lets get_readonly_uri() answer and "
    "the packer stores in clear - is made from the cap given in the write slot only on paths that found the 'ro.' or "
    "'imm.' prefix on that cap (on every other path the node stays opaque, so a recorded refusal that execution falls "
    "through, or that is overwritten later, cannot turn into an accepted child), and from any given cap only on paths "
    "that passed it through uri.from_string and found no refusal; "
    "(11, value provenance through all reaching definitions, container stores and - by descent - package-local helpers and "
    "own methods) every node in what DirectoryNode._unpack_contents returns comes out of the node factory call made on "
    "that invocation (whose rw slot (1) gates on 'not self.is_readonly()'): module-level state, attributes of the node "
    "and whatever is reached through them (a memo of unpacked directories or of unpacked entries, in the function, in a "
    "helper, on the shared nodemaker) may reach the result only through a lookup whose key depends on the writeability "
    "of the unpacking node (is_readonly() / get_writekey() / get_write_uri() of self or self._node), so that a read-only "
    "view is never served children unpacked under the write cap; likewise _create_and_validate_node answers with the "
    "node create_from_cap made on that call or with one remembered under a key that includes the write cap given, and "
    "_create_readonly_node with its argument ((5) gates that) or a node made on that call. "
    "Undecided: who else fills a memo that is read under a context-dependent key (noted in the evidence); a memo private "
    "to one DirectoryNode object would be safe but is reported all the same unless its key names the writeability; a "
    "memo in front of _unpack_contents (DirectoryNode._read and its callers); that the salt keeps its 16-byte width (a truncated salt makes key streams collide),  AES/SHA-256 strength, that uri.from_string(readcap) yields a read-only cap object and that <cap>.get_readonly() drops the writekey (C16.1), that an UnknownNode with a recorded error is refused by every consumer (raise_error() callers: C19/C16), what wrappers answer for is_readonly() (ProhibitedNode delegates; a wrong answer misreports but does not add authority), get_readcap() / MutableFileNode.get_readonly() where nothing but (9) uses them, "
    "CTR-mode length leak of the rw slot (ticket #925); what the HMAC trailer is computed over and in which "
    "argument order (any hash of key/cap material is treated as one-way); that writer and reader derive the same "
    "key (argument order of mutable_rwcap_key_hash, slice widths: C19.3 / C17.6); the ro./imm. prefix "
    "strengthening and the error branches of UnknownNode.__init__ (C16(e)); that the node whose get_writekey() "
    "keys a packer call is the node the packed bytes are written to; refusal of non-empty rw slots and of "
    "mutable children in immutable directories (C19).")
TECHNIQUE = ("static analysis: CFG gate rules, def-use closures with sanitiser cuts, sibling agreement over node classes, "
             "interprocedural parameter->return dependency summaries, path-sensitive abstract interpretation of "
             "UnknownNode.__init__ (shared with C16), interprocedural value provenance of returned children")

DN = "dirnode:DirectoryNode"
READONLY_CALL = re.compile(r"^(self|filecap)(\.\w+)?\.is_readonly\(\)$")

# names through which a node hands out (or could hand out) write authority
WRITE_AUTHORITY = {"get_write_uri", "get_uri", "get_cap", "get_repair_cap", "get_writekey", "rw_uri",
                   "_uri", "_writekey", "writekey", "get_privkey", "_privkey"}


# ------------------------------------------------------------------ helpers
def cut_closure(fn, roots, cut_tails):
    """Backward def-use closure of the expressions `roots` inside fn, not
    descending into calls whose callee tail is in cut_tails (sanitisers).
    Returns (leaf names/attr paths, calls seen outside the cuts, the cut calls)."""
    defs = def_exprs(fn)
    seen = set()
    calls = []
    cuts = []
    done = set()

    def scan(e):
        stack = [e]
        while stack:
            x = stack.pop()
            if isinstance(x, ast.Call):
                if call_tail(x) in cut_tails:
                    cuts.append(x)
                    continue
                calls.append(x)
            if isinstance(x, ast.Attribute):
                p = attr_path(x)
                if p:
                    use(p)
                    continue
            if isinstance(x, ast.Name):
                use(x.id)
                continue
            if isinstance(x, (ast.FunctionDef, ast.AsyncFunctionDef, ast.ClassDef)):
                continue
            if isinstance(x, ast.IfExp):
                # the condition of 'a if c else b' selects, it does not feed (same as an if statement,
                # whose test def_exprs does not record either)
                stack.extend([x.body, x.orelse])
                continue
            stack.extend(ast.iter_child_nodes(x))

    def use(name):
        if name in seen:
            return
        seen.add(name)
        root = name.split(".", 1)[0]
        if root != name and root not in seen:
            use(root)
        for v in defs.get(name, []):
            if id(v) not in done:
                done.add(id(v))
                scan(v)
    for r in roots:
        scan(r)
    return seen, calls, cuts


def ifexp_guarded(fnorm, n, call, fact_ok):
    """True when `call` sits, inside CFG node n, in a branch of a conditional
    expression whose condition - taken with the polarity of that branch -
    satisfies fact_ok (the CFG does not split 'a if c else b')."""
    def walk(x, guarded):
        if x is call:
            return guarded
        if isinstance(x, (ast.FunctionDef, ast.AsyncFunctionDef, ast.ClassDef, ast.Lambda)):
            return None
        if isinstance(x, ast.IfExp):
            for (sub, pol) in ((x.body, True), (x.orelse, False)):
                g = guarded or bool(fact_ok(fnorm.at(n).cmp(x.test, pol)))
                res = walk(sub, g)
                if res is not None:
                    return res
            return walk(x.test, guarded)
        for c in ast.iter_child_nodes(x):
            res = walk(c, guarded)
            if res is not None:
                return res
        return None
    return bool(walk(n.ast, False))


def node_of(cfg, call):
    for n in cfg.nodes:
        if any(c is call for c in node_calls(n, into_lambda=True)):
            return n
    raise AnalysisError("call not found in CFG")


def return_nodes(fn):
    return [n for n in fn.cfg().find(is_return) if n.id in fn.cfg().reachable_nodes()]

FRESH_RANDOMNESS = {"urandom", "token_bytes", "randbytes"}
_ADOPTING = False       # re-entrancy guard of the C16 adoption at the end of run()


class ParamFlow:
    """May-depend analysis that follows calls of package-local plain functions
    by parameter -> return summaries: an argument counts only when the callee's
    return value may depend on the parameter it is bound to.  Calls that cannot
    be resolved (methods, classes, library functions) keep every operand, so
    the result over-approximates: a name that is absent cannot influence the
    value."""

    def __init__(self, idx):
        self.cg = get_callgraph(idx)
        self.memo = {}
        self.summarised = 0

    def summary(self, g):
        """(parameters the return value of g may depend on, uses fresh randomness)"""
        if g.qual in self.memo:
            return self.memo[g.qual]
        self.memo[g.qual] = (set(g.params), False)        # recursion: assume everything
        rets = [n.ast.value for n in return_nodes(g) if n.ast.value is not None]
        names, fresh = self.closure(g, rets)
        self.memo[g.qual] = ({p for p in g.params if p in names}, fresh)
        return self.memo[g.qual]

    @staticmethod
    def bind(g, call):
        """parameter name -> argument expression, None when not statically bindable"""
        a = g.node.args
        if a.vararg or a.kwarg or any(isinstance(x, ast.Starred) for x in call.args) \
                or any(k.arg is None for k in call.keywords):
            return None
        pos = [x.arg for x in list(a.posonlyargs) + list(a.args)]
        if len(call.args) > len(pos):
            return None
        out = dict(zip(pos, call.args))
        known = set(pos) | {x.arg for x in a.kwonlyargs}
        for k in call.keywords:
            if k.arg not in known or k.arg in out:
                return None
            out[k.arg] = k.value
        return out

    def closure(self, f, roots):
        """(names / attribute paths the values of `roots` may depend on inside f, fresh randomness seen)"""
        defs = def_exprs(f)
        seen = set()
        done = set()
        fresh = [False]

        def scan(e):
            stack = [e]
            while stack:
                x = stack.pop()
                if isinstance(x, ast.Call):
                    if call_tail(x) in FRESH_RANDOMNESS:
                        fresh[0] = True
                    tg = self.cg.resolve(f, x)
                    if len(tg) == 1 and tg[0].cls is None and tg[0].parent is None \
                            and isinstance(tg[0].node, ast.FunctionDef):
                        b = self.bind(tg[0], x)
                        if b is not None:
                            keep, fr = self.summary(tg[0])
                            self.summarised += 1
                            if fr:
                                fresh[0] = True
                            stack.extend(v for (p, v) in b.items() if p in keep)
                            continue
                if isinstance(x, ast.Attribute):
                    p = attr_path(x)
                    if p:
                        use(p)
                        continue
                if isinstance(x, ast.Name):
                    use(x.id)
                    continue
                if isinstance(x, (ast.FunctionDef, ast.AsyncFunctionDef, ast.ClassDef)):
                    continue
                stack.extend(ast.iter_child_nodes(x))

        def use(name):
            if name in seen:
                return
            seen.add(name)
            root = name.split(".", 1)[0]
            if root != name and root not in seen:
                use(root)
            for v in defs.get(name, []):
                if id(v) not in done:
                    done.add(id(v))
                    scan(v)
        for r in roots:
            scan(r)
        return seen, fresh[0]


_WRITEABILITY = ("is_readonly", "get_writekey", "get_write_uri")     # what tells a writeable node from a read-only one


class Provenance:
    """Where the node objects in a returned value can come from (C18.11).

    Walks every value a function may return backwards: through all reaching definitions of a local, through what is
    stored into a local container (X[k] = v, X.method(.., v, ..)), through the arguments and - by descent, at most
    three levels - the returned values of package-local helpers and of methods called on self.  A walk ends at

      * the *factory* call (is_factory): the one place that may make a child node here; its arguments are decided
        by other rules (C18.1 / C18.5),
      * parameters, constants, code objects, results of library calls on walked values (data),
      * state that outlives the call - a module-level object, an attribute of self, anything reached through them.

    State is refused (`lost`) unless it is read through a lookup whose key depends on the *context*: for the
    unpacker the writeability of the unpacking node (<root>.is_readonly() / get_writekey() / get_write_uri(), also
    through a local such as `writeable`), for the node factory the write cap it was given.  Whatever was remembered
    under a key without the context was made for some other caller - possibly one holding the write cap."""

    MUTATORS = {"append", "add", "update", "extend", "insert", "setdefault", "__setitem__", "set_with_aux", "pop",
                "clear", "remove", "__delitem__", "popitem", "appendleft", "move_to_end"}

    def __init__(self, idx, is_factory, what):
        self.idx = idx
        self.is_factory = is_factory
        self.what = what                   # "this node's writeability" / "the write cap given"
        self.lost = []                     # (fn, ast node, message)
        self.leaves = []                   # (fn, ast node, kind)
        self.states = 0
        self._done = set()
        self._envs = {}
        self._active = []
        self._keep = []

    # -- environments
    class Env:
        """One activation: the function, which of its names carry the context (roots: node objects, flags: values that
        depend on the context), and where its parameters come from (binding: parameter -> (caller env, node, expr))."""

        def __init__(self, static, roots, flags, depth, binding):
            self.__dict__.update(static)
            self.roots, self.flags, self.depth, self.binding = frozenset(roots), frozenset(flags), depth, binding

    def static(self, fn):
        if fn.qual not in self._envs:
            d = {"fn": fn, "cfg": fn.cfg(), "fnorm": FlowNorm(fn), "defs": def_exprs(fn), "locals": set(fn.params),
                 "comp": set()}
            for n in d["cfg"].nodes:
                d["locals"] |= {x for x in node_stores(n) if "." not in x and not x.endswith("[]")}
            for x in func_own_nodes(fn):
                if isinstance(x, ast.Global):
                    d["locals"] -= set(x.names)
                if isinstance(x, ast.comprehension):
                    d["comp"] |= {t.id for t in ast.walk(x.target) if isinstance(t, ast.Name)}
                if isinstance(x, (ast.Yield, ast.YieldFrom, ast.Await)):
                    raise AnalysisError("%s is a generator / coroutine: cannot follow what it returns" % fn.qual)
            d["live"] = d["cfg"].reachable_nodes()
            self._envs[fn.qual] = d
        return self._envs[fn.qual]

    def env(self, fn, roots=(), flags=(), depth=0, binding=None):
        e = Provenance.Env(self.static(fn), roots, flags, depth, binding or {})
        self._keep.append(e)                           # activations are identified by id()
        return e

    # -- bookkeeping
    def lose(self, env, x, msg):
        self.lost.append((env.fn, x, msg))

    def leaf(self, env, x, kind):
        self.leaves.append((env.fn, x, kind))

    # -- does an expression depend on the context?
    def ctxdep(self, env, e):
        names, calls, _ = cut_closure(env.fn, [e], set())
        if names & env.flags:
            return True
        for c in calls:
            if call_tail(c) in _WRITEABILITY and isinstance(c.func, ast.Attribute):
                p = attr_path(c.func.value)
                if p is not None and any(p == r_ or p == r_ + "._node" for r_ in env.roots):
                    return True
        return False

    # -- is this name / attribute chain something that outlives the call?
    def state_of(self, env, e):
        """None (not state), or a description of the state the expression denotes."""
        p = attr_path(e)
        if p is None:
            return None
        root = p.split(".", 1)[0]
        if root in env.locals or root in env.comp:
            if root == "self" and env.fn.cls is not None and p != "self":
                return "%s (an attribute of the node, shared with whoever else holds the object behind it)" % p
            return None
        m = env.fn.module
        tgt = self.idx.resolve_expr(m, e)
        if tgt is not None:
            return None                                # function, class, module
        if root in m.imports or root in m.funcs or root in m.classes:
            return None                                # something inside an imported module / a class: code or constant
        if root in m.assigns:
            try:
                v = get_folder(self.idx).fold(ast.Name(id=root, ctx=ast.Load()), m, None)
                if v is None or isinstance(v, (bool, int, float, str, bytes, tuple, frozenset)):
                    return None                        # a module-level constant
            except NotConstant:
                pass
            return "%s (module-level state, shared by every node of the process)" % p
        import builtins
        if hasattr(builtins, root):
            return None
        raise AnalysisError("%s: cannot tell what %s is" % (env.fn.qual, p))

    # -- the walk
    def returns(self, env):
        rets = [n for n in env.cfg.find(is_return) if n.id in env.live]
        for n in rets:
            if n.ast.value is not None:
                self.value(env, n, n.ast.value)
        return rets

    def def_values(self, env, dn, name):
        v = env.fnorm._def_value(dn, name)
        if v is not None:
            return [v]
        a = dn.ast
        if dn.kind == "stmt":
            if isinstance(a, (ast.Assign, ast.AnnAssign)):
                return [a.value] if a.value is not None else []
            if isinstance(a, ast.AugAssign):
                return [aug_value(a)]
            if isinstance(a, (ast.Import, ast.ImportFrom)):
                return []
            if isinstance(a, (ast.FunctionDef, ast.AsyncFunctionDef, ast.ClassDef)):
                raise AnalysisError("%s: the local definition %s flows into a returned value" % (env.fn.qual, name))
        if dn.kind == "iter":
            return [a.iter]
        if dn.kind == "with":
            return [i.context_expr for i in a.items]
        if dn.kind == "except":
            return []
        out = [x.value for x in (own_nodes(a) if a is not None else [])
               if isinstance(x, ast.NamedExpr) and isinstance(x.target, ast.Name) and x.target.id == name]
        if out:
            return out
        raise AnalysisError("%s: cannot follow the definition of %s at line %s" % (env.fn.qual, name, dn.lineno))

    def contents(self, env, name):
        """What is put into the local `name` anywhere in the function: X[k] = v, X.method(.., v, ..); a helper that
        is handed X and stores into it cannot be followed."""
        key = (id(env), "contents", name)
        if key in self._done:
            return
        self._done.add(key)
        for n in env.cfg.nodes:
            if n.id not in env.live or n.ast is None:
                continue
            a = n.ast
            if n.kind == "stmt" and isinstance(a, (ast.Assign, ast.AugAssign)):
                ts = a.targets if isinstance(a, ast.Assign) else [a.target]
                for t in ts:
                    for x in ast.walk(t):
                        if isinstance(x, ast.Subscript) and isinstance(x.ctx, ast.Store) and attr_path(x.value) == name:
                            self.value(env, n, a.value)
            for c in node_calls(n):
                if isinstance(c.func, ast.Attribute) and attr_path(c.func.value) == name:
                    keyed = c.func.attr in ("set_with_aux", "setdefault", "__setitem__", "get", "pop", "get_aux")
                    for x in list(c.args)[1 if keyed else 0:] + [k.value for k in c.keywords]:
                        self.value(env, n, x)
                    continue
                handed = [i for i, x in enumerate(c.args) if isinstance(x, ast.Name) and x.id == name] + \
                    [k.arg for k in c.keywords if isinstance(k.value, ast.Name) and k.value.id == name]
                if not handed or self.is_factory(env, c):
                    continue
                g = self.callee(env, c)
                if g is None:
                    continue                           # library call (len, isinstance, log.msg ..): reads only
                b = self.bind(g, c, method=isinstance(c.func, ast.Attribute) and attr_path(c.func.value) == "self")
                if b is None:
                    raise AnalysisError("%s hands %s to %s with */** arguments" % (env.fn.qual, name, g.name))
                for (q, x) in b.items():
                    if isinstance(x, ast.Name) and x.id == name:
                        for y in func_own_nodes(g):
                            st = isinstance(y, ast.Subscript) and isinstance(y.ctx, (ast.Store, ast.Del)) and attr_path(y.value) == q
                            mu = isinstance(y, ast.Call) and isinstance(y.func, ast.Attribute) and attr_path(y.func.value) == q \
                                and y.func.attr in self.MUTATORS
                            if st or mu:
                                raise AnalysisError("%s hands %s to %s, which stores into it: cannot follow" % (
                                    env.fn.qual, name, g.qual))

    def callee(self, env, c):
        """The package function a call runs, when that can be told: a module-level function, or a method of the own
        class called on self."""
        f = c.func
        if isinstance(f, ast.Attribute) and attr_path(f.value) == "self" and env.fn.cls is not None and "self" in env.fn.params:
            return env.fn.cls.lookup(f.attr)
        tgt = self.idx.resolve_expr(env.fn.module, f) if isinstance(f, (ast.Name, ast.Attribute)) else None
        if isinstance(f, ast.Name) and f.id in env.locals:
            return None
        if isinstance(tgt, FuncInfo) and tgt.cls is None and not isinstance(tgt.node, ast.Lambda):
            return tgt
        return None

    @staticmethod
    def bind(g, call, method=False):
        a = g.node.args
        if a.vararg or a.kwarg or any(isinstance(x, ast.Starred) for x in call.args) \
                or any(k.arg is None for k in call.keywords):
            return None
        pos = [x.arg for x in list(a.posonlyargs) + list(a.args)]
        if method:
            pos = pos[1:]
        if len(call.args) > len(pos):
            return None
        out = dict(zip(pos, call.args))
        known = set(pos) | {x.arg for x in a.kwonlyargs}
        for k in call.keywords:
            if k.arg not in known or k.arg in out:
                return None
            out[k.arg] = k.value
        return out

    def descend(self, env, n, c, g, method):
        """Walk what the callee returns; its parameters lead back to the arguments of this call (walked here, in the
        caller, only when a returned value of the callee can be one)."""
        if env.depth >= 8:
            raise AnalysisError("%s: helper calls nested deeper than 8 levels below the analysed function (%s)" % (
                env.fn.qual, g.qual))
        if isinstance(g.node, ast.Lambda):
            raise AnalysisError("%s calls a lambda: cannot follow" % env.fn.qual)
        b = self.bind(g, c, method)
        if b is None:
            raise AnalysisError("%s calls %s with */** arguments: cannot follow the context" % (env.fn.qual, g.name))
        roots, flags = set(), set()
        if method:
            roots |= {"self"} & set(env.roots)
        for (q, x) in b.items():
            if isinstance(x, ast.Name) and x.id in env.roots:
                roots.add(q)
            elif self.ctxdep(env, x):
                flags.add(q)
        k = (g.qual, id(c), id(env))
        if k in self._active or sum(1 for a in self._active if a[0] == g.qual) >= 2:
            return                                     # recursion: the outer walk covers it
        self._active.append(k)
        try:
            binding = {q: (env, n, x) for (q, x) in b.items()}
            if method:
                binding["self"] = None                 # the same object
            self.returns(self.env(g, roots, flags, env.depth + 1, binding))
        finally:
            self._active.pop()

    def container(self, env, n, path, what, keys, e):
        """A value read out of state that outlives the call."""
        if not any(self.ctxdep(env, k) for k in keys):
            shown = ", ".join(src(env.fn, k) for k in keys)
            return self.lose(env, e, "%s returns (or lists as a child) %s: a value remembered from an earlier call in %s "
                             "and looked up %s that does not include %s" % (
                                 short(env.fn), src(env.fn, e), what,
                                 ("by a key (%s)" % shown) if keys else "without a key", self.what))
        # keyed by the context: what this function itself stores there must be keyed the same way
        for sn in env.cfg.nodes:
            a = sn.ast
            if sn.id not in env.live or a is None:
                continue
            ks = []
            if sn.kind == "stmt" and isinstance(a, ast.Assign):
                ks += [t.slice for t in a.targets if isinstance(t, ast.Subscript) and attr_path(t.value) == path]
            for c in node_calls(sn):
                if isinstance(c.func, ast.Attribute) and attr_path(c.func.value) == path and c.args \
                        and c.func.attr in ("setdefault", "__setitem__", "set_with_aux"):
                    ks.append(c.args[0])
            for k in ks:
                if not self.ctxdep(env, k):
                    self.lose(env, k, "%s remembers a result in %s under a key (%s) that does not include %s, and reads "
                              "it back at line %s" % (short(env.fn), path, src(env.fn, k), self.what, getattr(e, "lineno", "?")))
        self.leaf(env, e, "memo keyed by the context")

    def value(self, env, n, e):
        key = (id(env), n.id, id(e))
        if key in self._done:
            return
        self._done.add(key)
        self.states += 1
        if e is None or isinstance(e, ast.Constant):
            return
        if isinstance(e, ast.Name):
            if e.id in env.comp and e.id not in env.fnorm.rd.get(n.id, {}):
                return                                 # bound by a comprehension whose iterable is walked
            if e.id not in env.locals:
                st = self.state_of(env, e)
                if st is not None:
                    self.lose(env, e, "%s returns (or lists as a child) a value made from %s, which does not depend on %s"
                              % (short(env.fn), st, self.what))
                return
            ds = env.fnorm.rd.get(n.id, {}).get(e.id, frozenset())
            if not ds:
                raise AnalysisError("%s: no definition of %s reaches line %s" % (env.fn.qual, e.id, n.lineno))
            for d in sorted(ds):
                if d == C.PARAM_DEF:
                    src_ = env.binding.get(e.id)
                    if src_ is not None:
                        self.value(src_[0], src_[1], src_[2])     # the argument, where the call was made
                    else:
                        self.leaf(env, e, "parameter")
                    continue
                dn = env.cfg.nodes[d]
                for dv in self.def_values(env, dn, e.id):
                    self.value(env, dn, dv)
            self.contents(env, e.id)
            return
        if isinstance(e, ast.Attribute):
            st = self.state_of(env, e) if attr_path(e) is not None else None
            if st is not None:
                self.lose(env, e, "%s returns (or lists as a child) a value made from %s, read without a key that "
                          "includes %s" % (short(env.fn), st, self.what))
                return
            if attr_path(e) is None or attr_path(e).split(".", 1)[0] in env.locals:
                return self.value(env, n, e.value)
            return                                     # code / constant of a module
        if isinstance(e, ast.Subscript):
            st = self.state_of(env, e.value) if attr_path(e.value) is not None else None
            if st is not None:
                return self.container(env, n, attr_path(e.value), st, [e.slice], e)
            return self.value(env, n, e.value)
        if isinstance(e, ast.Call):
            return self.call(env, n, e)
        if isinstance(e, ast.Lambda):
            raise AnalysisError("%s: a lambda flows into a returned value" % env.fn.qual)
        if isinstance(e, (ast.ListComp, ast.SetComp, ast.GeneratorExp, ast.DictComp)):
            for g in e.generators:
                self.value(env, n, g.iter)
            for x in ([e.value] if isinstance(e, ast.DictComp) else [e.elt]):
                self.value(env, n, x)
            return
        if isinstance(e, ast.Dict):
            for x in e.values:
                self.value(env, n, x)
            return
        if isinstance(e, ast.NamedExpr):
            return self.value(env, n, e.value)
        if isinstance(e, ast.IfExp):
            self.value(env, n, e.body)
            return self.value(env, n, e.orelse)
        for x in ast.iter_child_nodes(e):              # tuples, lists, a or b, arithmetic, f-strings ...
            if isinstance(x, ast.expr):
                self.value(env, n, x)

    def call(self, env, n, c):
        f = c.func
        args = list(c.args) + [k.value for k in c.keywords]
        if self.is_factory(env, c):
            return self.leaf(env, c, "factory")
        if isinstance(f, ast.Attribute):
            recv = f.value
            p = attr_path(recv)
            if p == "self" and "self" in env.fn.params and env.fn.cls is not None:
                g = env.fn.cls.lookup(f.attr)
                if g is None:
                    raise AnalysisError("%s calls self.%s(), which is not a method of %s" % (env.fn.qual, f.attr, env.fn.cls.name))
                return self.descend(env, n, c, g, True)
            st = self.state_of(env, recv) if p is not None else None
            if st is not None:
                return self.container(env, n, p, st, args, c)
            if p is not None and p.split(".", 1)[0] not in env.locals:
                g = self.callee(env, c)                # a function of a module
                if g is not None:
                    return self.descend(env, n, c, g, False)
                for x in args:                         # library code: data derived from the arguments
                    self.value(env, n, x)
                return
            self.value(env, n, recv)                   # a method of a value: data derived from it and the arguments
            for x in args:
                self.value(env, n, x)
            return
        if isinstance(f, ast.Name):
            if f.id in env.locals:
                raise AnalysisError("%s calls the local callable %s on the way to a returned value" % (env.fn.qual, f.id))
            st = self.state_of(env, f)
            if st is not None:
                return self.container(env, n, f.id, st, args, c)
            g = self.callee(env, c)
            if g is not None:
                return self.descend(env, n, c, g, False)
            for x in args:                             # a class / library function: data made from the arguments
                self.value(env, n, x)
            return
        self.value(env, n, f)
        for x in args:
            self.value(env, n, x)


class Inline:
    """Value-exact expansion of expressions into the terms of an entry function's parameters (C18.5).

    create_from_cap may keep everything in one body or hand parts of the work to helpers (a key builder, an
    uncached constructor, a filing helper): what the rule has to judge - the string that is parsed, the key a node
    is filed under - is the same value either way.  expand() rewrites an expression of any function reached from the
    entry point into alternatives over the entry point's parameters: a local is replaced by each of its plain
    assignments (x = E, x op= E, x := E), a parameter of a helper by the argument bound to it at the call that was
    followed (positionally / by keyword, defaults filled in - the binding is what a swapped parameter list changes),
    a call of a helper (a method of the own class called on self, static or not, or a function of the same module)
    by each value it returns.  Anything else that binds a name (loop, with, except, unpacking, nested def) makes
    the name opaque; comprehensions, lambdas, generators, decorated or recursive helpers are refused (fail closed).
    sites() lists every own AST node of the entry function and of the helpers reached, with the binding in force."""

    MAX_ALTS = 128
    MAX_DEPTH = 5

    def __init__(self, idx, top, stop=()):
        self.idx = idx
        self.top = top
        self.stop = set(stop)
        self._defs = {}
        self.steps = 0

    # -- definitions of locals
    def defs(self, fn):
        if fn.qual in self._defs:
            return self._defs[fn.qual]
        exact, opaque = {}, set()

        def dark(t):
            for x in ast.walk(t):
                if isinstance(x, ast.Name) and isinstance(x.ctx, (ast.Store, ast.Del)):
                    opaque.add(x.id)
        for n in func_own_nodes(fn):
            if isinstance(n, ast.Assign):
                for t in n.targets:
                    if isinstance(t, ast.Name):
                        exact.setdefault(t.id, []).append(n.value)
                    else:
                        dark(t)
            elif isinstance(n, ast.AnnAssign):
                if isinstance(n.target, ast.Name) and n.value is not None:
                    exact.setdefault(n.target.id, []).append(n.value)
                elif n.value is not None:
                    dark(n.target)
            elif isinstance(n, ast.AugAssign):
                if isinstance(n.target, ast.Name):
                    exact.setdefault(n.target.id, []).append(aug_value(n))
            elif isinstance(n, ast.NamedExpr):
                exact.setdefault(n.target.id, []).append(n.value)
            elif isinstance(n, (ast.For, ast.AsyncFor)):
                dark(n.target)
            elif isinstance(n, (ast.With, ast.AsyncWith)):
                for it in n.items:
                    if it.optional_vars is not None:
                        dark(it.optional_vars)
            elif isinstance(n, ast.ExceptHandler):
                if n.name:
                    opaque.add(n.name)
            elif isinstance(n, (ast.Import, ast.ImportFrom)):
                opaque |= {(a.asname or a.name).split(".", 1)[0] for a in n.names}
            elif isinstance(n, (ast.Global, ast.Nonlocal)):
                opaque |= set(n.names)
            elif isinstance(n, ast.Delete):
                for t in n.targets:
                    dark(t)
            elif isinstance(n, (ast.FunctionDef, ast.AsyncFunctionDef, ast.ClassDef)):
                opaque.add(n.name)
        self._defs[fn.qual] = (exact, opaque)
        return self._defs[fn.qual]

    # -- which calls are followed
    @staticmethod
    def decorators(g):
        return [call_tail(d) if isinstance(d, ast.Call) else (attr_path(d) or "?").rsplit(".", 1)[-1]
                for d in getattr(g.node, "decorator_list", [])]

    def helper(self, fn, c):
        """(callee, drops its first parameter) for a call that is followed, else (None, False)"""
        f = c.func
        if call_tail(c) in self.stop:
            return None, False
        g = None
        if isinstance(f, ast.Attribute) and isinstance(f.value, ast.Name) and f.value.id in ("self", "cls") \
                and fn.cls is not None and fn.params[:1] == [f.value.id]:
            g = fn.cls.lookup(f.attr)
            if g is None:
                return None, False                     # an attribute that holds a callable: not code of the class
        elif isinstance(f, ast.Name):
            exact, opaque = self.defs(fn)
            if f.id in fn.params or f.id in exact or f.id in opaque:
                return None, False
            tgt = self.idx.resolve_expr(fn.module, f)
            if isinstance(tgt, FuncInfo) and tgt.cls is None and tgt.parent is None and tgt.module is self.top.module:
                g = tgt
        if g is None:
            return None, False
        decs = self.decorators(g)
        if isinstance(g.node, (ast.Lambda, ast.AsyncFunctionDef)) or any(d not in ("staticmethod", "classmethod") for d in decs) \
                or any(isinstance(x, (ast.Yield, ast.YieldFrom, ast.Await)) for x in func_own_nodes(g)):
            raise AnalysisError("%s calls %s, which cannot be followed (decorated / generator / lambda)" % (
                fn.qual, g.qual))
        return g, (g.cls is not None and "staticmethod" not in decs)

    def bind_call(self, fn, c, g, drop_first, binding, depth):
        a = g.node.args
        if a.vararg or a.kwarg or any(isinstance(x, ast.Starred) for x in c.args) or any(k.arg is None for k in c.keywords):
            raise AnalysisError("%s calls %s with */** arguments: cannot bind the parameters" % (fn.qual, g.name))
        pos = [x.arg for x in list(a.posonlyargs) + list(a.args)]
        dflt = dict(zip(reversed(pos), reversed(a.defaults)))
        dflt.update({x.arg: d for (x, d) in zip(a.kwonlyargs, a.kw_defaults) if d is not None})
        if drop_first:
            pos = pos[1:]
        if len(c.args) > len(pos):
            raise AnalysisError("%s calls %s with too many arguments" % (fn.qual, g.name))
        raw = dict(zip(pos, c.args))
        known = set(pos) | {x.arg for x in a.kwonlyargs}
        for k in c.keywords:
            if k.arg not in known or k.arg in raw:
                raise AnalysisError("%s calls %s with an unknown / repeated keyword %s" % (fn.qual, g.name, k.arg))
            raw[k.arg] = k.value
        out = {}
        for q in known:
            if q in raw:
                out[q] = self._expand(fn, raw[q], binding, frozenset(), depth)
            elif q in dflt and isinstance(dflt[q], ast.Constant):
                out[q] = [dflt[q]]
            else:
                out[q] = [ast.Name(id="<%s.%s>" % (g.name, q), ctx=ast.Load())]
        if drop_first and g.node.args.args:
            first = (list(a.posonlyargs) + list(a.args))[0].arg
            out[first] = [ast.Name(id="self", ctx=ast.Load())] if first == "self" else [ast.Name(id="<%s>" % first, ctx=ast.Load())]
        return out

    def returned(self, g):
        rets = return_nodes(g)
        vals = [n.ast.value if n.ast.value is not None else ast.Constant(value=None) for n in rets]
        if find_path_avoiding(g.cfg(), lambda m: m.kind == "exit", gate_node=is_return):
            vals.append(ast.Constant(value=None))
        return vals

    # -- expansion
    def expand(self, fn, e, binding):
        out = self._expand(fn, e, binding, frozenset(), 0)
        if not out:
            raise AnalysisError("%s: %s is defined only in terms of itself" % (fn.qual, ast.unparse(e)))
        seen, uniq = set(), []
        for x in out:
            k = ast.dump(x)
            if k not in seen:
                seen.add(k)
                uniq.append(x)
        return uniq

    def _expand(self, fn, e, binding, visiting, depth):
        self.steps += 1
        if self.steps > 20000:
            raise AnalysisError("%s: expansion does not terminate" % fn.qual)
        if e is None or isinstance(e, ast.Constant):
            return [e]
        if isinstance(e, ast.Name):
            exact, opaque = self.defs(fn)
            out = []
            is_param = e.id in fn.params
            if is_param:
                if e.id in binding:
                    out += binding[e.id]
                elif fn is self.top:
                    out.append(e)
                else:
                    out.append(ast.Name(id="<%s.%s>" % (fn.name, e.id), ctx=ast.Load()))
            if e.id in opaque:
                out.append(ast.Name(id="<%s.%s>" % (fn.name, e.id), ctx=ast.Load()))
            if e.id in exact:
                key = (fn.qual, e.id)
                if key not in visiting:
                    for d in exact[e.id]:
                        out += self._expand(fn, d, binding, visiting | {key}, depth)
            elif not is_param and e.id not in opaque:
                out.append(e)                          # self, a module-level name, a builtin
            return out
        if isinstance(e, (ast.ListComp, ast.SetComp, ast.DictComp, ast.GeneratorExp, ast.Lambda, ast.Yield,
                          ast.YieldFrom, ast.Await)):
            raise AnalysisError("%s: cannot expand %s" % (fn.qual, ast.unparse(e)))
        if isinstance(e, ast.NamedExpr):
            return self._expand(fn, e.value, binding, visiting, depth)
        if isinstance(e, ast.Call):
            g, drop = self.helper(fn, e)
            if g is not None:
                if depth >= self.MAX_DEPTH:
                    raise AnalysisError("%s: helper calls nested deeper than %d levels (%s)" % (fn.qual, self.MAX_DEPTH, g.qual))
                b = self.bind_call(fn, e, g, drop, binding, depth)
                out = []
                for rv in self.returned(g):
                    out += self._expand(g, rv, b, frozenset(), depth + 1)
                return out
        # any other expression: the same node over every combination of its expanded operands
        combos = [[]]
        for (name, val) in ast.iter_fields(e):
            if isinstance(val, ast.expr):
                alts = self._expand(fn, val, binding, visiting, depth)
            elif isinstance(val, list) and val and all(isinstance(x, ast.expr) for x in val):
                alts = [[]]
                for x in val:
                    xs = self._expand(fn, x, binding, visiting, depth)
                    alts = [p + [y] for p in alts for y in xs]
                    if len(alts) > self.MAX_ALTS:
                        raise AnalysisError("%s: too many alternatives for %s" % (fn.qual, ast.unparse(e)))
            elif isinstance(val, list) and val and all(isinstance(x, ast.keyword) for x in val):
                alts = [[]]
                for x in val:
                    xs = self._expand(fn, x.value, binding, visiting, depth)
                    alts = [p + [ast.keyword(arg=x.arg, value=y)] for p in alts for y in xs]
                    if len(alts) > self.MAX_ALTS:
                        raise AnalysisError("%s: too many alternatives for %s" % (fn.qual, ast.unparse(e)))
            else:
                alts = [val]
            combos = [p + [(name, a)] for p in combos for a in alts]
            if len(combos) > self.MAX_ALTS:
                raise AnalysisError("%s: too many alternatives for %s" % (fn.qual, ast.unparse(e)))
        out = []
        for p in combos:
            new = copy.copy(e)
            for (name, a) in p:
                setattr(new, name, a)
            out.append(new)
        return out

    # -- every AST node of the entry point and of the helpers reached from it
    def sites(self):
        out = []

        def go(fn, binding, depth, active):
            for x in func_own_nodes(fn):
                out.append((fn, binding, x))
                if isinstance(x, ast.Call):
                    g, drop = self.helper(fn, x)
                    if g is None:
                        continue
                    if g.qual in active:
                        raise AnalysisError("%s calls %s recursively: cannot follow" % (fn.qual, g.qual))
                    if depth >= self.MAX_DEPTH:
                        raise AnalysisError("%s: helper calls nested deeper than %d levels (%s)" % (
                            fn.qual, self.MAX_DEPTH, g.qual))
                    go(g, self.bind_call(fn, x, g, drop, binding, depth), depth + 1, active | {g.qual})
        go(self.top, {}, 0, frozenset([self.top.qual]))
        return out


def run(ctx: Context):
    idx = ctx.idx

    # -- 1. decrypt only when writeable -------------------------------------
    with ctx.rule("C18.1", "R3/R7", "_unpack_contents: _decrypt_rwcapdata only under 'not self.is_readonly()'; the rw "
                  "slot given to the node factory is fed only by b'' and that decryption; no other caller",
                  expected=3) as r:
        fn = idx.func(DN + "._unpack_contents")
        cfg = fn.cfg()
        fnorm = FlowNorm(fn)
        tg = has_call("_decrypt_rwcapdata")
        if not cfg.find(tg):
            raise AnchorVanished("no call of _decrypt_rwcapdata in _unpack_contents")

        def writeable_fact(f):
            return bool(f) and f[0] == "false" and READONLY_CALL.match(f[1]) is not None

        def writeable(n, lab):
            return writeable_fact(fnorm.edge_fact(n, lab))

        def unguarded_decrypt(n):
            return any(not ifexp_guarded(fnorm, n, c, writeable_fact) for c in calls_at(n, "_decrypt_rwcapdata"))
        for n in cfg.find(tg):
            r.site(fn, n.ast, "decrypt site")
        for (n, w) in find_path_avoiding(cfg, unguarded_decrypt, gate_edge=writeable):
            r.violation(fn, fn.loc(n.ast), "child write cap is decrypted on a path that never established "
                        "'not self.is_readonly()' (path: %s)" % w.brief(), w)
        r.count(len(cfg.nodes))
        # provenance of the rw argument of the node factory
        mk = calls_in_func(fn, "_create_and_validate_node")
        if not mk:
            raise AnchorVanished("_unpack_contents no longer calls _create_and_validate_node")
        params = set(fn.params)
        for c in mk:
            r.site(fn, c, "node factory call")
            a0 = arg(c, 0, "rw_uri")
            if a0 is None:
                raise AnchorVanished("node factory call without rw argument")
            names, calls, cuts = cut_closure(fn, [a0], {"_decrypt_rwcapdata"})
            bad = sorted(x for x in names if x in params or x.split(".", 1)[0] in params)
            foreign = sorted(call_name(x) or call_tail(x) for x in calls
                             if call_tail(x) not in ("rstrip", "strip"))
            r.require(not bad and not foreign, fn, fn.loc(c),
                      "the rw slot of a child is fed by %s, not only by the empty constant and "
                      "_decrypt_rwcapdata" % ", ".join(bad + foreign))
            r.require(bool(cuts) or not names, fn, fn.loc(c), "rw slot never comes from _decrypt_rwcapdata")
        # who may decrypt
        bad, badrefs, total = callers_outside(idx, "_decrypt_rwcapdata", [DN + "._unpack_contents"])
        r.site("callers of _decrypt_rwcapdata: %d" % total)
        for cs in bad:
            r.violation(cs.fn, cs.loc, "%s decrypts child write caps outside the writeable gate" % short(cs.fn))
        for (f, nd) in badrefs:
            r.violation(f, f.loc(nd), "%s takes _decrypt_rwcapdata as a value" % short(f))

    # -- 2. write caps reach the entry only through _encrypt_rw_uri ----------
    with ctx.rule("C18.2", "R7", "_pack_normalized_children: child write authority and the writekey reach the "
                  "packed bytes only through _encrypt_rw_uri(writekey, .), called only under 'writekey is not None'",
                  expected=3) as r:
        fn = idx.func("dirnode:_pack_normalized_children")
        cfg = fn.cfg()
        fnorm = FlowNorm(fn)
        rets = [n.ast.value for n in return_nodes(fn) if n.ast.value is not None]
        if not rets:
            raise AnchorVanished("_pack_normalized_children returns nothing")
        wk = "writekey"
        if wk not in fn.params:
            raise AnchorVanished("_pack_normalized_children has no writekey parameter")
        names, calls, cuts = cut_closure(fn, rets, {"_encrypt_rw_uri"})
        r.site(fn, None, "return closure: %d names, %d calls, %d sanitised" % (len(names), len(calls), len(cuts)))
        for c in calls:
            t = call_tail(c)
            if t in WRITE_AUTHORITY:
                r.violation(fn, fn.loc(c), "%s reaches the reader-visible directory bytes without _encrypt_rw_uri"
                            % src(fn, c))
        for nm in sorted(names):
            last = nm.rsplit(".", 1)[-1]
            if "." in nm and last in WRITE_AUTHORITY and not any(
                    isinstance(c.func, ast.Attribute) and attr_path(c.func) == nm for c in calls):
                r.violation(fn, fn.loc(), "attribute %s reaches the reader-visible directory bytes without "
                            "_encrypt_rw_uri" % nm)
        r.require(wk not in names, fn, fn.loc(), "the directory writekey flows into the packed bytes outside "
                  "_encrypt_rw_uri")
        # the sanitised value is the child's get_write_uri()
        srcs = calls_in_func(fn, "get_write_uri")
        if not srcs:
            raise AnchorVanished("_pack_normalized_children no longer reads get_write_uri()")
        if not cuts and not r.violations:
            raise AnchorVanished("_pack_normalized_children no longer calls _encrypt_rw_uri")
        for c in cuts:
            r.site(fn, c, "sanitiser call")
            n = node_of(cfg, c)
            a0, a1 = arg(c, 0, "writekey"), arg(c, 1, "rw_uri")
            r.require(a0 is not None and fnorm.norm(n, a0) == wk, fn, fn.loc(c),
                      "child write cap is encrypted under %s, not under the directory writekey" % src(fn, a0))
            ok = False
            if a1 is not None:
                _n, cl, _c = cut_closure(fn, [a1], set())
                ok = any(call_tail(x) == "get_write_uri" for x in cl)
            r.require(ok, fn, fn.loc(c), "the value encrypted into the rw slot (%s) is not the child's "
                      "get_write_uri()" % src(fn, a1))

        def key_fact(f):
            # 'writekey is not None', or the truth of writekey (which implies it)
            return bool(f) and ((f[0] == "is not" and {f[1], f[2]} == {"None", wk}) or (f[0] == "truth" and f[1] == wk))

        def has_key(n, lab):
            return key_fact(fnorm.edge_fact(n, lab))

        def unguarded_encrypt(n):
            return any(not ifexp_guarded(fnorm, n, c, key_fact) for c in calls_at(n, "_encrypt_rw_uri"))
        for (n, w) in find_path_avoiding(cfg, unguarded_encrypt, gate_edge=has_key, kill=stores(wk)):
            r.violation(fn, fn.loc(n.ast), "_encrypt_rw_uri is reached without 'writekey is not None'", w)
        r.count(len(cfg.nodes))
        # callers hand the backing file's writekey (or None) to the packer
        pc = idx.func(DN + "._pack_contents")
        cs = calls_in_func(pc, "_pack_normalized_children")
        if not cs:
            raise AnchorVanished("_pack_contents no longer calls _pack_normalized_children")
        for c in cs:
            r.site(pc, c, "_pack_contents")
            k = arg(c, 1, "writekey")
            r.require(k is not None and N(pc).norm(k) == "self._node.get_writekey()", pc, pc.loc(c),
                      "directory is packed under %s, not the backing file's writekey" % src(pc, k))

    # -- 3. the superencryption key depends on the writekey ------------------
    with ctx.rule("C18.3", "R7", "_encrypt_rw_uri: the cap leaves only as AES ciphertext under a key derived from "
                  "the writekey parameter (plus salt hash and HMAC); mutable_rwcap_key_hash uses both arguments",
                  expected=2) as r:
        fn = idx.func("dirnode:_encrypt_rw_uri")
        ps = first_positional_params(fn)
        if len(ps) != 2:
            raise AnchorVanished("_encrypt_rw_uri(writekey, rw_uri) signature changed")
        kparam, cparam = ps
        nrm = N(fn, depth=6)
        rets = [n.ast.value for n in return_nodes(fn) if n.ast.value is not None]
        if not rets:
            raise AnchorVanished("_encrypt_rw_uri returns nothing")
        r.site(fn, None)
        oneway = {"encrypt_data", "mutable_rwcap_salt_hash", "hmac", "mutable_rwcap_key_hash",
                  "tagged_hash", "tagged_pair_hash"}
        names, calls, cuts = cut_closure(fn, rets, oneway)
        r.require(cparam not in names, fn, fn.loc(), "the plaintext write cap %s is returned outside "
                  "encrypt_data / hash" % cparam)
        r.require(kparam not in names, fn, fn.loc(), "the writekey is returned in the clear")
        encs = [c for c in cuts if call_tail(c) == "encrypt_data"]
        if not encs:
            raise AnchorVanished("_encrypt_rw_uri no longer calls encrypt_data")
        key_re = re.compile(r"^(\w+\.)*create_encryptor\((\w+\.)*mutable_rwcap_key_hash\((.+, )?%s(, .+)?\)(, .+)?\)$"
                            % re.escape(kparam))
        for c in encs:
            e0, e1 = arg(c, 0), arg(c, 1)
            s = nrm.norm(e0) if e0 is not None else ""
            r.require(key_re.match(s) is not None, fn, fn.loc(c),
                      "the AES key of the rw slot is %s: it is not mutable_rwcap_key_hash(.., %s)" % (s, kparam))
            r.require(e1 is not None and nrm.norm(e1) == cparam, fn, fn.loc(c),
                      "encrypt_data encrypts %s, not the write cap" % src(fn, e1))
        # salt must not depend on the writekey-free... (salt = H(rw_uri) only; never the key itself)
        h = idx.func("util.hashutil:mutable_rwcap_key_hash")
        r.site(h, None)
        hp = first_positional_params(h)
        hrets = [n.ast.value for n in return_nodes(h) if n.ast.value is not None]
        hn, hc, _ = cut_closure(h, hrets, set())
        r.require(len(hp) == 2 and set(hp) <= hn, h, h.loc(), "key hash ignores one of its arguments (%s)" % ", ".join(hp))
        tags = [c for c in hc if call_tail(c) in ("tagged_pair_hash", "tagged_hash")]
        r.require(bool(tags), h, h.loc(), "key hash is no longer a tagged hash")

    # -- 4. get_write_uri per node class --------------------------------------
    with ctx.rule("C18.4", "R6", "every node class: get_write_uri() returns None, a delegated get_write_uri(), or a "
                  "cap only under 'not self.is_readonly()'; is_readonly() comes from the cap; UnknownNode.rw_uri "
                  "is fed only by the rw argument", expected=6) as r:
        impls = [f for f in idx.by_name.get("get_write_uri", [])
                 if f.cls is not None and f.params[:1] == ["self"]]
        for f in impls:
            r.site(f, None)
            cfg = f.cfg()
            fnorm = FlowNorm(f)
            rn = return_nodes(f)
            # falling off the end returns None: fine
            for n in rn:
                v = n.ast.value
                if v is None or (isinstance(v, ast.Constant) and v.value is None):
                    continue
                if isinstance(v, ast.Call) and call_tail(v) == "get_write_uri" and not v.args \
                        and (attr_path(v.func.value) or "").startswith("self."):
                    continue        # wrapper delegates to the wrapped node
                if f.cls.name == "UnknownNode" and fnorm.norm(n, v) == "self.rw_uri":
                    continue        # slot provenance checked below

                def ro_false(m, lab, _fn=fnorm):
                    ft = _fn.edge_fact(m, lab)
                    return bool(ft) and ft[0] == "false" and READONLY_CALL.match(ft[1]) is not None
                bad = find_path_avoiding(cfg, lambda x, _n=n: x is _n, gate_edge=ro_false)
                r.count(len(cfg.nodes))
                for (t, w) in bad:
                    r.violation(f, f.loc(t.ast), "%s.get_write_uri() returns %s without having established "
                                "'not self.is_readonly()'" % (f.cls.name, src(f, v)), w)
            # the class's own is_readonly must be derived from the cap (or constant True)
            ro = f.cls.lookup("is_readonly")
            if ro is None:
                r.violation(f, f.loc(), "%s has get_write_uri but no is_readonly" % f.cls.name)
                continue
            gated = any(READONLY_CALL.match(fnorm.norm(n)) for n in cfg.nodes if n.kind == "test")
            if gated:
                rr = return_nodes(ro)
                r.require(bool(rr), ro, ro.loc(), "%s.is_readonly never returns" % f.cls.name)
                for n in rr:
                    s = N(ro).norm(n.ast.value) if n.ast.value is not None else "None"
                    r.require(re.match(r"^self\.\w+\.is_readonly\(\)$", s) is not None or s == "True", ro, ro.loc(n.ast),
                              "%s.is_readonly() returns %s, not the read-only flag of its cap" % (f.cls.name, s))
            elif all((n.ast.value is None or (isinstance(n.ast.value, ast.Constant) and n.ast.value.value is None))
                     for n in rn):
                # an always-None class must really be read-only
                for n in return_nodes(ro):
                    s = N(ro).norm(n.ast.value) if n.ast.value is not None else "None"
                    r.require(s == "True", ro, ro.loc(n.ast), "%s never yields a write cap but is_readonly() "
                              "returns %s" % (f.cls.name, s))
        # UnknownNode slot provenance
        u = idx.func("unknown:UnknownNode.__init__")
        ups = first_positional_params(u)
        if len(ups) < 2:
            raise AnchorVanished("UnknownNode.__init__(given_rw_uri, given_ro_uri, ..) signature changed")
        rwp, rop = ups[0], ups[1]
        st = [n for n in u.cfg().find(stores("self.rw_uri"))]
        if not st:
            raise AnchorVanished("UnknownNode.__init__ no longer stores self.rw_uri")
        for n in st:
            v = n.ast.value if isinstance(n.ast, ast.Assign) else None
            if v is None:
                raise AnalysisError("unrecognised store of self.rw_uri")
            names, calls, _ = cut_closure(u, [v], set())
            leak = sorted(x for x in names if x != rwp and (x in u.params or x.startswith("self.")))
            r.require(not leak and not calls, u, u.loc(n.ast),
                      "UnknownNode.rw_uri is fed by %s (only the rw argument may fill the write slot)" % (
                          ", ".join(leak + [call_name(c) for c in calls])))
        for f2 in idx.cls("unknown:UnknownNode").methods.values():
            if f2.qual == u.qual:
                continue
            for nd in func_own_nodes(f2):
                if isinstance(nd, ast.Attribute) and nd.attr == "rw_uri" and isinstance(nd.ctx, (ast.Store, ast.Del)):
                    r.violation(f2, f2.loc(nd), "%s re-binds UnknownNode.rw_uri outside __init__" % short(f2))

    # -- 5. which cap a child is built from -----------------------------------
    with ctx.rule("C18.5", "R1/R7", "create_from_cap (helpers followed) builds from 'writecap or readcap' and caches by that cap; dirnode "
                  "factories pass (rw, ro) in order; _create_readonly_node diminishes with (None, get_readonly_uri())",
                  expected=5) as r:
        fn = idx.func("nodemaker:NodeMaker.create_from_cap")
        cfg = fn.cfg()
        fnorm = FlowNorm(fn)
        ps = first_positional_params(fn)
        if ps[:2] != ["writecap", "readcap"]:
            raise AnchorVanished("create_from_cap(writecap, readcap, ..) signature changed")
        big_ok = {norm_src("writecap or readcap"), norm_src("writecap if writecap else readcap"),
                  norm_src("readcap if not writecap else writecap")}
        # The body may be one function or split into helpers (key builder, uncached constructor, filing helper):
        # every construct below is looked for in create_from_cap and in the helpers it calls on self / in its module,
        # and every expression is judged after expansion into create_from_cap's own parameters, with the helpers'
        # parameters replaced by the arguments bound to them at the call followed (Inline).
        inl = Inline(idx, fn, stop={"from_string", "_create_from_single_cap"})
        sites = inl.sites()
        caps = set(ps[:2])

        def shown(alts):
            return " | ".join(sorted({norm_plain(a) for a in alts}))
        fs = [(g, b, x) for (g, b, x) in sites if isinstance(x, ast.Call) and call_tail(x) == "from_string"]
        if not fs:
            raise AnchorVanished("create_from_cap no longer parses the cap with uri.from_string")
        for (g, b, c) in fs:
            r.site(g, c, "cap parsed")
            a0 = arg(c, 0)
            alts = inl.expand(g, a0, b) if a0 is not None else []
            r.require(bool(alts) and all(norm_plain(a) in big_ok for a in alts), g, g.loc(c),
                      "the child node is built from %s, not from 'writecap or readcap'" % shown(alts))
        mk = [(g, b, x) for (g, b, x) in sites if isinstance(x, ast.Call) and call_tail(x) == "_create_from_single_cap"]
        if not mk:
            raise AnchorVanished("create_from_cap no longer calls _create_from_single_cap")
        for (g, b, c) in mk:
            a0 = arg(c, 0)
            alts = inl.expand(g, a0, b) if a0 is not None else []
            ok = bool(alts) and all(isinstance(a, ast.Call) and call_tail(a) == "from_string" and arg(a, 0) is not None
                                    and norm_plain(arg(a, 0)) in big_ok for a in alts)
            r.require(ok, g, g.loc(c), "node is created from %s, not from the cap parsed out of 'writecap or readcap'"
                      % shown(alts))
        # cache key contains the cap string itself: every keyed use of self._node_cache (subscript, get / setdefault /
        # pop / ..., 'in'), wherever it sits
        CACHE = "self._node_cache"
        KEYED = {"get", "setdefault", "pop", "__getitem__", "__setitem__", "__contains__", "__delitem__"}

        def is_cache(g, b, e):
            if attr_path(e) == CACHE and "self" in g.params[:1]:
                return True
            if isinstance(e, ast.Name):
                exact, _op = inl.defs(g)
                if e.id in exact or (e.id in g.params and e.id in b):
                    al = inl.expand(g, e, b)
                    hit = [attr_path(a) == CACHE for a in al]
                    if any(hit) and not all(hit):
                        raise AnalysisError("%s: %s is the node cache on some paths only" % (g.qual, e.id))
                    return all(hit)
            return False
        keys = []
        accounted = set()
        for (g, b, x) in sites:
            if isinstance(x, ast.Subscript) and is_cache(g, b, x.value):
                keys.append((g, b, x, x.slice))
                accounted.add(id(x.value))
            elif isinstance(x, ast.Call) and isinstance(x.func, ast.Attribute) and is_cache(g, b, x.func.value):
                accounted.add(id(x.func.value))
                if x.func.attr in KEYED:
                    if not x.args:
                        raise AnalysisError("%s: %s without a positional key" % (g.qual, src(g, x)))
                    keys.append((g, b, x, x.args[0]))
                elif x.func.attr != "clear":
                    raise AnalysisError("%s uses the node cache in a way whose key cannot be told (%s)" % (g.qual, src(g, x)))
            elif isinstance(x, ast.Compare) and len(x.ops) == 1 and isinstance(x.ops[0], (ast.In, ast.NotIn)) \
                    and is_cache(g, b, x.comparators[0]):
                accounted.add(id(x.comparators[0]))
                keys.append((g, b, x, x.left))
            elif isinstance(x, (ast.Assign, ast.AnnAssign, ast.NamedExpr)) and x.value is not None \
                    and attr_path(x.value) == CACHE:
                accounted.add(id(x.value))         # an alias: judged where the name is used
        for (g, b, x) in sites:
            if isinstance(x, ast.Attribute) and attr_path(x) == CACHE and id(x) not in accounted:
                raise AnalysisError("%s uses the node cache in a way whose key cannot be told (line %s)" % (
                    g.qual, getattr(x, "lineno", "?")))
        if not keys:
            raise AnchorVanished("create_from_cap no longer uses self._node_cache")
        r.site(keys[0][0], keys[0][2], "cache key (%d uses)" % len(keys))

        def mentions_cap(e):
            return any(isinstance(y, ast.Name) and y.id in caps for y in ast.walk(e))

        def plain(e):
            """a value that depends on nothing but constants and the other parameters of create_from_cap"""
            for y in ast.walk(e):
                if isinstance(y, ast.Name):
                    if y.id in caps or not (y.id in fn.params or y.id in ("bool", "int", "bytes", "str", "True", "False")):
                        return False
                elif isinstance(y, ast.Call):
                    if not (isinstance(y.func, ast.Name) and y.func.id in ("bool", "int", "bytes", "str")):
                        return False
                elif not isinstance(y, (ast.Constant, ast.IfExp, ast.BoolOp, ast.UnaryOp, ast.Compare, ast.boolop,
                                        ast.unaryop, ast.cmpop, ast.expr_context, ast.BinOp, ast.operator,
                                        ast.JoinedStr, ast.FormattedValue, ast.Tuple)):
                    return False
            return True

        def key_expr_ok(e):
            """<parts independent of the caps> + (writecap or readcap), as a sum or a tuple; a conditional whose test
            does not look at the caps is judged arm by arm"""
            if isinstance(e, ast.IfExp) and plain(e.test):
                return key_expr_ok(e.body) and key_expr_ok(e.orelse)
            ops = []

            def flat(x):
                if isinstance(x, ast.BinOp) and isinstance(x.op, ast.Add):
                    flat(x.left)
                    flat(x.right)
                elif isinstance(x, ast.Tuple):
                    for y in x.elts:
                        flat(y)
                else:
                    ops.append(x)
            flat(e)
            var = [o for o in ops if mentions_cap(o)]
            rest = [o for o in ops if not mentions_cap(o)]
            return len(var) == 1 and norm_plain(var[0]) in big_ok and all(plain(o) for o in rest)
        for (g, b, x, k) in keys:
            alts = inl.expand(g, k, b)
            r.count(len(alts))
            ok = bool(alts) and all(key_expr_ok(a) for a in alts)
            r.require(ok, g, g.loc(x),
                      "node cache is keyed by %s (= %s in terms of create_from_cap's arguments), not by <prefix> + "
                      "(writecap or readcap), the cap the node is built from: a node cached for one cap could be returned "
                      "for another (the writeable node for the read cap)" % (src(g, k), shown(alts)))
        # UnknownNode gets the two slots in order
        for (g, b, c) in sites:
            if isinstance(c, ast.Call) and call_tail(c) == "UnknownNode" and len(c.args) >= 2 \
                    and not (isinstance(c.args[0], ast.Constant) and isinstance(c.args[1], ast.Constant)):
                a0, a1 = inl.expand(g, c.args[0], b), inl.expand(g, c.args[1], b)
                r.require(all(attr_path(a) == "writecap" for a in a0) and all(attr_path(a) == "readcap" for a in a1),
                          g, g.loc(c), "UnknownNode is given (%s, %s) for its (write, read) slots" % (shown(a0), shown(a1)))
        # dirnode factory
        f2 = idx.func(DN + "._create_and_validate_node")
        p2 = first_positional_params(f2)
        cs = calls_in_func(f2, "create_from_cap")
        if not cs:
            raise AnchorVanished("_create_and_validate_node no longer calls create_from_cap")
        for c in cs:
            r.site(f2, c, "factory forwards caps")
            a0, a1 = arg(c, 0, "writecap"), arg(c, 1, "readcap")
            r.require(attr_path(a0) == p2[0] and attr_path(a1) == p2[1], f2, f2.loc(c),
                      "create_from_cap is given (%s, %s) instead of (%s, %s)" % (src(f2, a0), src(f2, a1), p2[0], p2[1]))
        # inside dirnode.py children are built only by that factory
        dm = idx.module("allmydata.dirnode")
        for g in idx.funcs.values():
            if g.module is not dm or g.qual == f2.qual or g.qual.startswith(f2.qual + "."):
                continue
            for c in calls_in_func(g, "create_from_cap"):
                r.violation(g, g.loc(c), "%s builds a node with create_from_cap outside _create_and_validate_node "
                            "(bypasses the (rw, ro) discipline and raise_error)" % short(g))
        # the unpacker hands (rw, ro) in that order
        un = idx.func(DN + "._unpack_contents")
        for c in calls_in_func(un, "_create_and_validate_node"):
            a1 = arg(c, 1, "ro_uri")
            names, calls, _ = cut_closure(un, [a1], set()) if a1 is not None else (set(), [], [])
            r.require(not any(call_tail(x) == "_decrypt_rwcapdata" for x in calls), un, un.loc(c),
                      "the decrypted write cap is passed in the ro slot")
        # diminishing helper
        f3 = idx.func(DN + "._create_readonly_node")
        p3 = first_positional_params(f3)
        cfg3 = f3.cfg()
        fn3 = FlowNorm(f3)
        cs = calls_in_func(f3, "_create_and_validate_node")
        if not cs:
            raise AnchorVanished("_create_readonly_node no longer re-creates the node")
        for c in cs:
            r.site(f3, c, "diminish")
            a0, a1 = arg(c, 0, "rw_uri"), arg(c, 1, "ro_uri")
            r.require(isinstance(a0, ast.Constant) and a0.value is None, f3, f3.loc(c),
                      "read-only copy is created with rw slot %s" % src(f3, a0))
            r.require(a1 is not None and N(f3).norm(a1) == "%s.get_readonly_uri()" % p3[0], f3, f3.loc(c),
                      "read-only copy is created from %s" % src(f3, a1))
        same = [n for n in return_nodes(f3) if isinstance(n.ast.value, ast.Name) and n.ast.value.id == p3[0]]

        def is_ro(m, lab):
            ft = fn3.edge_fact(m, lab)
            return bool(ft) and ft[0] == "truth" and ft[1] == "%s.is_readonly()" % p3[0]
        for n in same:
            for (t, w) in find_path_avoiding(cfg3, lambda x, _n=n: x is _n, gate_edge=is_ro):
                r.violation(f3, f3.loc(t.ast), "_create_readonly_node returns the node itself without "
                            "having seen node.is_readonly()", w)
        r.site(f3, None, "identity returns: %d" % len(same))

    # -- 6. writekey exists only for writeable caps ----------------------------
    with ctx.rule("C18.6", "R3/R4", "MutableFileNode._writekey is non-None only under 'not filecap.is_readonly()' "
                  "(or fresh keys); get_writekey returns it; _decrypt_rwcapdata keys with self._node.get_writekey()",
                  expected=4) as r:
        MF = "mutable.filenode:MutableFileNode"
        fn = idx.func(MF + ".init_from_cap")
        cfg = fn.cfg()
        fnorm = FlowNorm(fn)
        st = cfg.find(stores("self._writekey"))
        if not st:
            raise AnchorVanished("init_from_cap no longer stores self._writekey")

        def nonnull(n):
            if "self._writekey" not in node_stores(n):
                return False
            v = n.ast.value if isinstance(n.ast, (ast.Assign, ast.AnnAssign)) else None
            return not (isinstance(v, ast.Constant) and v.value is None)

        def cap_writeable(n, lab):
            ft = fnorm.edge_fact(n, lab)
            return bool(ft) and ft[0] == "false" and READONLY_CALL.match(ft[1]) is not None
        nn = cfg.find(nonnull)
        for n in st:
            r.site(fn, n.ast, "writekey store")
        r.require(bool(nn), fn, fn.loc(), "init_from_cap never stores a writekey")
        for (n, w) in find_path_avoiding(cfg, nonnull, gate_edge=cap_writeable):
            r.violation(fn, fn.loc(n.ast), "a writekey is stored for a cap that was not shown to be writeable "
                        "(path: %s)" % w.brief(), w)
        # ... and what is stored is the cap's own writekey field: any other field of the cap (readkey,
        # storage index, fingerprint) is known to read-cap holders, and the directory superencrypts with it
        capp = first_positional_params(fn)[:1]
        wk_re = re.compile(r"^(self\._uri|%s)\.writekey$" % "|".join(re.escape(p) for p in capp + ["filecap"]))
        for n in nn:
            v = n.ast.value if isinstance(n.ast, (ast.Assign, ast.AnnAssign)) else None
            s = fnorm.norm(n, v) if v is not None else "?"
            r.require(wk_re.match(s) is not None, fn, fn.loc(n.ast),
                      "init_from_cap stores %s as the node's writekey, not the writekey field of its cap: the "
                      "directory superencryption key would be derived from a value read-cap holders know" % s)
        # every normal exit has passed a store (a node has no _writekey attribute before), unless the
        # constructor already binds it to None
        ctor = idx.cls(MF).methods.get("__init__")
        ctor_none = False
        if ctor is not None:
            cst = ctor.cfg().find(stores("self._writekey"))
            ctor_none = bool(cst) and all(isinstance(n.ast, ast.Assign) and isinstance(n.ast.value, ast.Constant)
                                          and n.ast.value.value is None for n in cst)
            for n in cst:
                r.require(ctor_none, ctor, ctor.loc(n.ast), "MutableFileNode.__init__ binds _writekey to a non-None value")
        if not ctor_none:
            for (n, w) in find_path_avoiding(cfg, lambda x: x.kind == "exit", gate_node=stores("self._writekey")):
                r.violation(fn, fn.loc(), "init_from_cap can return without (re)setting _writekey", w)
        allowed = {"allmydata." + MF + ".init_from_cap", "allmydata." + MF + ".create_with_keys",
                   "allmydata." + MF + ".__init__"}
        for f2 in idx.cls(MF).methods.values():
            if f2.qual in allowed:
                continue
            for nd in func_own_nodes(f2, into_lambda=True):
                if isinstance(nd, ast.Attribute) and nd.attr == "_writekey" and isinstance(nd.ctx, (ast.Store, ast.Del)):
                    r.violation(f2, f2.loc(nd), "%s re-binds MutableFileNode._writekey" % short(f2))
        g = idx.func(MF + ".get_writekey")
        r.site(g, None)
        for n in return_nodes(g):
            s = N(g).norm(n.ast.value) if n.ast.value is not None else "None"
            r.require(s == "self._writekey", g, g.loc(n.ast), "get_writekey returns %s" % s)
        d = idx.func(DN + "._decrypt_rwcapdata")
        kc = calls_in_func(d, "mutable_rwcap_key_hash")
        if not kc:
            raise AnchorVanished("_decrypt_rwcapdata no longer derives its key with mutable_rwcap_key_hash")
        for c in kc:
            r.site(d, c, "decrypt key")
            a1 = arg(c, 1, "writekey")
            r.require(a1 is not None and N(d).norm(a1) == "self._node.get_writekey()", d, d.loc(c),
                      "child write caps are decrypted with a key derived from %s, not from the backing file's "
                      "writekey" % src(d, a1))

    # -- 7. one key stream per child -------------------------------------------
    with ctx.rule("C18.7", "R7", "_encrypt_rw_uri: the AES-CTR key stream (key and IV of create_encryptor) depends on "
                  "the child's write cap or fresh randomness, and on the writekey, through the hash helpers "
                  "(parameter->return summaries); the reader-visible salt hash is a tagged hash of its argument",
                  expected=2) as r:
        fn = idx.func("dirnode:_encrypt_rw_uri")
        ps = first_positional_params(fn)
        if len(ps) != 2:
            raise AnchorVanished("_encrypt_rw_uri(writekey, rw_uri) signature changed")
        kparam, cparam = ps
        encs = calls_in_func(fn, "encrypt_data")
        if not encs:
            raise AnchorVanished("_encrypt_rw_uri no longer calls encrypt_data")
        pf = ParamFlow(idx)
        for c in encs:
            e0 = arg(c, 0, "encryptor")
            if e0 is None:
                raise AnchorVanished("encrypt_data without an encryptor argument")
            names, fresh = pf.closure(fn, [e0])
            r.site(fn, c, "key stream depends on {%s}%s; %d helper calls summarised" % (
                ", ".join(sorted(x for x in names if x in ps)), " + fresh randomness" if fresh else "", pf.summarised))
            r.count(len(pf.memo))
            r.require(cparam in names or fresh, fn, fn.loc(c),
                      "the AES-CTR key stream of the rw slot (%s) depends neither on the child's write cap %s nor on "
                      "fresh randomness: all children of a directory are encrypted under one key stream, so a read-cap "
                      "holder who knows one child's write cap recovers the others" % (src(fn, e0), cparam))
            r.require(kparam in names, fn, fn.loc(c),
                      "the AES-CTR key stream of the rw slot (%s) does not depend on %s: it can be recomputed from "
                      "reader-visible data" % (src(fn, e0), kparam))
        # the salt is stored in the clear next to the ciphertext: whatever it is computed from must go through a hash
        sh = idx.func("util.hashutil:mutable_rwcap_salt_hash")
        r.site(sh, None)
        sp = first_positional_params(sh)
        srets = [n.ast.value for n in return_nodes(sh) if n.ast.value is not None]
        if len(sp) != 1 or not srets:
            raise AnchorVanished("mutable_rwcap_salt_hash(x) signature changed")
        keep, _fr = pf.summary(sh)
        r.require(sp[0] in keep, sh, sh.loc(), "the per-child salt hash ignores its argument %s: every child gets the "
                  "same salt and therefore the same key stream" % sp[0])
        # (.digest() of a hasher object is a cut as well: feeding a hasher and returning its digest is the same hash)
        snames, _sc, scuts = cut_closure(sh, srets, {"tagged_hash", "tagged_pair_hash", "digest"})
        r.require(sp[0] not in snames and bool(scuts), sh, sh.loc(),
                  "the reader-visible salt exposes its argument %s outside a tagged hash" % sp[0])

    # -- 8. every packer call is keyed by a writekey (or by nothing) -------------
    with ctx.rule("C18.8", "R7", "every call of _pack_normalized_children, and of each function that passes its own "
                  "writekey parameter through to it, hands None, <node>.get_writekey() or such a pass-through "
                  "parameter as the superencryption key; the packers are never taken as values",
                  expected=4) as r:
        cg = get_callgraph(idx)
        root = idx.func("dirnode:_pack_normalized_children")
        if "writekey" not in root.params:
            raise AnchorVanished("_pack_normalized_children has no writekey parameter")
        work = [(root, "writekey")]
        packers = set()

        def key_ok(f, e, visiting):
            """None when `e` is an admissible key inside f, else the offending sub-expression"""
            if isinstance(e, ast.Constant):
                return None if e.value is None else e
            if isinstance(e, ast.IfExp):
                return key_ok(f, e.body, visiting) or key_ok(f, e.orelse, visiting)
            if isinstance(e, ast.BoolOp):
                for x in e.values:
                    b = key_ok(f, x, visiting)
                    if b is not None:
                        return b
                return None
            if isinstance(e, ast.Call):
                if call_tail(e) == "get_writekey" and not e.args and not e.keywords \
                        and isinstance(e.func, ast.Attribute) and attr_path(e.func.value):
                    return None
                return e
            if isinstance(e, ast.Name):
                if (f.qual, e.id) in visiting:
                    return None
                visiting = visiting | {(f.qual, e.id)}
                ds = def_exprs(f).get(e.id, [])
                if e.id in f.params:
                    work.append((f, e.id))          # pass-through: the callers of f are obliged in turn
                elif not ds:
                    return e
                for dx in ds:
                    b = key_ok(f, dx, visiting)
                    if b is not None:
                        return b
                return None
            return e
        while work:
            g, pname = work.pop()
            if (g.qual, pname) in packers:
                continue
            packers.add((g.qual, pname))
            if isinstance(g.node, ast.Lambda):
                raise AnalysisError("writekey pass-through by a lambda parameter")
            a = g.node.args
            if a.vararg or a.kwarg:
                raise AnalysisError("packer %s takes */** arguments" % short(g))
            pos_names = [x.arg for x in list(a.posonlyargs) + list(a.args)]
            if g.cls is not None and pos_names[:1] in (["self"], ["cls"]):
                pos_names = pos_names[1:]
            pos = pos_names.index(pname) if pname in pos_names else 10 ** 6
            same_name = idx.by_name.get(g.name, [])
            for cs in cg.calls_named(g.name):
                if len(same_name) > 1:
                    tg = cg.resolve(cs.fn, cs.call)
                    if tg and all(t.qual != g.qual for t in tg):
                        continue
                r.site(cs.fn, cs.call, "%s keyed" % g.name)
                if any(isinstance(x, ast.Starred) for x in cs.call.args) or any(k.arg is None for k in cs.call.keywords):
                    r.violation(cs.fn, cs.fn.loc(cs.call), "%s is called with */** arguments: its key cannot be "
                                "determined" % g.name)
                    continue
                k = arg(cs.call, pos, pname)
                if k is None:
                    dflt = dict(zip(reversed(pos_names), reversed(a.defaults)))
                    dflt.update({x.arg: d for (x, d) in zip(a.kwonlyargs, a.kw_defaults) if d is not None})
                    k = dflt.get(pname)
                if k is None:
                    r.violation(cs.fn, cs.fn.loc(cs.call), "%s is called without a %s argument" % (g.name, pname))
                    continue
                bad = key_ok(cs.fn, k, frozenset())
                r.require(bad is None, cs.fn, cs.fn.loc(cs.call),
                          "%s packs directory contents under the key %s (%s): child write caps may only be "
                          "superencrypted under None, a node's get_writekey() or a passed-through writekey; anything "
                          "else is derivable by read-cap holders or by anyone" % (
                              short(cs.fn), src(cs.fn, k), src(cs.fn, bad) if bad is not None else ""))
            for (f, nd) in cg.refs_named(g.name):
                r.violation(f, f.loc(nd), "%s takes the packer %s as a value: its key argument is out of sight"
                            % (short(f), g.name))
        r.count(len(packers))

    # -- 9. what a node answers for its read-only slot ---------------------------
    # _pack_normalized_children stores child.get_readonly_uri() in clear (C18.2 only decides that the packer asks
    # for that method and for nothing stronger), and _create_readonly_node rebuilds the diminished child from it:
    # the answer itself must carry no write authority, in every node class, wrappers included.
    with ctx.rule("C18.9", "R6/R7", "every node class: get_readonly_uri() answers None, <cap>.get_readonly().to_string(), "
                  "a wrapped node's own get_readonly_uri(), the ro slot of an UnknownNode, or the node's own cap only "
                  "where the node is read-only (is_readonly() constantly True for every class that inherits the method, "
                  "or on the edge 'is_readonly()'); the method is never aliased or re-bound", expected=6) as r:
        RO_GATE = re.compile(r"^self(\.\w+(\(\))?)*\.is_readonly\(\)$")

        def recv0(e, name):
            """receiver of the argument-less method call e = <recv>.name(), else None"""
            if isinstance(e, ast.Call) and isinstance(e.func, ast.Attribute) and e.func.attr == name \
                    and not e.args and not e.keywords:
                return e.func.value
            return None

        def is_self(e):
            return isinstance(e, ast.Name) and e.id == "self"

        def self_rooted(e):
            """self.a, self.a.b, self.m(), self.a.m() ... (at least one step away from self)"""
            steps = 0
            while True:
                if isinstance(e, ast.Attribute):
                    e = e.value
                elif isinstance(e, ast.Call) and isinstance(e.func, ast.Attribute) and not e.args and not e.keywords:
                    e = e.func.value
                else:
                    break
                steps += 1
            return steps > 0 and is_self(e)

        def always_returns(g):
            return not find_path_avoiding(g.cfg(), lambda m: m.kind == "exit", gate_node=is_return)

        def const_true_readonly(ci):
            ro = ci.lookup("is_readonly")
            if ro is None:
                return False
            rets = return_nodes(ro)
            return bool(rets) and always_returns(ro) and all(
                isinstance(n.ast.value, ast.Constant) and n.ast.value.value is True for n in rets)

        def heirs(f):
            """the classes whose instances answer with this implementation"""
            return [c for c in [f.cls] + idx.subclasses(f.cls) if c.lookup(f.name) is f]

        def parsed(fnorm, n, v):
            s = fnorm.norm(n, v)
            try:
                return s, ast.parse(s, mode="eval").body
            except SyntaxError:
                return s, None

        def gated_readonly(f, fnorm, n):
            def known_ro(m, lab):
                ft = fnorm.edge_fact(m, lab)
                return bool(ft) and ft[0] == "truth" and RO_GATE.match(ft[1]) is not None
            r.count(len(f.cfg().nodes))
            return not find_path_avoiding(f.cfg(), lambda x: x is n, gate_edge=known_ro)

        def readonly_here(classes, f, fnorm, n):
            """the node is read-only where f returns at n: constantly for every class in `classes`, or by the path"""
            return all(const_true_readonly(c) for c in classes) or gated_readonly(f, fnorm, n)

        readcap_memo = {}

        def readcap_diminishes(ci):
            """every return of the class's get_readcap() is <x>.get_readonly(), a wrapped node's get_readcap(), or the
            node's own cap object where the node is read-only"""
            g = ci.lookup("get_readcap")
            if g is None:
                return False
            key = (ci.qual, g.qual)
            if key in readcap_memo:
                return readcap_memo[key]
            readcap_memo[key] = False
            gn = FlowNorm(g)
            rets = return_nodes(g)
            ok = bool(rets) and always_returns(g)
            for n in rets:
                if not ok:
                    break
                e = parsed(gn, n, n.ast.value)[1] if n.ast.value is not None else None
                if e is None:
                    ok = False
                elif recv0(e, "get_readonly") is not None:
                    pass
                elif recv0(e, "get_readcap") is not None and not is_self(recv0(e, "get_readcap")):
                    pass
                elif self_rooted(e) and readonly_here([ci], g, gn, n):
                    pass
                else:
                    ok = False
            readcap_memo[key] = ok
            return ok

        def write_slot(ci):
            """attribute names X for which the class's get_write_uri() returns self.X"""
            w = ci.lookup("get_write_uri")
            out = set()
            if w is not None:
                wn = FlowNorm(w)
                for n in return_nodes(w):
                    if n.ast.value is not None:
                        _s, e = parsed(wn, n, n.ast.value)
                        if isinstance(e, ast.Attribute) and is_self(e.value):
                            out.add(e.attr)
            return out

        UNKNOWN = "allmydata.unknown:UnknownNode"

        def why_not(classes, f, fnorm, n, e, ro=False):
            """None when the answer e (parsed normal form of what f returns at n, for instances of `classes`) carries
            no write authority, else what is wrong with it; ro: an enclosing conditional expression established
            is_readonly() for this operand"""
            if e is None:
                return "cannot be read as an expression"
            if isinstance(e, ast.Constant) and (e.value is None or e.value == b""):
                return None
            if isinstance(e, ast.BoolOp) and isinstance(e.op, ast.Or):
                for x in e.values:
                    b = why_not(classes, f, fnorm, n, x, ro)
                    if b is not None:
                        return b
                return None
            if isinstance(e, ast.IfExp):
                t, pol = e.test, True
                while isinstance(t, ast.UnaryOp) and isinstance(t.op, ast.Not):
                    t, pol = t.operand, not pol
                known = RO_GATE.match(norm_plain(t)) is not None
                return why_not(classes, f, fnorm, n, e.body, ro or (known and pol)) \
                    or why_not(classes, f, fnorm, n, e.orelse, ro or (known and not pol))
            rc = recv0(e, "to_string")
            if rc is not None and recv0(rc, "get_readonly") is not None:
                return None                                           # diminished by the cap class (C16.1)
            if rc is not None and recv0(rc, "get_readcap") is not None and is_self(recv0(rc, "get_readcap")):
                if all(readcap_diminishes(c) for c in classes):
                    return None
                return "goes through a get_readcap() that is not a diminished cap"
            d = recv0(e, "get_readonly_uri")
            if d is not None and not is_self(d):
                return None                                           # another node's own answer (decided here too)
            gu = recv0(e, "get_uri")
            if (gu is not None and (is_self(gu) or self_rooted(gu))) or (rc is not None and self_rooted(rc)):
                if ro or readonly_here(classes, f, fnorm, n):
                    return None
                return ("is the full-strength cap, and neither is is_readonly() constantly True for %s nor does the "
                        "return sit on an 'is_readonly()' edge" % "/".join(c.name for c in classes))
            if isinstance(e, ast.Attribute) and is_self(e.value):
                # an opaque cap string kept as given: only the unknown node, whose ro slot C16.11/C16.12 decide
                ws = [write_slot(c) for c in classes]
                if all(c.qual == UNKNOWN for c in classes) and all(w and e.attr not in w for w in ws):
                    return None
                return "is a stored string whose strength is not established"
            return "is not a cap diminished with get_readonly()"

        TAIL = ("(the parent directory stores this string in clear in the entry's ro_uri slot, where every read-cap "
                "holder reads it, and _create_readonly_node builds the 'read-only' child from it)")

        def judge(classes, f, label):
            fnorm = FlowNorm(f)
            for n in return_nodes(f):
                if n.ast.value is None:
                    continue
                s, e = parsed(fnorm, n, n.ast.value)
                why = why_not(classes, f, fnorm, n, e)
                if why is not None:
                    r.violation(f, f.loc(n.ast), "%s answers %s: that %s %s" % (label, s, why, TAIL))

        impls = [f for f in idx.by_name.get("get_readonly_uri", []) if f.cls is not None and f.params[:1] == ["self"]]
        for f in impls:
            r.site(f, None, "%s.get_readonly_uri" % f.cls.name)
            judge(heirs(f), f, "%s.get_readonly_uri()" % f.cls.name)
        # an alias in a class body (get_readonly_uri = get_uri): the aliased method is the implementation
        for ci in idx.classes.values():
            for ex in ci.attrs.get("get_readonly_uri", []):
                tgt = ci.lookup(ex.id) if isinstance(ex, ast.Name) else None
                if tgt is None:
                    r.violation(ci.qual, None, "%s binds get_readonly_uri to %s: what it answers cannot be decided"
                                % (ci.name, norm_plain(ex)))
                elif tgt.name != "get_readonly_uri":
                    r.site(tgt, None, "%s.get_readonly_uri = %s" % (ci.name, tgt.name))
                    judge([ci] + idx.subclasses(ci), tgt, "%s.get_readonly_uri, bound to %s," % (ci.name, short(tgt)))
        for (f2, nd) in get_callgraph(idx).attr_stores("get_readonly_uri"):
            r.violation(f2, f2.loc(nd), "%s re-binds get_readonly_uri on an object" % short(f2))

    # -- 11. every child a directory hands out was made for this node ---------------
    # C18.1 decides what the node factory is given inside _unpack_contents; that is worth nothing when the function
    # can answer with children that did not come out of that factory call on this invocation - a remembered result
    # was unpacked by whoever filled the memo, and a read-only node must not be served what a writeable node of the
    # same directory unpacked (same storage index, same packed bytes, decrypted write caps inside).
    with ctx.rule("C18.11", "R3/R7", "_unpack_contents (and the factories _create_and_validate_node / "
                  "_create_readonly_node): every node in a returned value comes out of the node factory called on this "
                  "invocation, or out of a lookup keyed by this node's writeability (the given write cap); nothing "
                  "remembered in module / shared object state under another key reaches the result", expected=5) as r:
        un = idx.func(DN + "._unpack_contents")
        cv = idx.func(DN + "._create_and_validate_node")
        cr = idx.func(DN + "._create_readonly_node")

        def self_call(tail):
            def p(env, c):
                return call_tail(c) == tail and isinstance(c.func, ast.Attribute) and attr_path(c.func.value) == "self" \
                    and "self" in env.fn.params and env.fn.cls is not None and env.fn.cls.lookup(tail) is cv
            return p

        def nodemaker_call(env, c):
            return call_tail(c) == "create_from_cap" and isinstance(c.func, ast.Attribute) and env.fn is cv \
                and (attr_path(c.func.value) or "").startswith("self.")
        p2 = first_positional_params(cv)
        if len(p2) < 2:
            raise AnchorVanished("_create_and_validate_node(rw_uri, ro_uri, ..) signature changed")
        jobs = [(un, self_call("_create_and_validate_node"), ["self"], [], "this node's writeability (is_readonly())"),
                (cv, nodemaker_call, [], [p2[0]], "the write cap it was given (%s)" % p2[0]),
                (cr, self_call("_create_and_validate_node"), [], [], "anything that tells a read-only child from a writeable one")]
        for (f, fac, roots, flags, what) in jobs:
            pv = Provenance(idx, fac, what)
            rets = pv.returns(pv.env(f, roots, flags))
            if not rets:
                raise AnchorVanished("%s returns nothing" % short(f))
            made = [x for x in pv.leaves if x[2] == "factory"]
            if not made and not pv.lost:
                raise AnchorVanished("no value returned by %s comes out of the node factory" % short(f))
            for n in rets:
                r.site(f, n.ast, "return")
            for (g, x, _k) in made:
                r.site(g, x, "made here")
            for (g, x, k) in pv.leaves:
                if k == "memo keyed by the context":
                    r.site(g, x, k)
                    ctx.note("C18.11: %s reads a memo keyed by %s; who else fills it is not decided" % (short(g), what))
            r.count(pv.states)
            seen = set()
            for (g, x, msg) in pv.lost:
                k = (g.qual, getattr(x, "lineno", 0), msg)
                if k in seen:
                    continue
                seen.add(k)
                r.violation(g, g.loc(x), msg + ": a read-only view of a directory can be served the children (with "
                            "decrypted write caps) that a write-cap view of the same directory produced")

    # -- 10. what an UnknownNode lets into its ro slot ------------------------------
    # C18.9 accepts UnknownNode.get_readonly_uri() == self.ro_uri because the slot is not the write slot; the string in
    # it is packed in clear all the same.  Which of the two given caps may get there, on which paths of __init__, is the
    # condition C16.11 / C16.12 decide by abstract interpretation of the constructor (given caps as tokens, per-path
    # facts 'carries ro./imm.', 'parse refused'): the cap given in the write slot only where the path found an alleged
    # read-only / immutable prefix on it (otherwise the node stays opaque: both slots None, whatever happens to
    # self.error afterwards), and any cap only where uri.from_string's refusal was looked at and was empty.
    # Adopted as C18.10.11 / C18.10.12.  (C16 includes nothing; the flag keeps this terminating should it ever adopt
    # rules of this property in turn.)
    global _ADOPTING
    if not _ADOPTING:
        _ADOPTING = True
        try:
            ctx.include("C16", ["C16.11", "C16.12"], "C18.10")
        finally:
            _ADOPTING = False
